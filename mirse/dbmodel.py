"""Reference model for `db_scenario` replays: a sorted map with snapshots. Returns the expected output of every
observing step (G, I, J); mutating steps expect 'ok'."""


def run_model(steps):
    cur, snaps, exp = {}, [], {}
    start = 1 if steps and steps[0].startswith('O') else 0
    for n, st in enumerate(steps[start:]):
        op, arg = st[0], st[1:]
        if op == 'P':
            k, v = arg.split('='); cur[k] = v; exp[n] = 'ok'
        elif op == 'B':
            for kv in arg.split('+'):
                k, v = kv.split('='); cur[k] = v
            exp[n] = 'ok'
        elif op == 'D':
            cur.pop(arg, None); exp[n] = 'ok'
        elif op in ('F', 'C', 'c'): exp[n] = 'ok'
        elif op == 'A': exp[n] = 'audit:ok'
        elif op == 'S': snaps.append(dict(cur)); exp[n] = 'ok'
        elif op == 'R': snaps = []; exp[n] = 'ok'
        elif op == 'G':
            parts = arg.split('@'); state = snaps[int(parts[1])] if len(parts) > 1 else cur
            exp[n] = ('val:' + (state[parts[0]] or '-')) if parts[0] in state else 'notfound'
        elif op == 'U':
            spec, snapspec = (arg.split('@') + [None])[:2]
            pat, tgt = spec.split(':')
            state = snaps[int(snapspec)] if snapspec is not None else cur
            items = sorted(state.items(), key=lambda kv: bytes.fromhex(kv[0]))
            pos, out = None, []
            for o in pat.split('.'):
                if o == 'first': pos = 0 if items else None
                elif o == 'last': pos = len(items) - 1 if items else None
                elif o == 'seek':
                    c = [i for i, kv in enumerate(items) if bytes.fromhex(kv[0]) >= bytes.fromhex(tgt)]; pos = c[0] if c else None
                elif pos is None: break
                elif o == 'next': pos = pos + 1 if pos + 1 < len(items) else None
                elif o == 'prev': pos = pos - 1 if pos - 1 >= 0 else None
                out.append('none' if pos is None else '%s:%s' % (items[pos][0] or '-', items[pos][1] or '-'))
            exp[n] = 'cursor:' + ','.join(out)
        elif op in ('I', 'J'):
            parts = arg.split('@'); state = snaps[int(parts[1])] if len(parts) > 1 else cur
            items = sorted(state.items(), key=lambda kv: bytes.fromhex(kv[0]), reverse=(op == 'J'))
            exp[n] = 'scan:' + ','.join('%s:%s' % (k or '-', v or '-') for k, v in items)
    return exp


def compare(steps, out):
    """-> (mismatch?, description)"""
    if out.get('_rc') != 0: return (True, 'native run failed/panicked: %s' % out.get('_stderr', '')[-300:])
    exp = run_model(steps)
    bad = []
    for n, e in exp.items():
        g = out.get('step%d' % n)
        if g != e: bad.append('step %d (%s): native %s, model %s' % (n, steps[n + (1 if steps[0].startswith('O') else 0)], g, e))
    return (bool(bad), '; '.join(bad[:4]) or 'native run agrees with the model on all %d steps' % len(exp))
