"""Engine B: symbolic execution of rustc MIR (text dump) with z3.

Values: z3 terms (BitVec / Bool), () for unit, python tuples, dicts {field index: value} for structs and
closures, Enum(tag, fields), Ref(cell, path) for references and raw pointers, python lists for
Vec / slices / arrays of concrete length, Opaque for anything not modelled.
Memory: one dict per path; locals live in cells named '<frame id>:_N', obligation objects in cells
named '$name'; '$state' is the obligation's monitor state (events, abstract world)."""
import os, re, sys, time
import z3
from z3 import (BitVec, BitVecVal, Bool, BoolVal, And, Or, Not, If, ULT, ULE, UGT, UGE, URem, UDiv, LShR, ZeroExt, SignExt,
                Extract, Solver, sat, unsat, unknown, simplify, is_bv, is_bool, is_bv_value, is_true, is_false, BVAddNoOverflow,
                BVMulNoOverflow, BVSubNoUnderflow, Concat)
from .mir import split_top, strip_generics

sys.setrecursionlimit(1000000)


class Inconclusive(Exception):
    pass


def bv(n, w=64): return BitVecVal(n, w)


class Opaque:
    def __init__(self, why=''): self.why = why
    def __repr__(self): return 'opaque<%s>' % self.why[:40]


class Enum:
    def __init__(self, tag, fields=(), ty=None): self.tag, self.fields, self.ty = tag, tuple(fields), ty
    def __repr__(self): return '%s%r' % (self.tag, self.fields)


class Ref:
    def __init__(self, local, path=()): self.local, self.path = local, tuple(path)
    def __repr__(self): return '&%s%r' % (self.local, self.path)


class Delegate:
    """Returned by a summary: evaluate crate function `fn` (a mir.Fn) on `vals`, then map the result with `post`.
    merge=True joins the callee's return values into one if-then-else term (callee must be pure)."""
    def __init__(self, fn, vals, post=lambda r: r, merge=False): self.fn, self.vals, self.post, self.merge = fn, vals, post, merge


STD_DISCR = {'None': 0, 'Some': 1, 'Ok': 0, 'Err': 1, 'Continue': 0, 'Break': 1, 'Less': -1, 'Equal': 0, 'Greater': 1,
             'Included': 0, 'Excluded': 1, 'Unbounded': 2}
WIDTH = {'usize': 64, 'u64': 64, 'isize': 64, 'i64': 64, 'u32': 32, 'i32': 32, 'u16': 16, 'i16': 16, 'u8': 8, 'i8': 8, 'u128': 128, 'i128': 128}


def get_at(v, path):
    for p in path:
        if isinstance(v, Enum): v = v.fields[p]
        elif isinstance(v, dict) and p not in v and v.get('abstract'): return Opaque('field %r of abstract %s' % (p, v.get('__ty', 'object')))
        elif isinstance(v, Opaque): return v
        elif isinstance(v, Ref): continue                                            # pointer wrapper internals: the pointer itself
        else: v = v[p]
    return v


def set_at(v, path, nv):
    if not path: return nv
    p = path[0]
    if isinstance(v, dict): d = dict(v); d[p] = set_at(v.get(p), path[1:], nv); return d
    if isinstance(v, (tuple, list)):
        l = list(v); l[p] = set_at(v[p], path[1:], nv); return tuple(l) if isinstance(v, tuple) else l
    if isinstance(v, Enum): f = list(v.fields); f[p] = set_at(f[p], path[1:], nv); return Enum(v.tag, f, v.ty)
    if v is None: return set_at({}, path, nv)
    raise TypeError('set_at %r %r' % (v, path))


_IGNORABLE_MUT = re.compile(r'.*(?:fmt::Formatter|Debug>::fmt|Display>::fmt|log::|__private_api|Arguments).*')


class Exec:
    def __init__(self, mir, summaries=None, consts=None, loop_bound=8, opaque_calls_ok=False, max_paths=200000, budget_s=None):
        self.mir, self.S, self.consts, self.loop_bound = mir, dict(summaries or {}), dict(consts or {}), loop_bound
        self.opaque_calls_ok = opaque_calls_ok; self.mut_opaque = set()
        self.solver = Solver()
        self.queries = 0; self.solver_s = 0.0; self.blocks_run = 0; self.paths = 0
        self.panics = []          # (pc, message, fn path)
        self.bound_hits = []      # loop bound exceeded
        self.fid = 0
        self.used_summaries = set(); self.inlined = set(); self.opaque_calls = set()
        self.max_paths = max_paths
        self.deadline = time.time() + budget_s if budget_s else None
        self.trace = False
        self.prune_key = None       # optional abstraction env -> hashable: a block already entered with the same call context and key is not explored again
        self.pruned_seen = set()
        self.inline_filter = None   # optional predicate on mir.Fn: crate functions for which it is false are treated as opaque calls
        self.formulas = []        # (label, smt2 text) of final queries, for the cvc5 cross-check

    # ---- solver
    def check(self, *conds):
        t0 = time.time(); self.queries += 1
        self.solver.push()
        for c in conds:
            if isinstance(c, bool):
                if not c: self.solver.add(BoolVal(False))
            else: self.solver.add(c)
        r = self.solver.check()
        self.solver.pop()
        self.solver_s += time.time() - t0
        if r == unknown: raise Inconclusive('solver returned unknown')
        return r == sat

    def model(self, *conds):
        """sat model of (current path /\\ conds) or None."""
        t0 = time.time(); self.queries += 1
        self.solver.push(); self.solver.add(*conds)
        r = self.solver.check(); m = self.solver.model() if r == sat else None
        self.solver.pop(); self.solver_s += time.time() - t0
        if r == unknown: raise Inconclusive('solver returned unknown')
        return m

    def concretize(self, term):
        """The integer value of `term` if it is the same on every model of the current path, else None."""
        if isinstance(term, int): return term
        ts = simplify(term)
        if is_bv_value(ts): return ts.as_long()
        t0 = time.time(); self.queries += 2
        r = self.solver.check()
        if r != sat: return None
        v = self.solver.model().eval(term, model_completion=True)
        self.solver.push(); self.solver.add(term != v); r2 = self.solver.check(); self.solver.pop()
        self.solver_s += time.time() - t0
        return v.as_long() if r2 == unsat else None

    def check_posts(self, posts, pc):
        """Decide a list of (label, postcondition) on the current path with one combined query; only if some postcondition can
        fail are they decided one by one.  Returns [(label, post, model)] for the violated ones."""
        posts = [(l, p) for l, p in posts]
        if not posts: return []
        neg = Or(*[Not(p) for _, p in posts]) if len(posts) > 1 else Not(posts[0][1])
        if self.model(neg) is None:
            self.record_formula('all of: ' + ' | '.join(sorted(set(l for l, _ in posts)))[:300], pc, neg)
            self.n_recorded = getattr(self, 'n_recorded', 0) + len(posts) - 1
            return []
        out = []
        for l, p in posts:
            self.record_formula(l, pc, Not(p))
            m = self.model(Not(p))
            if m is not None: out.append((l, p, m))
        return out

    def record_formula(self, label, pc, negpost):
        self.n_recorded = getattr(self, 'n_recorded', 0) + 1
        if len(self.formulas) < 4000:
            s = Solver(); s.add(*[c for c in pc if not isinstance(c, bool)]); s.add(negpost)
            self.formulas.append((label, s.to_smt2()))

    def under(self, cond, thunk):
        """Run thunk with cond added to the solver context (if feasible). Returns False if infeasible."""
        if cond is None: thunk(); return True
        t0 = time.time(); self.queries += 1
        self.solver.push(); self.solver.add(cond)
        r = self.solver.check(); self.solver_s += time.time() - t0
        try:
            if r == unknown: raise Inconclusive('solver returned unknown')
            if r == sat: thunk()
        finally:
            self.solver.pop()
        return r == sat

    # ---- top level
    def run_fn(self, fn, args, env, pc, k, ctx=None):
        """Execute crate function `fn` with argument values `args` in memory `env` ('$' cells + '$state').
        k(ret, env, pc) is called once per finished path, inside the solver context of that path."""
        fn.parse()
        self.fid += 1; fid = self.fid
        env = dict(env)
        for i, a in enumerate(args): env['%d:_%d' % (fid, i + 1)] = a
        self.inlined.add(fn.path)
        pref = '%d:' % fid
        def rebase(v, depth=0):
            # a reference handed back through one of the callee's own cells (e.g. `&(*_1).field` where _1 holds a reference) is re-rooted at
            # the object it finally points into: the callee's cells disappear with its frame
            if isinstance(v, Ref):
                if v.local.startswith(pref):
                    try:
                        cl, cp = self.norm(env_now[0], v.local, v.path + ('$',))
                        if not cl.startswith(pref): return Ref(cl, cp[:-1])
                        # the reference points into a value the callee owns (an argument passed by value through a transparent pointer):
                        # keep that value alive in a cell of its own
                        keep.setdefault(cl, '$kept%d_%s' % (fid, cl.split(':', 1)[1]))
                        return Ref(keep[cl], cp[:-1])
                    except Exception: pass
                return v
            if depth > 3: return v
            if isinstance(v, Enum) and v.fields: return Enum(v.tag, [rebase(x, depth + 1) for x in v.fields], v.ty)
            if isinstance(v, tuple): return tuple(rebase(x, depth + 1) for x in v)
            if isinstance(v, list): return [rebase(x, depth + 1) for x in v]
            return v
        env_now = [None]; keep = {}
        def done(ret, env2, pc2):
            env_now[0] = env2; keep.clear()
            ret = rebase(ret)
            e = {kk: vv for kk, vv in env2.items() if not kk.startswith(pref)}
            for cl, name in keep.items(): e[name] = env2[cl]
            k(ret, e, pc2)
        if ctx is None: ctx = getattr(self, 'cur_ctx', '')
        self.step(fn, fid, 'bb0', env, pc, {}, done, ctx + '>' + fn.name)

    def top(self, fn, args, env, pre, k):
        """Entry point for obligations: preconditions `pre` are asserted for the whole exploration."""
        self.solver.push()
        try:
            self.solver.add(*[c for c in pre if not isinstance(c, bool)])
            if self.solver.check() != sat: raise Inconclusive('precondition unsatisfiable (vacuous)')
            self.run_fn(fn, args, env, list(pre), k)
        finally:
            self.solver.pop()

    # ---- places
    def loc(self, fid, name): return '%d:%s' % (fid, name)

    def norm(self, env, l, path):
        """Auto-deref: projecting a field/index out of a reference value goes through the reference
        (pointers are modelled either transparently or as Ref; MIR's explicit derefs need not match)."""
        cl, cp = l, ()
        for comp in path:
            n = 0
            while True:
                try: v = get_at(env[cl], cp)
                except (KeyError, IndexError, TypeError): break
                if isinstance(v, Ref) and n < 50: cl, cp = v.local, v.path; n += 1
                else: break
            cp = cp + (comp,)
        return (cl, cp)

    def lvalue(self, fid, env, p):
        l, path = self.lvalue0(fid, env, p)
        return self.norm(env, l, path)

    def lvalue0(self, fid, env, p):
        p = p.strip()
        if re.fullmatch(r'_\d+', p): return (self.loc(fid, p), ())
        if p.endswith(']') and not p.startswith('['):
            depth = 0
            for i in range(len(p) - 1, -1, -1):
                if p[i] == ']': depth += 1
                elif p[i] == '[':
                    depth -= 1
                    if depth == 0: break
            base, idx = p[:i], p[i + 1:-1]
            l, path = self.lvalue(fid, env, base)
            if re.fullmatch(r'_\d+', idx):
                iv = self.operand(fid, env, 'copy ' + idx)
                if not isinstance(iv, int):
                    c = self.concretize(iv)
                    if c is None: raise Inconclusive('symbolic index ' + p)
                    iv = c
            else:
                mm = re.match(r'(-?\d+) of (\d+)', idx) or re.match(r'(\d+)', idx)
                iv = int(mm.group(1))
            return (l, path + (iv,))
        if p.startswith('(') and p.endswith(')'):
            inner = p[1:-1]
            parts = split_top(inner, ' as ')
            if len(parts) == 2 and re.fullmatch(r'[\w:]+', parts[1]): return self.lvalue(fid, env, parts[0])
            depth = 0
            for i, ch in enumerate(inner):
                if ch in '([{<': depth += 1
                if ch in ')]}>': depth -= 1
                if depth == 0 and ch == '.':
                    mm = re.match(r'\.(\d+): (.*)$', inner[i:])
                    if mm:
                        l, path = self.lvalue(fid, env, inner[:i])
                        ty = mm.group(2)
                        if ty.startswith(('std::ptr::Unique<', 'std::ptr::NonNull<', 'core::ptr::Unique<', 'core::ptr::NonNull<', '*const ', '*mut ')):
                            return (l, path)         # Box / Arc internals: the pointer itself
                        return (l, path + (int(mm.group(1)),))
            if inner.startswith('*'): return self.lvalue(fid, env, inner)
        if p.startswith('*'):
            l, path = self.lvalue(fid, env, p[1:])
            try: r = get_at(env[l], path)
            except (KeyError, IndexError, TypeError): r = None
            if isinstance(r, Ref): return (r.local, r.path)
            return (l, path)           # non-Ref: transparent pointer (Box/Arc/&T modelled as the value itself)
        raise Inconclusive('place ' + p)

    def read(self, fid, env, p):
        try:
            l, path = self.lvalue(fid, env, p); return get_at(env[l], path)
        except (KeyError, IndexError, TypeError): return Opaque('read ' + p)

    def write(self, fid, env, p, v):
        l, path = self.lvalue(fid, env, p)
        try: env[l] = set_at(env.get(l), path, v)
        except TypeError:
            if not self.opaque_calls_ok: raise Inconclusive('write into unmodelled place ' + p)

    def deref(self, env, v):
        n = 0
        while isinstance(v, Ref):
            v = get_at(env[v.local], v.path); n += 1
            if n > 50: raise Inconclusive('reference cycle')
        return v

    def store(self, env, ref, nv):
        """Write through a reference (following reference chains)."""
        n = 0
        while isinstance(get_at(env[ref.local], ref.path), Ref):
            ref = get_at(env[ref.local], ref.path); n += 1
            if n > 50: raise Inconclusive('reference cycle')
        env[ref.local] = set_at(env[ref.local], ref.path, nv)

    def operand(self, fid, env, tok):
        tok = tok.strip()
        m = re.match(r'(?:copy|move|no_retag copy) (.*)$', tok)
        if m: return self.read(fid, env, m.group(1))
        m = re.match(r'const (-?\d+)_(usize|u64|isize|i64|u32|i32|u16|i16|u8|i8|u128|i128)$', tok)
        if m: return bv(int(m.group(1)), WIDTH[m.group(2)])
        m = re.match(r'const (-?(?:\d+(?:\.\d+)?(?:[eE][+-]?\d+)?|inf|NaN))f64$', tok)
        if m: return z3.FPVal(float(m.group(1)), z3.Float64())
        if tok == 'const true': return BoolVal(True)
        if tok == 'const false': return BoolVal(False)
        if tok == 'const ()': return ()
        m = re.match(r'const (.*)$', tok)
        if m:
            name = m.group(1)
            ckey = name
            if name.split('::')[-1].startswith(('promoted[', '{constant#')) and getattr(self, 'cur_fn', None) is not None: ckey = self.cur_fn.path + '::' + name
            if ckey in self.consts: return self.consts[ckey]
            if not name.split('::')[-1].startswith(('promoted[', '{constant#')):
                for kk in self.consts:
                    if name.endswith('::' + kk) or kk.endswith('::' + name): return self.consts[kk]
            mm = re.match(r'(?:core|std)::num::<impl ([ui]\w+)>::(MAX|MIN)$', name) or re.match(r'([ui]\d+|[ui]size)::(MAX|MIN)$', name)
            if mm and mm.group(1) in WIDTH:
                wd = WIDTH[mm.group(1)]; signed = mm.group(1).startswith('i')
                val = ((1 << (wd - 1)) - 1 if signed else (1 << wd) - 1) if mm.group(2) == 'MAX' else ((1 << (wd - 1)) if signed else 0)
                return bv(val, wd)
            mm = re.match(r'ZeroSized: \{closure@(src/[^}]+)\}$', name)
            if mm: return {'__closure': mm.group(1)}
            if name.startswith('ZeroSized: '): return Opaque('zst ' + name[11:])
            mm = re.match(r'"(.*)"$', name, flags=re.S)
            if mm: return {'str': mm.group(1)}
            mm = re.match(r"b?'(.)'$", name)
            if mm: return bv(ord(mm.group(1)), 8)
            if name in ('RangeFull', 'std::ops::RangeFull', 'core::ops::RangeFull'): return {'__ty': 'RangeFull'}
            c = self.eval_const(name)
            return c if c is not None else Opaque('const ' + name)
        if re.match(r'(?:<.*>|[\w:]+)::\w+$', strip_generics(tok)) and not re.fullmatch(r'_\d+', tok) and '(' not in tok.split('>')[-1] and ' ' not in strip_generics(tok).split('>')[-1]:
            return {'__fnitem': strip_generics(tok)}          # a function item used as a value (e.g. passed to Iterator::map)
        return self.read(fid, env, tok)

    def eval_const(self, name):
        """Constants / promoteds declared in the crate, evaluated from the MIR dump."""
        hit = None
        last = name.split('::')[-1]
        cf = getattr(self, 'cur_fn', None)
        if cf is not None and (last.startswith('promoted[') or last.startswith('{constant#')):
            # promoteds / inline constants belong to the function being executed: resolve them by its own path
            key = cf.path + '::' + last
            if key in self.mir.const_fns: hit = ('fn', self.mir.const_fns[key])
            elif key in self.mir.const_inline: hit = ('inline', self.mir.const_inline[key])
        if hit is None: hit = self.mir.find_const(strip_generics(name))
        if hit is None: return None
        kind, v = hit
        if kind == 'inline':
            val = self.operand(0, {}, v)
        else:
            v.parse(); out = []
            self.fid += 1; fid = self.fid
            try: self.step(v, fid, 'bb0', {}, [], {}, lambda r, e, p: out.append((r, e)))
            except Inconclusive: return None
            if len(out) != 1: return None
            val, e = out[0]
            if isinstance(val, Ref):          # promoted reference to a temporary: keep the temporary's value (transparent pointer)
                try: val = get_at(e[val.local], val.path)
                except Exception: return None
        if is_bv(val) or is_bool(val): val = simplify(val)
        ckey = name
        if last.startswith(('promoted[', '{constant#')) and cf is not None: ckey = cf.path + '::' + name
        self.consts[ckey] = val
        self.cur_fn = cf
        return val

    # ---- statements
    def step(self, fn, fid, bb, env, pc, visits, k, ctx=''):
        if self.deadline and time.time() > self.deadline: raise Inconclusive('time budget exceeded')
        visits = dict(visits); visits[bb] = visits.get(bb, 0) + 1
        if visits[bb] > self.loop_bound:
            self.bound_hits.append((list(pc), fn.path)); return
        if self.prune_key is not None and '$state' in env:
            key = (ctx, fn.path, bb, visits[bb], self.prune_key(env))
            if key in self.pruned_seen: return
            self.pruned_seen.add(key)
        self.blocks_run += 1
        env = dict(env)
        for st in fn.blocks[bb]:
            self.cur_fn = fn
            m = re.match(r'goto -> (bb\d+);', st)
            if m: return self.step(fn, fid, m.group(1), env, pc, visits, k, ctx)
            if st == 'return;':
                self.paths += fid == 1
                return k(env.get(self.loc(fid, '_0'), ()), env, pc)
            if st in ('unreachable;', 'resume;') or st.startswith('StorageLive') or st.startswith('StorageDead') or st.startswith('nop'):
                if st in ('unreachable;', 'resume;'): return
                continue
            m = re.match(r'drop\((.*)\) -> \[return: (bb\d+),', st)
            if m:
                self.on_drop(fn, fid, env, m.group(1))
                return self.step(fn, fid, m.group(2), env, pc, visits, k, ctx)
            m = re.match(r'switchInt\((.*)\) -> \[(.*)\];', st)
            if m: return self.do_switch(fn, fid, env, pc, visits, k, m.group(1), m.group(2), ctx)
            m = re.match(r'assert\((!?)(.*?), "(.*?)".*\) -> \[success: (bb\d+)', st)
            if m:
                c = self.operand(fid, env, m.group(2))
                if isinstance(c, Opaque): return self.step(fn, fid, m.group(4), env, pc, visits, k, ctx)
                c = Not(c) if m.group(1) == '!' else c
                if self.check(Not(c)): self.panics.append((pc + [Not(c)], m.group(3), fn.path))
                nxt = m.group(4)
                self.under(c, lambda: self.step(fn, fid, nxt, env, pc + [c], visits, k, ctx))
                return
            m = re.match(r'(.+?) = ((?:core::panicking::|std::rt::)?(?:panic_fmt|panic|panic_display|panic_nounwind|begin_panic|unwrap_failed|expect_failed|panic_bounds_check|assert_failed)(?:::<.*>)?\(.*\)) -> (?:bb\d+|unwind.*);', st)
            if m:       # diverging call (with or without a clean-up block)
                self.panics.append((list(pc), 'explicit: ' + m.group(2)[:200], fn.path)); return
            m = re.match(r'(.+?) = (.*\)) -> \[return: (bb\d+), unwind.*\];', st) or re.match(r'(.+?) = (.*\)) -> \[return: (bb\d+)\];', st)
            if m and not st.startswith(('assert', 'switchInt')):
                return self.do_call(fn, fid, env, pc, visits, k, m.group(1), m.group(2), m.group(3), st, ctx)
            m = re.match(r'(.+?) = (.*\)) -> unwind .*;', st)
            if m:       # diverging call: panic!, unwrap failed, ...
                callee = m.group(2)
                msg = callee[:200]
                self.panics.append((list(pc), 'explicit: ' + msg, fn.path)); return
            m = re.match(r'(.+?) = (.*);$', st)
            if not m:
                if st.startswith(('FakeRead', 'PlaceMention', 'Retag', 'AscribeUserType', 'Coverage', 'ConstEvalCounter', 'Deinit', 'BackwardIncompatibleDropHint')): continue
                if st.startswith('discriminant('):
                    mm = re.match(r'discriminant\((.*)\) = (\d+);', st)
                    continue
                raise Inconclusive('statement ' + st[:120])
            dst, rhs = m.groups()
            val = self.rvalue(fn, fid, env, rhs)
            if rhs.startswith('discriminant(') and is_bv(val):
                wd = WIDTH.get(fn.locals.get(dst.strip(), '').strip())
                if wd and wd != val.size(): val = SignExt(wd - val.size(), val) if wd > val.size() else Extract(wd - 1, 0, val)
            self.write(fid, env, dst, val)
        raise Inconclusive('fell off ' + bb)

    def on_drop(self, fn, fid, env, place):
        ty = fn.locals.get(place.strip(), '')
        h = self.S.get('$drop')
        if h: h(self, env, ty, self.read(fid, env, place) if re.fullmatch(r'_\d+', place.strip()) else None)

    def do_switch(self, fn, fid, env, pc, visits, k, ctok, armtxt, ctx=''):
        c = self.operand(fid, env, ctok)
        arms = [a.strip().split(': ') for a in armtxt.split(',')]
        if isinstance(c, Opaque):
            for kk, t in arms: self.step(fn, fid, t, env, pc, visits, k, ctx)
            return
        if isinstance(c, int): c = bv(c)
        if is_bool(c):
            tz = [t for kk, t in arms if kk == '0'][0]; to = [t for kk, t in arms if kk == 'otherwise'][0]
            cs = simplify(c)
            if is_true(cs): return self.step(fn, fid, to, env, pc, visits, k, ctx)
            if is_false(cs): return self.step(fn, fid, tz, env, pc, visits, k, ctx)
            self.under(Not(c), lambda: self.step(fn, fid, tz, env, pc + [Not(c)], visits, k, ctx))
            self.under(c, lambda: self.step(fn, fid, to, env, pc + [c], visits, k, ctx))
            return
        if not is_bv(c): raise Inconclusive('switchInt on %r' % (c,))
        cs = simplify(c)
        def armval(kk):
            v = int(kk)
            return v & ((1 << c.size()) - 1)
        if is_bv_value(cs):
            v = cs.as_long()
            tgt = [t for kk, t in arms if kk != 'otherwise' and armval(kk) == v] or [t for kk, t in arms if kk == 'otherwise']
            return self.step(fn, fid, tgt[0], env, pc, visits, k, ctx)
        others = []
        for kk, t in arms:
            if kk == 'otherwise': continue
            cond = c == BitVecVal(armval(kk), c.size()); others.append(Not(cond))
            self.under(cond, lambda t=t, cond=cond: self.step(fn, fid, t, env, pc + [cond], visits, k, ctx))
        for kk, t in arms:
            if kk == 'otherwise':
                oc = And(*others) if others else BoolVal(True)
                self.under(oc, lambda t=t: self.step(fn, fid, t, env, pc + others, visits, k, ctx))

    # ---- calls
    def do_call(self, fn, fid, env, pc, visits, k, dst, callexpr, nxt, st, ctx=''):
        depth, j = 0, len(callexpr) - 1
        while True:
            if callexpr[j] == ')': depth += 1
            elif callexpr[j] == '(':
                depth -= 1
                if depth == 0: break
            j -= 1
        raw_callee = callexpr[:j]
        callee, args = strip_generics(raw_callee), callexpr[j + 1:-1]
        if self.trace: print('  ' * min(fid, 20) + 'CALL', callee[:120])
        vals = [self.operand(fid, env, a) for a in split_top(args)] if args.strip() else []
        mon = self.S.get('$on_call')
        if mon is not None:
            env = dict(env); mon(self, env, raw_callee, vals)
        def cont(ret, env2, pc2):
            e2 = dict(env2); self.write(fid, e2, dst, ret)
            self.step(fn, fid, nxt, e2, pc2, visits, k, ctx)
        self.cur_ctx = ctx + '@' + nxt
        # which arguments are `&mut` references (from the declared types of the operand locals): an unknown callee may write through them
        self.cur_mut_args = []
        for i, a in enumerate(split_top(args) if args.strip() else []):
            m = re.match(r'(?:copy|move) (_\d+)$', a.strip())
            if m and fn.locals.get(m.group(1), '').strip().startswith('&mut '): self.cur_mut_args.append(i)
        return self.call(callee, vals, env, pc, cont, where=fn.path, raw=raw_callee)

    def call(self, callee, vals, env, pc, cont, where='', raw=None):
        if 'as FromResidual<' in callee and callee.endswith('::from_residual'):
            mm = re.match(r'<Result<.*, ([^,<>]+(?:<.*>)?)> as FromResidual<Result<Infallible, ([^,<>]+(?:<.*>)?)>>>::from_residual$', callee)
            r = vals[0]
            if mm and mm.group(1).strip() != mm.group(2).strip() and isinstance(r, Enum) and r.tag == 'Err':
                conv = '<%s as From<%s>>::from' % (mm.group(1).strip(), mm.group(2).strip())
                if self.summary_key(conv) is not None or self.mir.resolve(conv) is not None:
                    return self.call(conv, [r.fields[0]], env, pc, lambda e, env2, pc2: cont(Enum('Err', (e,)), env2, pc2), where=where)
                return cont(Enum('Err', (Opaque('converted error'),)), env, pc)
            return cont(r, env, pc)
        if callee.endswith(' as Try>::branch') and callee not in self.S:
            r = vals[0]
            if isinstance(r, Enum):
                if r.tag in ('Ok', 'Some'): return cont(Enum('Continue', (r.fields[0],)), env, pc)
                return cont(Enum('Break', (r,)), env, pc)
            if isinstance(r, Opaque):
                cont(Enum('Continue', (Opaque('try-ok'),)), env, pc); cont(Enum('Break', (Enum('Err', (Opaque('try-err'),)),)), env, pc); return
        mm = re.match(r'<(.+) as Into<(.+)>>::into$', callee)
        if mm and callee not in self.S:
            conv = '<%s as From<%s>>::from' % (mm.group(2).strip(), mm.group(1).strip())
            f = self.mir.resolve(conv)
            if f is not None: return self.run_fn(f, vals, env, pc, cont)
        mm = re.match(r'<(\w+) as PartialEq(?:<.*>)?>::ne$', callee)
        if mm and self.summary_key(callee) is None and self.mir.resolve(callee) is None:
            f = self.mir.resolve('<%s as PartialEq>::eq' % mm.group(1))
            if f is not None:
                return self.run_fn(f, vals, env, pc, lambda r, e, p: cont(r if isinstance(r, Opaque) else Not(r), e, p))
        mm = re.match(r'<&+(\w+) as PartialEq(?:<.*>)?>::(eq|ne)$', callee)
        if mm and self.summary_key(callee) is None:
            f = self.mir.resolve('<%s as PartialEq>::eq' % mm.group(1))
            if f is not None:
                def one_hop(v):
                    try: x = get_at(env[v.local], v.path)
                    except Exception: return v
                    return x if isinstance(x, Ref) else v
                neg = mm.group(2) == 'ne'
                return self.run_fn(f, [one_hop(v) if isinstance(v, Ref) else v for v in vals], env, pc, lambda r, e, p: cont(Not(r) if neg and not isinstance(r, Opaque) else r, e, p))
        key = self.summary_key(callee)
        if key is not None:
            self.used_summaries.add(key)
            env = dict(env)
            if getattr(self.S[key], 'cps', False):
                return self.S[key](self, env, pc, vals, cont)
            try: outs = self.S[key](self, env, pc, *vals)
            except Inconclusive:
                if not self.opaque_calls_ok: raise
                self.opaque_calls.add(callee); return cont(Opaque(callee), env, pc)
            except Exception as ex:
                if self.opaque_calls_ok and not os.environ.get('MIRSE_DEBUG'):
                    self.opaque_calls.add(callee); return cont(Opaque(callee), env, pc)
                raise Inconclusive('summary %s failed in %s: %r (vals %s)' % (key, where[-60:], ex, [str(v)[:60] for v in vals]))
            if isinstance(outs, Delegate): return self.delegate(outs, env, pc, cont)
            for out in outs:
                cond, ret, state = out[0], out[1], out[2]
                writes = out[3] if len(out) > 3 else ()
                def go(ret=ret, state=state, writes=writes, cond=cond):
                    e2 = dict(env)
                    for r, nv in writes: self.store(e2, r, nv)
                    e2['$state'] = state
                    if isinstance(ret, Delegate): return self.delegate(ret, e2, pc + ([cond] if cond is not None else []), cont)
                    cont(ret, e2, pc + ([cond] if cond is not None else []))
                self.under(cond, go)
            return
        # closures invoked through Fn* traits
        m = re.match(r'<\{closure@(src/[^}]+)\} as Fn(?:Once|Mut)?<.*>>::call(?:_once|_mut)?$', callee)
        if m and m.group(1) in self.mir.closures:
            f = self.mir.closures[m.group(1)]
            a = vals[1] if len(vals) > 1 else ()
            return self.run_fn(f, [vals[0]] + list(a if isinstance(a, tuple) else (a,)), env, pc, cont)
        f = self.mir.resolve(callee)
        if f is not None and (self.inline_filter is None or self.inline_filter(f)):
            return self.run_fn(f, vals, env, pc, cont)
        if self.opaque_calls_ok or callee in self.S.get('$opaque_ok', ()):
            self.opaque_calls.add(callee)
            # an unknown callee that gets `&mut` access to modelled state could change it: treating it as a no-op would be unsound
            for i in getattr(self, 'cur_mut_args', []):
                if i < len(vals) and isinstance(vals[i], Ref):
                    try: tgt = self.deref(env, vals[i])
                    except Exception: continue
                    while isinstance(tgt, Ref):
                        try: tgt = self.deref(env, tgt)
                        except Exception: break
                    if tgt is not None and not isinstance(tgt, (Opaque, Ref)) and tgt != () and not _IGNORABLE_MUT.match(callee):
                        self.mut_opaque.add(callee)
                        if os.environ.get('MIRSE_LAX_MUT') != '1' and not getattr(self, 'lax_mut', False): raise Inconclusive('no summary for %s, which gets mutable access to modelled state (in %s)' % (callee, where[-80:]))
            return cont(Opaque(callee), env, pc)
        raise Inconclusive('no summary and no MIR for call to %s (in %s)' % (callee, where[-80:]))

    def summary_key(self, callee):
        if callee in self.S: return callee
        # lifetimes / paths normalised
        c2 = re.sub(r"'\w+ ", '', callee)
        if c2 in self.S: return c2
        for pat in self.S.get('$patterns', ()):
            if re.fullmatch(pat, callee):
                self.S[callee] = self.S['$patterns'][pat]; return callee
        return None

    def delegate(self, d, env, pc, cont):
        if not d.merge:
            return self.run_fn(d.fn, d.vals, env, pc, lambda r, e, p: cont(d.post(r), e, p))
        outs = []
        self.run_fn(d.fn, d.vals, env, pc, lambda r, e, p: outs.append((p[len(pc):], r)))
        if not outs: return
        merged = self.merge_values([(And(*c) if c else BoolVal(True), r) for c, r in outs])
        cont(d.post(merged), env, pc)

    def merge_values(self, alts):
        v0 = alts[0][1]
        if len(alts) == 1: return v0
        if all(is_bv(v) or is_bool(v) for _, v in alts):
            out = alts[-1][1]
            for c, v in reversed(alts[:-1]): out = If(c, v, out)
            return out
        if all(isinstance(v, Enum) and v.tag == v0.tag and len(v.fields) == len(v0.fields) for _, v in alts):
            return Enum(v0.tag, [self.merge_values([(c, v.fields[i]) for c, v in alts]) for i in range(len(v0.fields))], v0.ty)
        if all(isinstance(v, tuple) and len(v) == len(v0) for _, v in alts):
            return tuple(self.merge_values([(c, v[i]) for c, v in alts]) for i in range(len(v0)))
        if all(isinstance(v, Enum) and not v.fields for _, v in alts):
            ds = [(c, self.discr_of(v)) for c, v in alts]
            if all(d is not None for _, d in ds): return self.merge_values([(c, d) for c, d in ds])
        raise Inconclusive('cannot merge return values %r' % ([v for _, v in alts][:3],))

    def discr_of(self, v):
        if is_bv(v): return v
        if isinstance(v, Enum):
            if v.tag in STD_DISCR and (v.ty is None or v.tag not in self.mir.enum_discr):
                d = STD_DISCR[v.tag]; return bv(d & 0xff, 8) if v.tag in ('Less', 'Equal', 'Greater') else bv(d)
            t = self.mir.enum_discr.get(v.tag)
            if t:
                if v.ty and v.ty in t: return bv(t[v.ty])
                if len(set(t.values())) == 1: return bv(list(t.values())[0])
        return None

    # ---- rvalues
    def rvalue(self, fn, fid, env, rhs):
        op = lambda x: self.operand(fid, env, x)
        mm = re.match(r'(Lt|Le|Gt|Ge|Eq|Ne)\((.*)\)$', rhs)
        if mm:
            a, b = [op(x) for x in split_top(mm.group(2))]
            if isinstance(a, Opaque) or isinstance(b, Opaque): return Opaque('cmp')
            if isinstance(a, Enum): a = self.discr_of(a)
            if isinstance(b, Enum): b = self.discr_of(b)
            if z3.is_fp(a) or z3.is_fp(b):       # IEEE comparison (NaN compares false)
                return {'Lt': z3.fpLT, 'Le': z3.fpLEQ, 'Gt': z3.fpGT, 'Ge': z3.fpGEQ, 'Eq': z3.fpEQ, 'Ne': lambda x, y: Not(z3.fpEQ(x, y))}[mm.group(1)](a, b)
            if mm.group(1) == 'Eq': return a == b
            if mm.group(1) == 'Ne': return a != b
            signed = self.is_signed(fn, fid, split_top(mm.group(2))[0])
            if signed: return {'Lt': lambda x, y: x < y, 'Le': lambda x, y: x <= y, 'Gt': lambda x, y: x > y, 'Ge': lambda x, y: x >= y}[mm.group(1)](a, b)
            return {'Lt': ULT, 'Le': ULE, 'Gt': UGT, 'Ge': UGE}[mm.group(1)](a, b)
        mm = re.match(r'(Add|Sub|Mul)WithOverflow\((.*)\)$', rhs)
        if mm:
            a, b = [op(x) for x in split_top(mm.group(2))]
            if not (is_bv(a) and is_bv(b)): return (Opaque('arith'), BoolVal(False))
            if mm.group(1) == 'Sub': return (a - b, ULT(a, b))
            if mm.group(1) == 'Add': return (a + b, Not(BVAddNoOverflow(a, b, False)))
            return (a * b, Not(BVMulNoOverflow(a, b, False)))
        mm = re.match(r'(Rem|Div|Add|Sub|Mul|BitAnd|BitOr|BitXor|Shl|Shr|AddUnchecked|SubUnchecked|MulUnchecked|ShlUnchecked|ShrUnchecked)\((.*)\)$', rhs)
        if mm:
            a, b = [op(x) for x in split_top(mm.group(2))]
            if is_bool(a) and is_bool(b):
                return {'BitAnd': And, 'BitOr': Or, 'BitXor': lambda x, y: x != y}[mm.group(1)](a, b)
            if z3.is_fp(a) and z3.is_fp(b) and mm.group(1) in ('Add', 'Sub', 'Mul', 'Div'):       # f64, round to nearest even
                return simplify({'Add': z3.fpAdd, 'Sub': z3.fpSub, 'Mul': z3.fpMul, 'Div': z3.fpDiv}[mm.group(1)](z3.RNE(), a, b))
            if not (is_bv(a) and is_bv(b)): return Opaque('arith')
            o = mm.group(1).replace('Unchecked', '')
            if o in ('Shl', 'Shr') and a.size() != b.size():
                b = ZeroExt(a.size() - b.size(), b) if b.size() < a.size() else Extract(a.size() - 1, 0, b)
            return {'Rem': URem, 'Div': UDiv, 'Add': lambda x, y: x + y, 'Sub': lambda x, y: x - y, 'Mul': lambda x, y: x * y,
                    'BitAnd': lambda x, y: x & y, 'BitOr': lambda x, y: x | y, 'BitXor': lambda x, y: x ^ y,
                    'Shl': lambda x, y: x << y, 'Shr': LShR}[o](a, b)
        mm = re.match(r'Not\((.*)\)$', rhs)
        if mm:
            a = op(mm.group(1))
            if isinstance(a, Opaque): return a
            return Not(a) if is_bool(a) else ~a
        mm = re.match(r'PtrMetadata\((.*)\)$', rhs)
        if mm:
            v = self.deref(env, op(mm.group(1)))
            if isinstance(v, list): return bv(len(v))
            if isinstance(v, dict) and 'len' in v: return v['len']
            return Opaque('len')
        mm = re.match(r'discriminant\((.*)\)$', rhs)
        if mm:
            v = self.read(fid, env, mm.group(1))
            if isinstance(v, Ref): v = self.deref(env, v)
            d = self.discr_of(v)
            if d is None:
                if isinstance(v, Opaque): return v
                raise Inconclusive('discriminant of %r' % (v,))
            return d
        mm = re.match(r'\[(const [^;]*); (\d+)\]$', rhs)
        if mm and mm.group(1) == 'const 0_u8': return {'len': bv(int(mm.group(2))), 'kind': 'zeros'}
        if mm: return [op(mm.group(1)) for _ in range(int(mm.group(2)))]
        mm = re.match(r'(?:std::ops::|core::ops::)?Range(?:Inclusive)?::<.*?> \{ start: (.*), end: (.*?)(?:, exhausted: .*)? \}$', rhs)
        if mm: return {0: op(mm.group(1)), 1: op(mm.group(2)), '__ty': 'Range'}
        mm = re.match(r'(copy|move|const) (.*) as (.*) \(([A-Za-z]+(?:\(.*\))?)\)$', rhs)
        if mm:
            okind, src, ty, kind = mm.groups()
            v = self.read(fid, env, src) if okind != 'const' else self.operand(fid, env, 'const ' + src)
            if kind == 'IntToFloat' and ty.strip() == 'f64' and is_bv(v):
                signed = self.is_signed(fn, fid, 'copy ' + src) if okind != 'const' else bool(re.search(r'_i\d+$|_isize$', src))
                return z3.fpSignedToFP(z3.RNE(), v, z3.Float64()) if signed else z3.fpToFPUnsigned(z3.RNE(), v, z3.Float64())
            if kind == 'IntToInt':
                if not is_bv(v):
                    if isinstance(v, Enum):
                        v = self.discr_of(v)
                        if v is None: return Opaque('cast')
                    else: return Opaque('cast')
                w = WIDTH.get(ty.strip())
                if w is None: return Opaque('cast')
                if w == v.size(): return v
                if w < v.size(): return Extract(w - 1, 0, v)
                signed = self.is_signed(fn, fid, 'copy ' + src) if okind != 'const' else bool(re.search(r'_i\d+$|_isize$', src))
                return SignExt(w - v.size(), v) if signed else ZeroExt(w - v.size(), v)
            if ty.startswith(('*const', '*mut')) and not isinstance(v, Ref) and okind != 'const':
                try:
                    l, path = self.lvalue(fid, env, src)
                    if isinstance(v, (dict, list, tuple, Enum)) or v is None: return Ref(l, path)
                except Inconclusive: pass
            return v
        mm = re.match(r'&(?:mut |raw (?:const|mut) (?:\(fake\) )?|fake shallow |fake )?(.*)$', rhs)
        if mm:
            l, path = self.lvalue(fid, env, mm.group(1)); return Ref(l, path)
        mm = re.match(r'\((.*),\)$', rhs)
        if mm and len(split_top(mm.group(1))) == 1: return (op(mm.group(1)),)
        mm = re.match(r'\((.*)\)$', rhs)
        if mm and len(split_top(mm.group(1))) > 1:
            return tuple(op(x) for x in split_top(mm.group(1)))
        mm = re.match(r'\[(.*)\]$', rhs)
        if mm: return [op(x) for x in split_top(mm.group(1))] if mm.group(1).strip() else []
        mm = re.match(r'\{closure@(src/[^}]+)\}(?: \{ (.*) \})?$', rhs)
        if mm:
            fields = split_top(mm.group(2)) if mm.group(2) else []
            d = {i: op(f.split(': ', 1)[1]) for i, f in enumerate(fields)}
            # rustc prints one operand per captured *variable*; a closure that captures several fields of one variable (disjoint
            # captures of `self.a`, `self.b`) has more upvars than printed. The missing operands are the locals that follow the
            # printed one (they are assigned right before the aggregate and used nowhere else).
            cf = self.mir.closures.get(mm.group(1))
            if cf is not None and fields:
                need = 1 + max([int(x) for x in re.findall(r'\(\*?_1\)?\.(\d+): ', '\n'.join(cf.body))] + [-1])
                m1 = re.match(r'.*: (?:move|copy) _(\d+)$', fields[-1])
                if need > len(fields) and m1:
                    base = int(m1.group(1))
                    for j in range(1, need - len(fields) + 1):
                        loc = '_%d' % (base + j)
                        if loc not in fn.locals: raise Inconclusive('closure %s captures more places than the MIR text shows' % mm.group(1))
                        d[len(fields) - 1 + j] = op('move ' + loc)
            d['__closure'] = mm.group(1); return d
        mm = re.match(r'(?:[\w]+::)*(?:Option|Result)::<.*>::(None|Some|Ok|Err)(?:\((.*)\))?$', rhs)
        if mm: return Enum(mm.group(1), (op(mm.group(2)),) if mm.group(2) else ())
        mm = re.match(r'((?:[\w]+::)*(\w+))(?:::<.*>)? \{ (.*) \}$', rhs)
        if mm:            # struct (or struct-like enum variant) aggregate
            fields = {i: op(f.split(': ', 1)[1]) for i, f in enumerate(split_top(mm.group(3)))}
            fields['__ty'] = mm.group(2); return fields
        mm = re.match(r'((?:[\w]+::)*)(\w+)(?:::<.*?>)?::(\w+)\((.*)\)$', rhs)
        if mm and not rhs.startswith(('copy ', 'move ', 'const ')):
            return Enum(mm.group(3), [op(a) for a in split_top(mm.group(4))], mm.group(2))
        mm = re.match(r'((?:[\w]+::)*)(\w+)(?:::<.*?>)?::(\w+)$', rhs)
        if mm and re.match(r'[A-Z]', mm.group(2)) and re.match(r'[A-Z][a-z0-9]', mm.group(3) + 'a'):
            return Enum(mm.group(3), (), mm.group(2))
        mm = re.match(r'(?:\w+::)*(\w+)::<.*?>\((.*)\)$', rhs)       # generic tuple struct: Reverse::<u64>(x)
        if mm and re.match(r'[A-Z]', mm.group(1)) and not rhs.startswith(('copy ', 'move ', 'const ')):
            d = {i: op(a) for i, a in enumerate(split_top(mm.group(2)))}; d['__ty'] = mm.group(1); return d
        mm = re.match(r'(\w+)\((.*)\)$', rhs)       # tuple struct
        if mm and re.match(r'[A-Z]', mm.group(1)):
            d = {i: op(a) for i, a in enumerate(split_top(mm.group(2)))}; d['__ty'] = mm.group(1); return d
        if re.fullmatch(r'[A-Z][A-Za-z0-9]*', rhs): return Enum(rhs)       # bare unit variant (e.g. std ErrorKind)
        return self.operand(fid, env, rhs)

    def is_signed(self, fn, fid, tok):
        m = re.match(r'(?:copy|move) (_\d+)$', tok.strip())
        if m: return fn.locals.get(m.group(1), '').strip() in ('i8', 'i16', 'i32', 'i64', 'isize', 'i128')
        m = re.match(r'const -?\d+_(i\w+)$', tok.strip())
        return bool(m)
