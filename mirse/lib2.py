"""More summaries: hash sets (as lists without duplicates), slice::sort_by with a comparator closure, linked-list iteration."""
import itertools
from z3 import BitVecVal, BoolVal, And, Or, Not, simplify, is_true, is_false, is_bv
from .exec import Enum, Ref, Opaque, Inconclusive, bv
from .lib import one, cps, base_ref, the_list, apply_closure, as_int


def _same(a, b):
    """decidable equality of two set elements (file numbers or file structs); raises if it depends on the model"""
    if isinstance(a, dict) and isinstance(b, dict):
        ka = [k for k in a if isinstance(k, int)]
        return all(_same(a[k], b.get(k)) for k in ka if not isinstance(a[k], (dict, Enum)) or k in b)
    if isinstance(a, Enum) and isinstance(b, Enum):
        return a.tag == b.tag and all(_same(x, y) for x, y in zip(a.fields, b.fields))
    if is_bv(a) and is_bv(b):
        s = simplify(a == b)
        if is_true(s): return True
        if is_false(s): return False
        if a.eq(b): return True
        raise Inconclusive('set membership depends on the model (%s == %s)' % (a, b))
    return a is b or a == b


def set_values(se, env, r):
    v = se.deref(env, r) if isinstance(r, Ref) else r
    if isinstance(v, dict) and 'set' in v: return v['set']
    if isinstance(v, list): return v
    raise Inconclusive('expected a set, got %r' % (v,))


def hs_new(se, env, pc): return one(env, {'set': []})


def _eqf(a, b):
    """equality of two set elements as a formula (structs field by field)"""
    if isinstance(a, dict) and isinstance(b, dict):
        ka = [k for k in a if isinstance(k, int)]
        return And(*[_eqf(a[k], b.get(k)) for k in ka if not isinstance(a[k], (dict, Enum)) or k in b]) if ka else BoolVal(True)
    if isinstance(a, Enum) and isinstance(b, Enum):
        return And(BoolVal(a.tag == b.tag), *[_eqf(x, y) for x, y in zip(a.fields, b.fields)])
    if is_bv(a) and is_bv(b): return a == b
    return BoolVal(a is b or a == b)


def hs_insert(se, env, pc, r, x):
    x = se.deref(env, x) if isinstance(x, Ref) else x
    cur = set_values(se, env, r)
    try:
        if any(_same(x, y) for y in cur): return one(env, BoolVal(False))
    except Inconclusive:
        # membership depends on the model (an element decoded from symbolic bytes): fork
        present = Or(*[_eqf(x, y) for y in cur])
        return [(present, BoolVal(False), env.get('$state')), (Not(present), BoolVal(True), env.get('$state'), [(r, {'set': cur + [x]})])]
    se.store(env, r, {'set': cur + [x]}); return one(env, BoolVal(True))


def hs_remove(se, env, pc, r, x):
    x = se.deref(env, x) if isinstance(x, Ref) else x
    cur = set_values(se, env, r)
    new = [y for y in cur if not _same(x, y)]
    se.store(env, r, {'set': new}); return one(env, BoolVal(len(new) != len(cur)))


def hs_contains(se, env, pc, r, x):
    x = se.deref(env, x) if isinstance(x, Ref) else x
    return one(env, BoolVal(any(_same(x, y) for y in set_values(se, env, r))))


def hs_iter(se, env, pc, r):
    b = base_ref(se, env, r); n = len(set_values(se, env, r))
    return one(env, {'it': [Ref(b.local, b.path + ('set', i)) for i in range(n)]})


@cps
def sort_by(se, env, pc, vals, cont):
    """slice::sort_by(|a, b| cmp): fork over the permutations whose adjacent pairs the comparator does not call Greater."""
    r, clo = vals
    lst = the_list(se, env, r); n = len(lst)
    if n > 4: raise Inconclusive('sort of more than 4 elements')
    if n <= 1: return cont((), env, pc)
    base = base_ref(se, env, r)
    def try_perm(perm):
        def pair(i, env2, pc2):
            if i == n - 1:
                e = dict(env2); se.store(e, r, [lst[j] for j in perm]); return cont((), e, pc2)
            def got(o, env3, pc3):
                if isinstance(o, Enum): o = se.discr_of(o)
                c = o != BitVecVal(1, 8)
                if perm[i] > perm[i + 1]: c = And(c, o != BitVecVal(0, 8))        # stable sort: equal elements keep their order
                se.under(c, lambda: pair(i + 1, env3, pc3 + [c]))
            apply_closure(se, env2, pc2, clo, [Ref(base.local, base.path + (perm[i],)), Ref(base.local, base.path + (perm[i + 1],))], got)
        pair(0, env, pc)
    for perm in itertools.permutations(range(n)): try_perm(perm)


def ordering_eq(se, env, pc, a, b):
    a = se.deref(env, a) if isinstance(a, Ref) else a; b = se.deref(env, b) if isinstance(b, Ref) else b
    if isinstance(a, Enum): a = se.discr_of(a)
    if isinstance(b, Enum): b = se.discr_of(b)
    return one(env, a == b)


def install(S):
    P = S['$patterns']
    P[r'HashSet::new'] = hs_new
    P[r'<HashSet<.*> as Default>::default'] = hs_new
    P[r'HashSet::insert'] = hs_insert
    P[r'HashSet::remove'] = hs_remove
    P[r'HashSet::contains'] = hs_contains
    P[r'HashSet::iter'] = hs_iter
    P[r'<&HashSet<.*> as IntoIterator>::into_iter'] = hs_iter
    from .lib import it_next
    P[r'<std::collections::hash_set::Iter<.*> as Iterator>::next'] = it_next
    P[r'(?:core|std)::slice::<impl \[.*\]>::sort_by'] = sort_by
    P[r'<std::cmp::Ordering as PartialEq>::eq'] = ordering_eq
    P[r'<(?:u64|usize|u32|u8|bool) as Clone>::clone'] = lambda se, env, pc, x: one(env, se.deref(env, x))
    P[r'<Option<.*> as Clone>::clone'] = lambda se, env, pc, x: one(env, se.deref(env, x))
    return S
