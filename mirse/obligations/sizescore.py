"""O9.5 Version::finalize / requires_size_compaction: the level a size-triggered compaction is asked for (C09)."""
import time, itertools
import z3
from z3 import BitVec, BoolVal, And, Or, Not, ULT, ULE, UGE, UGT
from ..exec import Exec, Inconclusive, Ref, Enum
from ..ob import Result
from .. import lib
from .version import World, mk_version, base_summaries, bv, mval


def o9_5_size_compaction_level(mir, tier):
    """A version with 0..5 level-0 files and one file of free size (< 2^62) at one or two deeper levels; f64
    arithmetic is IEEE (z3 FloatingPoint, round to nearest even).  Version::finalize with max_bytes_for_level and sum_file_sizes
    inlined, then requires_size_compaction.  Reference (what VersionSet::pick_compaction relies on: it asserts level + 1 < 7 and
    takes files[level][0]): whenever a size compaction is required the recorded level has a level below it and holds a file;
    four or more level-0 files always require a compaction (writers stop at 12 and wait for it); a version in which no level is
    over its limit requires none (else the worker compacts forever)."""
    fn = mir.method('Version', 'finalize'); rq = mir.method('Version', 'requires_size_compaction')
    res = Result('O9.5 Version::finalize + requires_size_compaction', [fn.path, rq.path, 'Version::max_bytes_for_level, sum_file_sizes (inlined)'],
                 'level 0 with 0..5 files; one file of free size (< 2^62) at one or two of the levels 1..6 (quick: 6 shapes; thorough: every single level and every pair); IEEE f64 by the solver')
    t0 = time.time()
    vf = mir.struct_fields('Version')
    # every symbolic level costs one 53-bit divider per query (3..5 s with two of them): shapes name the levels that hold a file
    if tier == 'quick': shapes = [(0, (6,)), (4, (6,)), (0, (1,)), (3, (5,)), (5, ()), (3, (5, 6))]
    else: shapes = [(n0, lv) for n0 in (0, 3, 4, 5) for lv in [()] + [(l,) for l in range(1, 7)]] + [(n0, p) for n0 in (0, 4) for p in itertools.combinations(range(1, 7), 2)]
    for n0, deep in shapes:
        w = World(mir)
        lv = {0: [w.file('L0_%d' % i, number=i + 1) for i in range(n0)]}
        for l in range(1, 7): lv[l] = [w.file('L%d_0' % l, number=10 * l + 1)] if l in deep else []
        LF = {l: [w.F(f) for f in fs] for l, fs in lv.items()}
        pre = list(w.pre)
        for l in range(7): pre += [ULT(f['size'], bv(1 << 62)) for f in LF[l]]
        S = base_summaries(mir)
        ex = Exec(mir, S, loop_bound=12)
        total = {l: sum([f['size'] for f in LF[l]], bv(0)) for l in range(7)}
        limit = {l: 10 * 1024 * 1024 * 10 ** (l - 1) for l in range(1, 7)}
        def after(ret, env, pc, ex=ex, n0=n0, deep=deep, total=total):
            v = ex.deref(env, Ref('$v')); meta = v[vf.index('size_compaction_metadata')]
            if not (isinstance(meta, Enum) and meta.tag == 'Some'): raise Inconclusive('finalize left no size compaction metadata: %r' % (meta,))
            mf = mir.struct_fields('SizeCompactionMetadata'); level = meta.fields[0][mf.index('compaction_level')]
            def asked(req, env2, pc2):
                has_file = Or(*[And(level == bv(l), BoolVal(len(LF[l]) > 0)) for l in range(7)])
                over = Or(BoolVal(n0 >= 4), *[UGE(total[l], bv(limit[l])) for l in range(1, 7)])
                posts = [('a size compaction is asked for the last level (pick_compaction asserts level + 1 < 7: the compaction worker panics)', Or(Not(req), ULT(level, bv(6)))),
                         ('a size compaction is asked for a level without files', Or(Not(req), has_file)),
                         ('four or more level-0 files do not ask for a compaction', Or(BoolVal(n0 < 4), req)),
                         ('a compaction is asked for although no level is over its limit', Or(Not(req), over))]
                res.cases['L0=%d files at %s' % (n0, list(deep))] = 1
                for label, post, m in ex.check_posts(posts, pc2):
                    sizes = [[mval(m, f['size']) for f in LF[l]] for l in range(7)]
                    res.violations.append({'label': label, 'level': mval(m, level), 'sizes': sizes,
                                           'replay': ['size_compaction_level', str(n0)] + [','.join(str(x) for x in sizes[l]) or '-' for l in range(1, 7)]})
            ex.run_fn(rq, [Ref('$v')], env, pc, asked)
        ex.top(fn, [Ref('$v')], {'$state': {}, '$v': mk_version(mir, lv)}, pre, after)
        res.absorb(ex)
        for pcx, msg, where in ex.panics:
            res.panic_paths += 1; res.violations.append({'label': 'panic path: ' + msg[:80], 'replay': None, 'confirmed_by': {'reproduced': False, 'detail': 'no native scenario'}})
    res.wall_s = time.time() - t0
    if res.violations: res.status = 'violation'
    return res


def o9_5_confirm(v, out):
    """Native: a version with files of the model's sizes is finalized; VersionSet::pick_compaction is then called on it."""
    if out.get('_rc') != 0: return (False, 'native run failed: %s' % out.get('_stderr', '')[-300:])
    req = out.get('required') == 'true'; level = int(out.get('level', '0')); files_at = int(out.get('files_at_level', '0'))
    if 'last level' in v['label']: return (req and level >= 6, 'native: required=%s level=%d pick_compaction=%s' % (req, level, out.get('pick')))
    if 'without files' in v['label']: return (req and files_at == 0, 'native: required=%s level=%d files there=%d' % (req, level, files_at))
    if 'four or more' in v['label']: return (not req, 'native: required=%s' % req)
    return (req, 'native: required=%s level=%d' % (req, level))
