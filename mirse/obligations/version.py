"""Obligations on file selection (versioning/*): O7.1, O1.3, O7.2, O1.4, O7.4, O10.3."""
import itertools, time
from z3 import BitVec, BitVecVal, Bool, BoolVal, And, Or, Not, ULT, ULE, UGT, UGE, If, simplify
from ..exec import Exec, Enum, Ref, Opaque, Inconclusive, bv
from ..ob import World, Result, klt, kle, keq, mval, key_bytes
from .. import lib


def base_summaries(mir):
    S = lib.std_summaries()
    S['$patterns'].update(lib.ref_partial_ord(mir, 'InternalKey'))
    S['$patterns'][r'<InternalKey as Clone>::clone'] = lib.clone_deep
    return S


def same_key(a, b): return And(a[0] == b[0], a[1] == b[1], a[2] == b[2])


def files_arg(w, files):
    """Render model values of files for the native replay binary: num:size:smU:smS:lgU:lgS,..."""
    return files


def o7_1_key_range(mir, tier):
    """get_key_range_for_files returns the hull (smallest of the smallest keys .. largest of the largest keys)."""
    fn = mir.method('FileMetadata', 'get_key_range_for_files')
    N = 4 if tier == 'thorough' else 3
    res = Result('O7.1 get_key_range_for_files', [fn.path, 'InternalKey::cmp/partial_cmp (inlined)'], 'files 1..%d, abstract 16-bit user keys, free 64-bit sequence numbers' % N)
    t0 = time.time()
    for n in range(1, N + 1):
        w = World(mir)
        files = [w.file('f%d' % i, number=i + 1) for i in range(n)]
        F = [w.F(f) for f in files]
        pre = list(w.pre) + [kle(f['sm'], f['lg']) for f in F]
        ex = Exec(mir, base_summaries(mir), loop_bound=n + 2)
        seen = {'start_bad': False, 'end_bad': False}
        def k(ret, env, pc, F=F, n=n, ex=ex):
            start, end = w.K(ret[1]), w.K(ret[2])
            post_s = And(*[kle(start, f['sm']) for f in F], Or(*[same_key(start, f['sm']) for f in F]))
            post_e = And(*[kle(f['lg'], end) for f in F], Or(*[same_key(end, f['lg']) for f in F]))
            for label, post in (('range.start is not the smallest key of the files', post_s), ('range.end is not the largest key of the files', post_e)):
                ex.record_formula('%s n=%d' % (label, n), pc, Not(post))
                m = ex.model(Not(post))
                if m is not None:
                    vals = [[mval(m, x) for x in (f['sm'][0], f['sm'][1], f['lg'][0], f['lg'][1])] for f in F]
                    res.violations.append({'label': label, 'n': n, 'files': vals,
                                           'replay': ['key_range'] + ['%s:%d:%s:%d' % (key_bytes(v[0]), v[1], key_bytes(v[2]), v[3]) for v in vals]})
            if len(res.witnesses) < 3:
                m = ex.model()
                if m is not None:
                    vals = [[mval(m, x) for x in (f['sm'][0], f['sm'][1], f['lg'][0], f['lg'][1])] for f in F]
                    res.witnesses.append({'files': vals, 'executor_result': [mval(m, x) for x in (start[0], start[1], end[0], end[1])],
                                          'replay': ['key_range'] + ['%s:%d:%s:%d' % (key_bytes(v[0]), v[1], key_bytes(v[2]), v[3]) for v in vals]})
        env = {'$state': {}, '$files': files}
        ex.top(fn, [Ref('$files')], env, pre, k)
        res.absorb(ex)
        res.panic_paths += len([p for p in ex.panics])
        for pc, msg, where in ex.panics:
            res.violations.append({'label': 'panic path: ' + msg[:80], 'n': n, 'replay': None})
    res.wall_s = time.time() - t0
    if res.violations: res.status = 'violation'
    return res


# ---- native confirmation helpers
def _parse_files(argv):
    out = []
    for f in argv:
        p = f.split(':'); out.append(((int(p[0], 16), int(p[1])), (int(p[2], 16), int(p[3]))))
    return out


def _kcmp_key(k): return (k[0], -k[1])


def _native_key(s):
    u, q = s.split(':'); return (int(u, 16) if u != '-' else 0, int(q))


def o7_1_confirm(v, out):
    if out.get('_rc') != 0: return (False, 'native run failed: %s' % out.get('_stderr', '')[-200:])
    files = _parse_files(v['replay'][1:])
    exp_s = min((f[0] for f in files), key=_kcmp_key); exp_e = max((f[1] for f in files), key=_kcmp_key)
    got_s, got_e = _native_key(out['start']), _native_key(out['end'])
    bad = (got_s != exp_s) or (got_e != exp_e)
    return (bad, 'native range %s..%s, hull %s..%s' % (got_s, got_e, exp_s, exp_e))


def o7_1_witness_ok(w, out):
    if out.get('_rc') != 0: return False
    r = w['executor_result']
    return _native_key(out['start']) == (r[0], r[1]) and _native_key(out['end']) == (r[2], r[3])
