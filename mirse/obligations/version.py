"""Obligations on file selection (versioning/*): O7.1, O1.3, O7.2, O1.4, O7.4, O10.3."""
import itertools, time
from z3 import BitVec, BitVecVal, Bool, BoolVal, And, Or, Not, ULT, ULE, UGT, UGE, If, simplify
from ..exec import Exec, Enum, Ref, Opaque, Inconclusive, bv
from ..ob import World, Result, klt, kle, keq, mval, key_bytes
from .. import lib


def base_summaries(mir):
    S = lib.std_summaries()
    S['$patterns'].update(lib.ref_partial_ord(mir, 'InternalKey'))
    S['$patterns'][r'<InternalKey as Clone>::clone'] = lib.clone_deep
    return S


def same_key(a, b): return And(a[0] == b[0], a[1] == b[1], a[2] == b[2])


def files_arg(w, files):
    """Render model values of files for the native replay binary: num:size:smU:smS:lgU:lgS,..."""
    return files


LABEL_71_START = 'range.start is not the smallest key of the files'
LABEL_71_END = 'range.end is not one of the files\' largest keys carrying the largest user key (compaction input selection misses overlapping files)'


def o7_1_key_range(mir, tier):
    """get_key_range_for_files (1..3 (4) files) and get_key_range_for_multiple_levels (two lists of 1..2 files, the second possibly empty):
    the start is the smallest of the smallest keys (it becomes the compaction pointer); the end is one of the files' largest keys and
    carries the largest user key - callers (`get_overlapping_compaction_inputs`) consult the user keys of the range only.  (Until the
    repair of D4 the end was the SMALLEST of the largest keys.  The earlier oracle asked for the largest INTERNAL key; among bounds with
    the same user key that is more than any caller or property needs, and the existing unit test pins the first such bound.)"""
    fn = mir.method('FileMetadata', 'get_key_range_for_files'); fn2 = mir.method('FileMetadata', 'get_key_range_for_multiple_levels')
    N = 4 if tier == 'thorough' else 3
    res = Result('O7.1 get_key_range_for_files / get_key_range_for_multiple_levels', [fn.path, fn2.path, 'InternalKey::cmp/partial_cmp (inlined)'],
                 'one list of 1..%d files; two lists of (1..2, 0..2) files; abstract 16-bit user keys, free 64-bit sequence numbers' % N)
    t0 = time.time()
    shapes = [((n,), fn) for n in range(1, N + 1)] + [((a, b), fn2) for a in (1, 2) for b in (0, 1, 2)]
    for shape, f_ in shapes:
        w = World(mir)
        lists = []; num = 1
        for li, cnt in enumerate(shape):
            lists.append([w.file('f%d_%d' % (li, i), number=num + i) for i in range(cnt)]); num += cnt
        files = [x for l in lists for x in l]
        F = [w.F(f) for f in files]
        pre = list(w.pre) + [kle(f['sm'], f['lg']) for f in F]
        ex = Exec(mir, base_summaries(mir), loop_bound=len(files) + 3)
        def k(ret, env, pc, F=F, shape=shape, ex=ex, f_=f_):
            start, end = w.K(ret[0]), w.K(ret[1])
            post_s = And(*[kle(start, f['sm']) for f in F], Or(*[same_key(start, f['sm']) for f in F]))
            post_e = And(*[ULE(f['lg'][0], end[0]) for f in F], Or(*[same_key(end, f['lg']) for f in F]))
            for label, post in ((LABEL_71_START, post_s), (LABEL_71_END, post_e)):
                ex.record_formula('%s shape=%s' % (label, shape), pc, Not(post))
                m = ex.model(Not(post))
                if m is not None:
                    vals = [[mval(m, x) for x in (f['sm'][0], f['sm'][1], f['lg'][0], f['lg'][1])] for f in F]
                    res.violations.append({'label': label, 'shape': list(shape), 'files': vals,
                                           'replay': ['key_range'] + ['%s:%d:%s:%d' % (key_bytes(v[0]), v[1], key_bytes(v[2]), v[3]) for v in vals]})
            res.cases['lists of %s files' % (shape,)] = res.cases.get('lists of %s files' % (shape,), 0) + 1
            if len(res.witnesses) < 3 and f_ is fn:
                m = ex.model()
                if m is not None:
                    vals = [[mval(m, x) for x in (f['sm'][0], f['sm'][1], f['lg'][0], f['lg'][1])] for f in F]
                    res.witnesses.append({'files': vals, 'executor_result': [mval(m, x) for x in (start[0], start[1], end[0], end[1])],
                                          'replay': ['key_range'] + ['%s:%d:%s:%d' % (key_bytes(v[0]), v[1], key_bytes(v[2]), v[3]) for v in vals]})
        env = {'$state': {}, '$files': lists[0] if f_ is fn else [list(l) for l in lists]}
        ex.top(f_, [Ref('$files')], env, pre, k)
        res.absorb(ex)
        res.panic_paths += len([p for p in ex.panics])
        for pc, msg, where in ex.panics:
            res.violations.append({'label': 'panic path: ' + msg[:80], 'shape': list(shape), 'replay': None})
    res.wall_s = time.time() - t0
    if res.violations: res.status = 'violation'
    return res


# ---- native confirmation helpers
def _parse_files(argv):
    out = []
    for f in argv:
        p = f.split(':'); out.append(((int(p[0], 16), int(p[1])), (int(p[2], 16), int(p[3]))))
    return out


def _kcmp_key(k): return (k[0], -k[1])


def _native_key(s):
    u, q = s.split(':'); return (int(u, 16) if u != '-' else 0, int(q))


def o7_1_confirm(v, out):
    """Native: the real get_key_range_for_files on the model's files (the files of both lists together - the two functions agree on a flat list)."""
    if out.get('_rc') != 0: return (False, 'native run failed: %s' % out.get('_stderr', '')[-200:])
    files = _parse_files(v['replay'][1:])
    exp_s = min((f[0] for f in files), key=_kcmp_key); max_u = max(f[1][0] for f in files)
    got_s, got_e = _native_key(out['start']), _native_key(out['end'])
    bad = (got_s != exp_s) or got_e[0] != max_u or got_e not in [f[1] for f in files]
    return (bad, 'native range %s..%s; smallest key %s, largest user key %04x' % (got_s, got_e, exp_s, max_u))


def o7_1_witness_ok(w, out):
    if out.get('_rc') != 0: return False
    r = w['executor_result']
    return _native_key(out['start']) == (r[0], r[1]) and _native_key(out['end']) == (r[2], r[3])


# ---------------------------------------------------------------- O1.3 find_file_with_upper_bound_range
def sorted_disjoint(F):
    """INV of a level >= 1: each file smallest <= largest, consecutive files strictly ordered (internal key order)."""
    c = [kle(f['sm'], f['lg']) for f in F]
    c += [klt(F[i]['lg'], F[i + 1]['sm']) for i in range(len(F) - 1)]
    return c


def _files_argv(m, F):
    return ['%d:%d:%s:%d:%s:%d' % (mval(m, f['num']), mval(m, f['size']), key_bytes(mval(m, f['sm'][0])), mval(m, f['sm'][1]),
                                     key_bytes(mval(m, f['lg'][0])), mval(m, f['lg'][1])) for f in F]


def o1_3_find_file(mir, tier):
    fn = mir.fn_by_suffix('utils::find_file_with_upper_bound_range')
    N = 5 if tier == 'thorough' else 4
    res = Result('O1.3 find_file_with_upper_bound_range', [fn.path, 'InternalKey::cmp (inlined)'], 'sorted disjoint levels of 0..%d files, free target key' % N)
    t0 = time.time()
    for n in range(0, N + 1):
        w = World(mir)
        files = [w.file('f%d' % i, number=i + 1) for i in range(n)]
        F = [w.F(f) for f in files]
        tk = w.key('t'); T = w.K(tk)
        pre = list(w.pre) + sorted_disjoint(F)
        ex = Exec(mir, base_summaries(mir), loop_bound=n + 3)
        def k(ret, env, pc, F=F, n=n, ex=ex, T=T):
            # reference: first index whose largest key is >= target
            cases = []
            for i in range(n):
                cases.append((And(*[klt(F[j]['lg'], T) for j in range(i)], kle(T, F[i]['lg'])), i))
            none_c = And(*[klt(f['lg'], T) for f in F]) if F else BoolVal(True)
            if isinstance(ret, Enum) and ret.tag == 'None': post = none_c
            elif isinstance(ret, Enum) and ret.tag == 'Some': post = Or(*[And(c, ret.fields[0] == bv(i)) for c, i in cases]) if cases else BoolVal(False)
            else: raise Inconclusive('unexpected return %r' % (ret,))
            label = 'result is not the first file whose largest key is >= target'
            ex.record_formula('%s n=%d' % (label, n), pc, Not(post))
            m = ex.model(Not(post))
            got = (lambda mm: None if ret.tag == 'None' else mval(mm, ret.fields[0]))
            if m is not None:
                res.violations.append({'label': label, 'n': n, 'executor_result': got(m),
                                       'replay': ['find_file', '%s:%d' % (key_bytes(mval(m, T[0])), mval(m, T[1]))] + _files_argv(m, F)})
            elif len(res.witnesses) < 4 and n >= 2:
                m = ex.model()
                res.witnesses.append({'executor_result': got(m), 'replay': ['find_file', '%s:%d' % (key_bytes(mval(m, T[0])), mval(m, T[1]))] + _files_argv(m, F)})
        env = {'$state': {}, '$files': files, '$t': tk}
        ex.top(fn, [Ref('$files'), Ref('$t')], env, pre, k)
        res.absorb(ex)
        for pc, msg, where in ex.panics:
            res.panic_paths += 1
            res.violations.append({'label': 'panic path: ' + msg[:80], 'n': n, 'replay': None})
    res.wall_s = time.time() - t0
    if res.violations: res.status = 'violation'
    return res


def _ref_find_file(argv):
    t = argv[0].split(':'); T = (int(t[0], 16), int(t[1]))
    for i, f in enumerate(argv[1:]):
        p = f.split(':'); lg = (int(p[4], 16), int(p[5]))
        if not (_kcmp_key(lg) < _kcmp_key(T)): return i
    return None


def o1_3_confirm(v, out):
    if out.get('_rc') != 0: return (False, 'native run failed: %s' % out.get('_stderr', '')[-200:])
    exp = _ref_find_file(v['replay'][1:])
    got = None if out['index'] == 'none' else int(out['index'])
    return (got != exp, 'native index %s, reference %s' % (got, exp))


def o1_3_witness_ok(w, out):
    if out.get('_rc') != 0: return False
    got = None if out['index'] == 'none' else int(out['index'])
    return got == w['executor_result']


# ---------------------------------------------------------------- O10.3 FileMetadataBySmallestKey::compare is a total order
def o10_3_comparator(mir, tier):
    fn = mir.method('FileMetadataBySmallestKey', 'compare', 'Comparator')
    res = Result('O10.3 FileMetadataBySmallestKey::compare', [fn.path], 'three free files (free keys, sequences, numbers)')
    t0 = time.time()
    w = World(mir)
    files = [w.file('f%d' % i) for i in range(3)]
    F = [w.F(f) for f in files]
    ex = Exec(mir, base_summaries(mir), loop_bound=4)
    out = {}
    pairs = [(0, 1), (1, 0), (1, 2), (0, 2), (0, 0)]
    def run_pairs(idx, env, pc):
        if idx == len(pairs):
            L, E, G = (lambda o: o == BitVecVal(0xff, 8)), (lambda o: o == BitVecVal(0, 8)), (lambda o: o == BitVecVal(1, 8))
            o01, o10, o12, o02, o00 = [out[p] for p in pairs]
            def ref(a, b):
                lt = Or(klt(F[a]['sm'], F[b]['sm']), And(keq(F[a]['sm'], F[b]['sm']), ULT(F[a]['num'], F[b]['num'])))
                eq = And(keq(F[a]['sm'], F[b]['sm']), F[a]['num'] == F[b]['num'])
                return lt, eq
            checks = [('compare(a,a) is not Equal', E(o00)),
                      ('compare is not antisymmetric', And(L(o01) == G(o10), E(o01) == E(o10))),
                      ('compare is not transitive', Or(Not(And(L(o01), L(o12))), L(o02))),
                      ('compare does not order by smallest key then file number', And(L(o01) == ref(0, 1)[0], E(o01) == ref(0, 1)[1]))]
            for label, post in checks:
                ex.record_formula(label, pc, Not(post))
                m = ex.model(Not(post))
                if m is not None:
                    res.violations.append({'label': label, 'replay': ['fm_compare'] + _files_argv(m, F)})
            if len(res.witnesses) < 2:
                m = ex.model()
                res.witnesses.append({'executor_result': [mval(m, out[p]) for p in [(0, 1), (1, 2), (0, 2)]], 'replay': ['fm_compare'] + _files_argv(m, F)})
            return
        a, b = pairs[idx]
        def k(ret, env2, pc2):
            out[pairs[idx]] = ret if not isinstance(ret, Enum) else ex.discr_of(ret)
            run_pairs(idx + 1, env2, pc2)
        ex.run_fn(fn, [Ref('$f%d' % a), Ref('$f%d' % b)], env, pc, k)
    env = {'$state': {}, '$f0': files[0], '$f1': files[1], '$f2': files[2]}
    ex.solver.push(); ex.solver.add(*w.pre)
    run_pairs(0, env, list(w.pre))
    ex.solver.pop()
    ex.paths = max(ex.paths, 1)
    res.absorb(ex)
    res.wall_s = time.time() - t0
    if res.violations: res.status = 'violation'
    return res


def _ord(a, b): return -1 if a < b else (0 if a == b else 1)


def o10_3_confirm(v, out):
    if out.get('_rc') != 0: return (False, 'native run failed')
    fs = []
    for f in v['replay'][1:]:
        p = f.split(':'); fs.append(((int(p[2], 16), -int(p[3])), int(p[0])))
    exp = [_ord(fs[a], fs[b]) for a, b in ((0, 1), (1, 2), (0, 2))]
    got = [int(x) for x in out['cmp'].split(',')]
    return (got != exp, 'native %s reference %s' % (got, exp))


def o10_3_witness_ok(w, out):
    if out.get('_rc') != 0: return False
    got = [int(x) & 0xff for x in out['cmp'].split(',')]
    return got == [x & 0xff for x in w['executor_result']]


# ---------------------------------------------------------------- O7.2 Version::get_overlapping_compaction_inputs
def mk_version(mir, levels):
    """levels: {level: [file structs]} -> Version struct value (only `files` is modelled)."""
    files = [list(levels.get(l, [])) for l in range(7)]
    return mir.mk_struct('Version', files=files, db_options={'abstract': True, '__ty': 'DbOptions'}, table_cache='table_cache')


def o7_2_overlapping_inputs(mir, tier):
    fn = mir.method('Version', 'get_overlapping_compaction_inputs')
    N = 4 if tier == 'thorough' else 3
    res = Result('O7.2 Version::get_overlapping_compaction_inputs', [fn.path], 'levels 0 and 1, 0..%d files per level, every combination of open/closed range ends' % N)
    t0 = time.time()
    fidx = mir.field('Version', 'files')
    for level in (0, 1):
        for n in range(0, N + 1):
            for has_b, has_e in itertools.product((False, True), repeat=2):
                w = World(mir)
                files = [w.file('f%d' % i, number=i + 1) for i in range(n)]
                F = [w.F(f) for f in files]
                bk, ek = w.key('b'), w.key('e'); B, E = w.K(bk), w.K(ek)
                pre = list(w.pre) + [kle(f['sm'], f['lg']) for f in F]
                if level > 0: pre += sorted_disjoint(F)
                if has_b and has_e: pre.append(ULE(B[0], E[0]))
                ex = Exec(mir, base_summaries(mir), loop_bound=(n + 1) * (n + 1) + 3 if level == 0 else n + 3)
                def k(ret, env, pc, F=F, n=n, ex=ex, B=B, E=E, has_b=has_b, has_e=has_e, level=level):
                    got = []
                    for r in ret:
                        if not (isinstance(r, Ref) and r.local == '$v' and r.path[:2] == (fidx, level)): raise Inconclusive('unexpected result element %r' % (r,))
                        got.append(r.path[2])
                    inres = [i in got for i in range(n)]
                    # expanded range: the query range widened by the user ranges of the returned files (bounded ends only)
                    def before(i, lo): return ULT(F[i]['lg'][0], lo)
                    def after(i, hi): return ULT(hi, F[i]['sm'][0])
                    posts = []
                    if level > 0:
                        for i in range(n):
                            ov = And(Not(before(i, B[0])) if has_b else BoolVal(True), Not(after(i, E[0])) if has_e else BoolVal(True))
                            posts.append(('level>=1: result is not exactly the files overlapping the range', ov == BoolVal(inres[i])))
                        posts.append(('result order differs from level order', BoolVal(got == sorted(got))))
                    else:
                        lo, hi = B[0], E[0]
                        for i in got:
                            lo = If(ULT(F[i]['sm'][0], lo), F[i]['sm'][0], lo); hi = If(UGT(F[i]['lg'][0], hi), F[i]['lg'][0], hi)
                        for i in range(n):
                            ov0 = And(Not(before(i, B[0])) if has_b else BoolVal(True), Not(after(i, E[0])) if has_e else BoolVal(True))
                            ovx = And(Not(before(i, lo)) if has_b else BoolVal(True), Not(after(i, hi)) if has_e else BoolVal(True))
                            if not inres[i]:
                                posts.append(('level 0: a file overlapping the query range is missing', Not(ov0)))
                                posts.append(('level 0: result not closed under user-range overlap', Not(ovx)))
                            else:
                                posts.append(('level 0: a file outside the expanded range is returned', ovx))
                        posts.append(('result contains a file twice', BoolVal(len(set(got)) == len(got))))
                    def argv(m):
                        return ['overlapping_inputs', str(level), ('%s:%d' % (key_bytes(mval(m, B[0])), mval(m, B[1]))) if has_b else 'none',
                                ('%s:%d' % (key_bytes(mval(m, E[0])), mval(m, E[1]))) if has_e else 'none'] + _files_argv(m, F)
                    bad = False
                    for label, post in posts:
                        ex.record_formula(label, pc, Not(post))
                        m = ex.model(Not(post))
                        if m is not None:
                            bad = True
                            res.violations.append({'label': label, 'level': level, 'n': n, 'executor_result': [g + 1 for g in got], 'replay': argv(m)})
                    if not bad and n >= 2 and len(res.witnesses) < 4 and has_b and has_e and len(got) >= 1:
                        m = ex.model()
                        res.witnesses.append({'executor_result': [g + 1 for g in got], 'replay': argv(m)})
                ver = mk_version(mir, {level: files})
                env = {'$state': {}, '$v': ver, '$b': bk, '$e': ek}
                rng = {0: Enum('Some', (Ref('$b'),)) if has_b else Enum('None'), 1: Enum('Some', (Ref('$e'),)) if has_e else Enum('None'), '__ty': 'Range'}
                ex.top(fn, [Ref('$v'), bv(level), rng], env, pre, k)
                for bpc, where in ex.bound_hits:      # the bound is a termination argument: <= n expansions, each followed by <= n steps
                    ex.solver.push(); ex.solver.add(*bpc); ok = ex.solver.check(); m = ex.solver.model() if str(ok) == 'sat' else None; ex.solver.pop()
                    if m is not None:
                        res.violations.append({'label': 'level-0 restart loop exceeds (n+1)^2 iterations (non-termination)', 'level': level, 'n': n, 'expect_hang': True,
                                               'replay': ['overlapping_inputs', str(level), ('%s:%d' % (key_bytes(mval(m, B[0])), mval(m, B[1]))) if has_b else 'none',
                                                          ('%s:%d' % (key_bytes(mval(m, E[0])), mval(m, E[1]))) if has_e else 'none'] + _files_argv(m, F)})
                ex.bound_hits = []
                res.absorb(ex)
                for pc, msg, where in ex.panics:
                    res.panic_paths += 1
                    res.violations.append({'label': 'panic path: ' + msg[:80], 'level': level, 'n': n, 'replay': None})
    res.wall_s = time.time() - t0
    if res.violations: res.status = 'violation'
    return res


def _ref_overlapping(level, b, e, files):
    """Reference: level>=1 plain filter; level 0: least fixpoint of range expansion (bounded ends only)."""
    def ov(f, lo, hi): return not (lo is not None and f[3] < lo) and not (hi is not None and hi < f[2])
    lo, hi = b, e
    while True:
        sel = [f for f in files if ov(f, lo, hi)]
        if level > 0: return [f[0] for f in sel]
        nlo = min([lo] + [f[2] for f in sel]) if lo is not None else None
        nhi = max([hi] + [f[3] for f in sel]) if hi is not None else None
        if (nlo, nhi) == (lo, hi): return [f[0] for f in sel]
        lo, hi = nlo, nhi


def _parse_ov(argv):
    level = int(argv[1]); b = None if argv[2] == 'none' else int(argv[2].split(':')[0], 16); e = None if argv[3] == 'none' else int(argv[3].split(':')[0], 16)
    files = []
    for f in argv[4:]:
        p = f.split(':'); files.append((int(p[0]), int(p[1]), int(p[2], 16), int(p[4], 16)))
    return level, b, e, files


def o7_2_confirm(v, out):
    if v.get('expect_hang'): return (bool(out.get('_timeout')), 'native call did not return within the watchdog time' if out.get('_timeout') else 'native call returned')
    if out.get('_rc') != 0: return (False, 'native run failed: %s' % out.get('_stderr', '')[-200:])
    level, b, e, files = _parse_ov(v['replay'])
    got = [int(x) for x in out['files'].split(',') if x]
    exp = _ref_overlapping(level, b, e, files)
    return (sorted(got) != sorted(exp) or (level > 0 and got != exp), 'native %s, reference (least fixpoint) %s' % (got, exp))


def o7_2_witness_ok(w, out):
    if out.get('_rc') != 0: return False
    return [int(x) for x in out['files'].split(',') if x] == w['executor_result']


# ---------------------------------------------------------------- O7.3 add_boundary_inputs
def o7_3_boundary_inputs(mir, tier):
    """After add_boundary_inputs no file of the level outside the chosen set starts with the chosen set's largest user key
    at a larger internal key (a user key would be split between the compacted and the remaining files)."""
    fn = mir.method('CompactionManifest', 'add_boundary_inputs')
    N = 4 if tier == 'thorough' else 3
    res = Result('O7.3 CompactionManifest::add_boundary_inputs', [fn.path, 'find_largest_key', 'find_smallest_boundary_file'],
                 'level of 1..%d files (sorted, disjoint in internal-key order; user keys may touch), every non-empty and empty chosen subset' % N)
    t0 = time.time()
    for n in range(1, N + 1):
        for mask in range(0, 1 << n):
            chosen = [i for i in range(n) if mask >> i & 1]
            w = World(mir)
            files = [w.file('f%d' % i, number=i + 1) for i in range(n)]
            F = [w.F(f) for f in files]
            pre = list(w.pre) + sorted_disjoint(F)
            ex = Exec(mir, base_summaries(mir), loop_bound=n + 3)
            def k(ret, env, pc, F=F, n=n, ex=ex, chosen=chosen):
                out = env['$comp']
                got = []
                for f in out:
                    num = f[mir.field('FileMetadata', 'file_number')]
                    got.append(simplify(num).as_long() - 1)
                posts = [('chosen files were removed or reordered', BoolVal(got[:len(chosen)] == chosen)),
                         ('a file was added twice', BoolVal(len(set(got)) == len(got)))]
                if got:
                    # largest key of the result set
                    for j in range(n):
                        if j in got: continue
                        split = Or(*[And(F[i]['lg'][0] == F[j]['sm'][0], klt(F[i]['lg'], F[j]['sm']),
                                         And(*[kle(F[x]['lg'], F[i]['lg']) for x in got])) for i in got])
                        posts.append(('a user key is split: a remaining file starts with the largest user key of the compaction inputs', Not(split)))
                        if chosen == list(range(chosen[0], chosen[-1] + 1)):
                            # callers pass a contiguous run of the level (the files overlapping a range): then no remaining file may continue the last
                            # user key of ANY input, not only of the largest one
                            split_any = Or(*[And(F[i]['lg'][0] == F[j]['sm'][0], klt(F[i]['lg'], F[j]['sm'])) for i in got])
                            posts.append(('a user key is split: a remaining file continues the last user key of an input file (older versions stay in the younger level)', Not(split_any)))
                    for j in got[len(chosen):]:
                        # every added file is justified: it starts with the user key some earlier input ends with
                        idx = got.index(j)
                        just = Or(*[And(F[i]['lg'][0] == F[j]['sm'][0], klt(F[i]['lg'], F[j]['sm'])) for i in got[:idx]]) if idx else BoolVal(False)
                        posts.append(('a file that is not a boundary file was added', just))
                else:
                    posts.append(('files were added to an empty input set', BoolVal(True)))
                def argv(m): return ['add_boundary_inputs', ','.join(map(str, chosen)) or '-'] + _files_argv(m, F)
                bad = False
                for label, post in posts:
                    ex.record_formula(label, pc, Not(post))
                    m = ex.model(Not(post))
                    if m is not None:
                        bad = True; res.violations.append({'label': label, 'n': n, 'chosen': chosen, 'executor_result': [g + 1 for g in got], 'replay': argv(m)})
                if not bad and len(got) > len(chosen) and len(res.witnesses) < 4:
                    res.witnesses.append({'executor_result': [g + 1 for g in got], 'replay': argv(ex.model())})
            env = {'$state': {}, '$level': files, '$comp': [files[i] for i in chosen]}
            ex.top(fn, [Ref('$level'), Ref('$comp')], env, pre, k)
            res.absorb(ex)
            for pc, msg, where in ex.panics:
                res.panic_paths += 1; res.violations.append({'label': 'panic path: ' + msg[:80], 'n': n, 'replay': None})
    res.wall_s = time.time() - t0
    if res.violations: res.status = 'violation'
    return res


def _pf(tok):
    p = tok.split(':'); return {'num': int(p[0]), 'size': int(p[1]), 'sm': (int(p[2], 16), int(p[3])), 'lg': (int(p[4], 16), int(p[5]))}


def _ref_boundary(files, chosen):
    got = list(chosen)
    if not got: return got
    while True:
        lg = max((files[i]['lg'] for i in got), key=_kcmp_key)
        cands = [j for j in range(len(files)) if _kcmp_key(files[j]['sm']) > _kcmp_key(lg) and files[j]['sm'][0] == lg[0]]
        if not cands: return got
        j = min(cands, key=lambda j: _kcmp_key(files[j]['sm']))
        if j in got: return got
        got.append(j)


def o7_3_confirm(v, out):
    if out.get('_rc') != 0: return (False, 'native run failed: %s' % out.get('_stderr', '')[-200:])
    chosen = [int(x) for x in v['replay'][1].split(',')] if v['replay'][1] != '-' else []
    files = [_pf(t) for t in v['replay'][2:]]
    exp = [files[i]['num'] for i in _ref_boundary(files, chosen)]
    got = [int(x) for x in out['files'].split(',') if x]
    return (got != exp, 'native %s, reference %s' % (got, exp))


def o7_3_witness_ok(w, out):
    return out.get('_rc') == 0 and [int(x) for x in out['files'].split(',') if x] == w['executor_result']


# ---------------------------------------------------------------- O7.4a some_file_overlaps_range
def _levels_argv(m, lv):
    out = []
    for l in sorted(lv):
        out.append('@%d' % l); out += _files_argv(m, lv[l])
    return out


def o7_4a_some_file_overlaps(mir, tier):
    fn = mir.method('Version', 'some_file_overlaps_range')
    N = 4 if tier == 'thorough' else 3
    res = Result('O7.4a Version::some_file_overlaps_range', [fn.path, 'find_file_with_upper_bound_range (inlined)'],
                 '0..%d files, disjoint-sorted and unsorted mode, every combination of open/closed range ends' % N)
    t0 = time.time()
    for disjoint in (False, True):
        for n in range(0, N + 1):
            for has_s, has_l in itertools.product((False, True), repeat=2):
                w = World(mir)
                files = [w.file('f%d' % i, number=i + 1) for i in range(n)]
                F = [w.F(f) for f in files]
                s_u, l_u = BitVec('qs', 16), BitVec('ql', 16)
                pre = list(w.pre) + [kle(f['sm'], f['lg']) for f in F]
                if disjoint: pre += sorted_disjoint(F)
                if has_s and has_l: pre.append(ULE(s_u, l_u))
                ex = Exec(mir, base_summaries(mir), loop_bound=n + 3)
                def k(ret, env, pc, F=F, ex=ex, has_s=has_s, has_l=has_l, disjoint=disjoint, n=n):
                    ref = Or(*[And(Not(ULT(f['lg'][0], s_u)) if has_s else BoolVal(True), Not(ULT(l_u, f['sm'][0])) if has_l else BoolVal(True)) for f in F]) if F else BoolVal(False)
                    label = 'result differs from "some file has a user range intersecting the query range"'
                    post = ret == ref
                    def argv(m): return ['some_file_overlaps', '1' if disjoint else '0', key_bytes(mval(m, s_u)) if has_s else 'none', key_bytes(mval(m, l_u)) if has_l else 'none'] + _files_argv(m, F)
                    ex.record_formula(label, pc, Not(post))
                    m = ex.model(Not(post))
                    if m is not None:
                        res.violations.append({'label': label + (' (disjoint mode)' if disjoint else ' (level-0 mode)'), 'n': n, 'executor_result': mval(m, ret), 'replay': argv(m)})
                    elif len(res.witnesses) < 4 and n >= 2 and has_s and has_l:
                        m = ex.model(); res.witnesses.append({'executor_result': mval(m, ret), 'replay': argv(m)})
                env = {'$state': {}, '$files': files, '$s': s_u, '$l': l_u}
                ex.top(fn, [BoolVal(disjoint), Ref('$files'), Enum('Some', (Ref('$s'),)) if has_s else Enum('None'), Enum('Some', (Ref('$l'),)) if has_l else Enum('None')], env, pre, k)
                res.absorb(ex)
                for pc, msg, where in ex.panics:
                    res.panic_paths += 1; res.violations.append({'label': 'panic path: ' + msg[:80], 'n': n, 'replay': None})
    res.wall_s = time.time() - t0
    if res.violations: res.status = 'violation'
    return res


def o7_4a_confirm(v, out):
    if out.get('_rc') != 0: return (False, 'native run failed: %s' % out.get('_stderr', '')[-200:])
    a = v['replay']; s = None if a[2] == 'none' else int(a[2], 16); l = None if a[3] == 'none' else int(a[3], 16)
    files = [_pf(t) for t in a[4:]]
    exp = any(not (s is not None and f['lg'][0] < s) and not (l is not None and l < f['sm'][0]) for f in files)
    got = out['overlaps'] == 'true'
    return (got != exp, 'native %s, reference %s' % (got, exp))


def o7_4a_witness_ok(w, out):
    return out.get('_rc') == 0 and (out['overlaps'] == 'true') == bool(w['executor_result'])


# ---------------------------------------------------------------- O7.4b is_base_level_for_key
def mk_compaction_manifest(mir, level, version, inputs0=(), inputs1=()):
    node = mir.mk_struct('Node', element=version)
    return mir.mk_struct('CompactionManifest', level=bv(level), maybe_input_version=Enum('Some', (node,)),
                         base_level_pointers=[bv(0)] * 7, input_files=[list(inputs0), list(inputs1)], overlapping_grandparents=[],
                         grandparent_index=bv(0), current_overlapping_bytes=bv(0), is_overlappping=BoolVal(False),
                         max_output_file_size_bytes=BitVec('max_out', 64), change_manifest={'abstract': True, '__ty': 'VersionChangeManifest'})


def o7_4b_base_level(mir, tier):
    fn = mir.method('CompactionManifest', 'is_base_level_for_key')
    shapes = [(2, 0), (0, 2), (2, 1), (1, 2)] if tier == 'quick' else [(a, b) for a in range(0, 4) for b in range(0, 3)]
    res = Result('O7.4b CompactionManifest::is_base_level_for_key', [fn.path],
                 'compaction level 0 with files at levels 2 and 3 in shapes %s, and compaction levels 0 / 3 with files at levels 5 and 6 (sorted, disjoint); two successive calls with ascending keys' % (shapes,))
    t0 = time.time()
    # (compaction level, the two levels that hold files): the deepest level must be looked at as well
    placements = [(0, 2, 3), (0, 5, 6), (3, 5, 6)] if tier == 'quick' else [(0, 2, 3), (0, 5, 6), (3, 5, 6), (4, 6, 6), (1, 3, 6)]
    for (clevel, la, lb), (n2, n3) in [(p, s) for p in placements for s in (shapes if p == (0, 2, 3) else [(1, 1), (0, 2)])]:
        w = World(mir)
        lv = {la: [w.file('a%d' % i, number=20 + i) for i in range(n2)]}
        if lb != la: lv[lb] = [w.file('b%d' % i, number=30 + i) for i in range(n3)]
        LF = {l: [w.F(f) for f in fs] for l, fs in lv.items()}
        k1, k2 = w.key('k1'), w.key('k2'); K1, K2 = w.K(k1), w.K(k2)
        pre = list(w.pre) + sum((sorted_disjoint(LF[l]) for l in LF), []) + [kle(K1, K2)]
        ex = Exec(mir, base_summaries(mir), loop_bound=n2 + n3 + 9)
        def contains(K): return Or(*[And(ULE(f['sm'][0], K[0]), ULE(K[0], f['lg'][0])) for l in LF for f in LF[l]]) if any(LF[l] for l in LF) else BoolVal(False)
        def argv(m): return ['base_level', str(clevel), '%s:%d,%s:%d' % (key_bytes(mval(m, K1[0])), mval(m, K1[1]), key_bytes(mval(m, K2[0])), mval(m, K2[1]))] + _levels_argv(m, LF)
        def after1(r1, env, pc):
            def after2(r2, env2, pc2):
                bad = False
                for label, post in (('first call: result differs from "no file in levels >= L+2 contains the user key"', r1 == Not(contains(K1))),
                                    ('second call (ascending key): result differs from "no file in levels >= L+2 contains the user key"', r2 == Not(contains(K2)))):
                    ex.record_formula(label, pc2, Not(post))
                    m = ex.model(Not(post))
                    if m is not None:
                        bad = True; res.violations.append({'label': label, 'shape': [n2, n3], 'executor_result': [mval(m, r1), mval(m, r2)], 'replay': argv(m)})
                if not bad and len(res.witnesses) < 4:
                    m = ex.model(); res.witnesses.append({'executor_result': [mval(m, r1), mval(m, r2)], 'replay': argv(m)})
            ex.run_fn(fn, [Ref('$cm'), Ref('$k2')], env, pc, after2)
        env = {'$state': {}, '$cm': mk_compaction_manifest(mir, clevel, mk_version(mir, lv)), '$k1': k1, '$k2': k2}
        ex.top(fn, [Ref('$cm'), Ref('$k1')], env, pre, after1)
        res.absorb(ex)
        for pc, msg, where in ex.panics:
            res.panic_paths += 1; res.violations.append({'label': 'panic path: ' + msg[:80], 'shape': [n2, n3], 'replay': None})
    res.wall_s = time.time() - t0
    if res.violations: res.status = 'violation'
    return res


def _parse_levels(toks):
    lv, cur = {}, None
    for t in toks:
        if t.startswith('@'): cur = int(t[1:]); lv[cur] = []
        else: lv[cur].append(_pf(t))
    return lv


def o7_4b_confirm(v, out):
    if out.get('_rc') != 0: return (False, 'native run failed: %s' % out.get('_stderr', '')[-200:])
    a = v['replay']; keys = [int(k.split(':')[0], 16) for k in a[2].split(',')]
    lv = _parse_levels(a[3:])
    exp = [not any(f['sm'][0] <= k <= f['lg'][0] for l in lv for f in lv[l]) for k in keys]
    got = [x == '1' for x in out['base'].split(',')]
    return (got != exp, 'native %s, reference %s' % (got, exp))


def o7_4b_witness_ok(w, out):
    return out.get('_rc') == 0 and [x == '1' for x in out['base'].split(',')] == [bool(x) for x in w['executor_result']]


# ---------------------------------------------------------------- O7.4c pick_level_for_memtable_output
def o7_4c_pick_level(mir, tier):
    fn = mir.method('Version', 'pick_level_for_memtable_output')
    shapes = [(1, 1, 1, 1), (2, 0, 1, 0), (0, 2, 0, 1), (0, 0, 2, 2), (3, 0, 0, 0), (3, 1, 0, 0)] if tier == 'quick' else [s for s in itertools.product(range(0, 3), repeat=4) if sum(s) <= 5] + [(3, 0, 0, 0), (3, 1, 0, 0), (3, 1, 1, 0), (4, 0, 0, 0)]
    res = Result('O7.4c Version::pick_level_for_memtable_output', [fn.path, 'has_overlap_in_level', 'some_file_overlaps_range', 'get_overlapping_compaction_inputs', 'sum_file_sizes'],
                 'files at levels 0..3 in shapes %s; free flush range; max_file_size <= 2^40, file sizes <= 2^40' % (shapes if tier == 'quick' else '%d shapes with <= 5 files' % len(shapes),))
    t0 = time.time()
    S = base_summaries(mir)
    mfs = BitVec('max_file_size', 64)
    S['$patterns'][r'DbOptions::max_file_size'] = lambda se, env, pc, o: lib.one(env, mfs)
    for shape in shapes:
        w = World(mir)
        lv = {l: [w.file('L%d_%d' % (l, i), number=10 * l + i + 1) for i in range(shape[l])] for l in range(4)}
        LF = {l: [w.F(f) for f in fs] for l, fs in lv.items()}
        s_u, l_u = BitVec('qs', 16), BitVec('ql', 16)
        pre = list(w.pre) + [ULE(s_u, l_u), ULE(mfs, bv(1 << 40))]
        for l in range(4):
            pre += [kle(f['sm'], f['lg']) for f in LF[l]] + [ULE(f['size'], bv(1 << 40)) for f in LF[l]]
            if l > 0: pre += sorted_disjoint(LF[l])
        ex = Exec(mir, S, loop_bound=sum(shape) + 6)
        def ov(l): return Or(*[And(ULE(f['sm'][0], l_u), ULE(s_u, f['lg'][0])) for f in LF[l]]) if LF[l] else BoolVal(False)
        def k(ret, env, pc, ex=ex, shape=shape, LF=LF):
            posts = [('returned level exceeds MAX_MEM_COMPACT_LEVEL', ULE(ret, bv(2)))]
            for l in range(0, 3):
                posts.append(('the flushed table is placed at or below a level holding an overlapping file (level %d)' % l,
                              Or(Not(UGT(ret, bv(l))) if l else ret == bv(0), Not(ov(l))) if l == 0 else Or(ULT(ret, bv(l)), Not(ov(l)))))
            def argv(m): return ['pick_level', str(mval(m, mfs)), key_bytes(mval(m, s_u)), key_bytes(mval(m, l_u))] + _levels_argv(m, LF)
            bad = False
            for label, post in posts:
                ex.record_formula(label, pc, Not(post))
                m = ex.model(Not(post))
                if m is not None:
                    bad = True; res.violations.append({'label': label, 'shape': list(shape), 'executor_result': mval(m, ret), 'replay': argv(m)})
            if not bad and len(res.witnesses) < 4:
                m = ex.model(); res.witnesses.append({'executor_result': mval(m, ret), 'replay': argv(m)})
        env = {'$state': {}, '$v': mk_version(mir, lv), '$s': s_u, '$l': l_u}
        ex.top(fn, [Ref('$v'), Ref('$s'), Ref('$l')], env, pre, k)
        res.absorb(ex)
        for pc, msg, where in ex.panics:
            res.panic_paths += 1; res.violations.append({'label': 'panic path: ' + msg[:80], 'shape': list(shape), 'replay': None})
    res.wall_s = time.time() - t0
    if res.violations: res.status = 'violation'
    return res


def o7_4c_confirm(v, out):
    if out.get('_rc') != 0: return (False, 'native run failed: %s' % out.get('_stderr', '')[-200:])
    a = v['replay']; s, l = int(a[2], 16), int(a[3], 16); lv = _parse_levels(a[4:])
    got = int(out['level'])
    def ov(L): return any(f['sm'][0] <= l and s <= f['lg'][0] for f in lv.get(L, []))
    bad = got > 2 or (got > 0 and ov(0)) or any(ov(L) for L in range(1, got + 1))
    return (bad, 'native level %d; overlap per level %s' % (got, [ov(L) for L in range(4)]))


def o7_4c_witness_ok(w, out):
    return out.get('_rc') == 0 and int(out['level']) == w['executor_result']


# ---------------------------------------------------------------- O1.4 Version::get_overlapping_files
def o1_4_overlapping_files(mir, tier):
    fn = mir.method('Version', 'get_overlapping_files')
    shapes = [(3, 0, 0), (2, 2, 0), (1, 2, 2), (0, 3, 1)] if tier == 'quick' else [s for s in itertools.product(range(0, 4), repeat=3) if 0 < sum(s) <= 6]
    # deep levels: counts for levels 0..6 (the 3-tuples above are padded with empty levels)
    shapes = [tuple(s) + (0, 0, 0, 0) for s in shapes] + [(1, 0, 0, 1, 0, 0, 2), (0, 0, 0, 0, 0, 1, 1)] + ([(1, 1, 1, 1, 1, 1, 1)] if tier != 'quick' else [])
    res = Result('O1.4 Version::get_overlapping_files', [fn.path, 'find_file_with_upper_bound_range (inlined)'],
                 'files per level 0..6 in shapes %s; level-0 file numbers symbolic and distinct; free lookup key' % (shapes if tier == 'quick' else '%d shapes' % len(shapes),))
    t0 = time.time()
    for shape in shapes:
        w = World(mir)
        lv = {0: [w.file('z%d' % i) for i in range(shape[0])]}
        for l in range(1, 7): lv[l] = [w.file('L%d_%d' % (l, i), number=100 * l + i) for i in range(shape[l])]
        LF = {l: [w.F(f) for f in fs] for l, fs in lv.items()}
        tk = w.key('t'); T = w.K(tk)
        pre = list(w.pre) + [kle(f['sm'], f['lg']) for f in LF[0]]
        for l in range(1, 7): pre += sorted_disjoint(LF[l])
        pre += [ULT(f['num'], bv(100)) for f in LF[0]] + [LF[0][i]['num'] != LF[0][j]['num'] for i in range(shape[0]) for j in range(i)]
        ex = Exec(mir, base_summaries(mir), loop_bound=sum(shape) + 10)
        numf = mir.field('FileMetadata', 'file_number')
        def k(ret, env, pc, ex=ex, LF=LF, shape=shape):
            posts = []
            got0 = [f[numf] for f in ret[0]]
            ins = [any(g.eq(f['num']) for g in got0) for f in LF[0]]
            for i, f in enumerate(LF[0]):
                cont = And(ULE(f['sm'][0], T[0]), ULE(T[0], f['lg'][0]))
                posts.append(('level 0: result is not exactly the files whose user range contains the key', cont == BoolVal(ins[i])))
            posts.append(('level 0: files are not ordered newest (highest number) first', And(*[UGT(a, b) for a, b in zip(got0, got0[1:])]) if len(got0) > 1 else BoolVal(True)))
            posts.append(('level 0: a file is returned twice', BoolVal(len(got0) == sum(ins))))
            for l in range(1, 7):
                g = [f[numf] for f in ret[l]]
                n = len(LF[l])
                # reference: first file with largest >= target, kept iff its smallest user key <= target user key
                cases = [BoolVal(len(g) == 0)] if n == 0 else []
                for i in range(n):
                    first = And(*[klt(LF[l][j]['lg'], T) for j in range(i)], kle(T, LF[l][i]['lg']))
                    keep = ULE(LF[l][i]['sm'][0], T[0])
                    cases.append(And(first, keep, BoolVal(len(g) == 1 and g[0].eq(LF[l][i]['num']))))
                    cases.append(And(first, Not(keep), BoolVal(len(g) == 0)))
                if n: cases.append(And(*[klt(f['lg'], T) for f in LF[l]], BoolVal(len(g) == 0)))
                posts.append(('level %d: result is not the unique candidate file (first file with largest key >= lookup key, if it starts at or before the user key)' % l, Or(*cases)))
            def argv(m): return ['overlapping_files', '%s:%d' % (key_bytes(mval(m, T[0])), mval(m, T[1]))] + _levels_argv(m, LF)
            def render(m): return [[mval(m, x) for x in (f[numf] for f in ret[l])] for l in range(7)]
            bad = False
            for label, post in posts:
                ex.record_formula(label, pc, Not(post))
                m = ex.model(Not(post))
                if m is not None:
                    bad = True; res.violations.append({'label': label, 'shape': list(shape), 'executor_result': render(m), 'replay': argv(m)})
            if not bad and len(res.witnesses) < 4 and sum(len(ret[l]) for l in range(7)) >= 2:
                m = ex.model(); res.witnesses.append({'executor_result': render(m), 'replay': argv(m)})
        env = {'$state': {}, '$v': mk_version(mir, lv), '$t': tk}
        ex.top(fn, [Ref('$v'), Ref('$t')], env, pre, k)
        res.absorb(ex)
        for pc, msg, where in ex.panics:
            res.panic_paths += 1; res.violations.append({'label': 'panic path: ' + msg[:80], 'shape': list(shape), 'replay': None})
    res.wall_s = time.time() - t0
    if res.violations: res.status = 'violation'
    return res


def _ref_overlapping_files(T, lv):
    out = {}
    out[0] = [f['num'] for f in sorted([f for f in lv.get(0, []) if f['sm'][0] <= T[0] <= f['lg'][0]], key=lambda f: -f['num'])]
    for l in (1, 2, 3, 4, 5, 6):
        out[l] = []
        for f in lv.get(l, []):
            if not (_kcmp_key(f['lg']) < _kcmp_key(T)):
                if f['sm'][0] <= T[0]: out[l] = [f['num']]
                break
    return out


def o1_4_confirm(v, out):
    if out.get('_rc') != 0: return (False, 'native run failed: %s' % out.get('_stderr', '')[-200:])
    a = v['replay']; t = a[1].split(':'); T = (int(t[0], 16), int(t[1])); lv = _parse_levels(a[2:])
    exp = _ref_overlapping_files(T, lv)
    got = {l: [int(x) for x in out.get('l%d' % l, '').split(',') if x] for l in range(7)}
    return (any(got[l] != exp[l] for l in range(7)), 'native %s, reference %s' % ([got[l] for l in range(7)], [exp[l] for l in range(7)]))


def o1_4_witness_ok(w, out):
    return out.get('_rc') == 0 and [[int(x) for x in out.get('l%d' % l, '').split(',') if x] for l in range(7)] == w['executor_result']


# ---------------------------------------------------------------- O7.7 VersionSet::pick_compaction
def o7_7_pick_compaction(mir, tier):
    """Which level-L files a size- or seek-triggered compaction starts from: for level 0 every level-0 file overlapping the picked
    one (transitively) is included, whatever triggered the compaction; for deeper levels exactly the first file after the
    compaction pointer (or the first file of the level)."""
    fn = mir.method('VersionSet', 'pick_compaction')
    res = Result('O7.7 VersionSet::pick_compaction initial inputs', [fn.path, 'get_key_range_for_files, get_overlapping_compaction_inputs (inlined)'],
                 'level 0 with 2 files and level 1 with 2 files (free ranges); size trigger at level 0 or 1, or seek trigger on any of the four files; compaction pointer absent or free; finalize_compaction_inputs by contract (records the inputs)')
    t0 = time.time()
    w = World(mir)
    lv = {0: [w.file('z%d' % i, number=10 + i) for i in range(2)], 1: [w.file('a%d' % i, number=20 + i) for i in range(2)]}
    LF = {l: [w.F(f) for f in fs] for l, fs in lv.items()}
    pre = list(w.pre) + [kle(f['sm'], f['lg']) for f in LF[0]] + sorted_disjoint(LF[1]) + [ULT(f['size'], bv(1 << 40)) for l in LF for f in LF[l]]
    numf = mir.field('FileMetadata', 'file_number')
    ptr = w.key('ptr'); PTR = w.K(ptr)
    triggers = [('size', 0, None), ('size', 1, None), ('seek', 0, 0), ('seek', 0, 1), ('seek', 1, 0), ('seek', 1, 1)]
    for trig, level, fidx in triggers:
        for has_ptr in ((False, True) if trig == 'size' and level == 1 else (False,)):
            S = base_summaries(mir); P = S['$patterns']
            node = mir.mk_struct('Node', element=mk_version(mir, lv))
            P[r'VersionSet::get_current_version'] = lambda se, env, pc, vs: lib.one(env, Ref('$node'))
            P[r'VersionSet::release_version'] = lib.unit
            P[r'Version::requires_size_compaction'] = lambda se, env, pc, v, trig=trig: lib.one(env, BoolVal(trig == 'size'))
            P[r'Version::requires_seek_compaction'] = lambda se, env, pc, v, trig=trig: lib.one(env, BoolVal(trig == 'seek'))
            P[r'Version::get_size_compaction_metadata'] = lambda se, env, pc, v, level=level: lib.one(env, Enum('Some', (Ref('$sizemeta'),)))
            P[r'Version::get_seek_compaction_metadata'] = lambda se, env, pc, v: lib.one(env, Ref('$seekmeta'))
            P[r'DbOptions::max_file_size'] = lambda se, env, pc, o: lib.one(env, BitVec('max_file_size', 64))
            P[r'<VersionChangeManifest as Default>::default'] = lambda se, env, pc: lib.one(env, {'abstract': True, '__ty': 'VersionChangeManifest'})
            P[r'<\[Vec<.*>; 2\] as Default>::default'] = lambda se, env, pc: lib.one(env, [[], []])
            P[r'<\[usize; 7\] as Default>::default'] = lambda se, env, pc: lib.one(env, [bv(0)] * 7)
            P[r'Vec::append'] = lambda se, env, pc, a, b: (se.store(env, a, lib.the_list(se, env, a) + lib.the_list(se, env, b)), se.store(env, b, []), lib.one(env, ()))[2]
            cmf = mir.struct_fields('CompactionManifest')
            def finalize(se, env, pc, cm):
                st = dict(env['$state']); c = se.deref(env, cm)
                st['inputs'] = [f[numf] for f in c[cmf.index('input_files')][0]]; st['level'] = c[cmf.index('level')]
                return [(None, Opaque('next key'), st)]
            P[r'CompactionManifest::finalize_compaction_inputs'] = finalize
            ex = Exec(mir, S, loop_bound=12)
            def k(ret, env, pc, trig=trig, level=level, fidx=fidx, has_ptr=has_ptr, ex=ex):
                st = env['$state']
                if not (isinstance(ret, Enum) and ret.tag == 'Some') or 'inputs' not in st:
                    res.violations.append({'label': 'no compaction is picked although one is required', 'replay': None, 'confirmed_by': {'reproduced': False, 'detail': ''}}); return
                got = [simplify(x).as_long() for x in st['inputs']]
                posts = [('the picked compaction is for another level than the trigger names', st['level'] == bv(level))]
                if level == 0:
                    start = fidx if trig == 'seek' else None
                    ins = [10 + i in got for i in range(2)]
                    if start is not None: posts.append(('the file that triggered the compaction is not among its inputs', BoolVal(ins[start])))
                    posts.append(('a level-0 compaction has no input', BoolVal(any(ins))))
                    a, b = LF[0]
                    overlap = And(ULE(a['sm'][0], b['lg'][0]), ULE(b['sm'][0], a['lg'][0]))
                    posts.append(('a level-0 file overlapping the inputs of a level-0 compaction is left out (an older version of a key would stay above the compacted one)',
                                  Or(Not(overlap), BoolVal(all(ins) or not any(ins)))))
                else:
                    posts.append(('a compaction of a level >= 1 does not start from exactly one file', BoolVal(len(got) == 1)))
                    if trig == 'seek' and got: posts.append(('the file that triggered the compaction is not its input', BoolVal(got == [20 + fidx])))
                    if trig == 'size' and got:
                        f0, f1 = LF[1]
                        if has_ptr: exp = If(klt(PTR, f0['lg']), bv(20), If(klt(PTR, f1['lg']), bv(21), bv(20)))
                        else: exp = bv(20)
                        posts.append(('a size compaction does not start at the first file after the compaction pointer', bv(got[0]) == exp))
                res.cases['%s L%d file=%s ptr=%s -> %s' % (trig, level, fidx, has_ptr, got)] = 1
                def argv(m):
                    return ['pick_compaction', trig, str(level), str(fidx if fidx is not None else 0), ('%s:%d' % (key_bytes(mval(m, PTR[0])), mval(m, PTR[1]))) if has_ptr else 'none'] + _levels_argv(m, LF)
                # for the native replay prefer layouts in which level 1 does not overlap the level-0 files (otherwise the later input
                # expansion over level 1 pulls the missing level-0 file back in and masks the effect)
                hint = [Or(ULT(g['lg'][0], f['sm'][0]), UGT(g['sm'][0], f['lg'][0])) for g in LF[1] for f in LF[0]]
                for label, post in posts:
                    ex.record_formula(label, pc, Not(post))
                    m = ex.model(Not(post))
                    if m is not None:
                        m = ex.model(Not(post), *hint) or m
                        res.violations.append({'label': label, 'trigger': [trig, level, fidx], 'executor_result': got, 'replay': argv(m)})
            ptrs = [Enum('None')] * 7
            if has_ptr: ptrs = [Enum('None'), Enum('Some', (ptr,))] + [Enum('None')] * 5
            vs = mir.mk_struct('VersionSet', options={'abstract': True, '__ty': 'DbOptions'}, compaction_pointers=ptrs)
            env = {'$state': {}, '$vs': vs, '$node': node,
                   '$sizemeta': mir.mk_struct('SizeCompactionMetadata', compaction_level=bv(level), compaction_score=Opaque('score')),
                   '$seekmeta': mir.mk_struct('SeekCompactionMetadata', file_to_compact=Enum('Some', (lv[level][fidx if fidx is not None else 0],)), level_of_file_to_compact=bv(level))}
            ex.top(fn, [Ref('$vs')], env, pre, k)
            res.absorb(ex)
            for pc, msg, where in ex.panics:
                res.panic_paths += 1; res.violations.append({'label': 'panic path: ' + msg[:80], 'trigger': [trig, level, fidx], 'replay': None})
    res.wall_s = time.time() - t0
    if res.violations: res.status = 'violation'
    return res


def o7_7_confirm(v, out):
    if out.get('_rc') != 0: return (False, 'native run failed: %s' % out.get('_stderr', '')[-300:])
    a = v['replay']; trig, level, fidx = a[1], int(a[2]), int(a[3]); lv = _parse_levels(a[5:])
    got = sorted(int(x) for x in out.get('inputs0', '').split(',') if x)
    if level == 0:
        files = lv.get(0, [])
        start = files[fidx]['num'] if trig == 'seek' else (got[0] if got else None)
        sel = {start} if start is not None else set()
        changed = True
        while changed:
            changed = False
            for f in files:
                if f['num'] in sel: continue
                if any(not (f['lg'][0] < g['sm'][0] or g['lg'][0] < f['sm'][0]) for g in files if g['num'] in sel): sel.add(f['num']); changed = True
        return (not sel <= set(got), 'native level-0 inputs %s, overlap closure of the starting file %s' % (got, sorted(sel)))
    return (len(got) < 1, 'native inputs %s' % got)
