"""Obligations on file selection (versioning/*): O7.1, O1.3, O7.2, O1.4, O7.4, O10.3."""
import itertools, time
from z3 import BitVec, BitVecVal, Bool, BoolVal, And, Or, Not, ULT, ULE, UGT, UGE, If, simplify
from ..exec import Exec, Enum, Ref, Opaque, Inconclusive, bv
from ..ob import World, Result, klt, kle, keq, mval, key_bytes
from .. import lib


def base_summaries(mir):
    S = lib.std_summaries()
    S['$patterns'].update(lib.ref_partial_ord(mir, 'InternalKey'))
    S['$patterns'][r'<InternalKey as Clone>::clone'] = lib.clone_deep
    return S


def same_key(a, b): return And(a[0] == b[0], a[1] == b[1], a[2] == b[2])


def files_arg(w, files):
    """Render model values of files for the native replay binary: num:size:smU:smS:lgU:lgS,..."""
    return files


def o7_1_key_range(mir, tier):
    """get_key_range_for_files returns the hull (smallest of the smallest keys .. largest of the largest keys)."""
    fn = mir.method('FileMetadata', 'get_key_range_for_files')
    N = 4 if tier == 'thorough' else 3
    res = Result('O7.1 get_key_range_for_files', [fn.path, 'InternalKey::cmp/partial_cmp (inlined)'], 'files 1..%d, abstract 16-bit user keys, free 64-bit sequence numbers' % N)
    t0 = time.time()
    for n in range(1, N + 1):
        w = World(mir)
        files = [w.file('f%d' % i, number=i + 1) for i in range(n)]
        F = [w.F(f) for f in files]
        pre = list(w.pre) + [kle(f['sm'], f['lg']) for f in F]
        ex = Exec(mir, base_summaries(mir), loop_bound=n + 2)
        seen = {'start_bad': False, 'end_bad': False}
        def k(ret, env, pc, F=F, n=n, ex=ex):
            start, end = w.K(ret[0]), w.K(ret[1])
            post_s = And(*[kle(start, f['sm']) for f in F], Or(*[same_key(start, f['sm']) for f in F]))
            post_e = And(*[kle(f['lg'], end) for f in F], Or(*[same_key(end, f['lg']) for f in F]))
            for label, post in (('range.start is not the smallest key of the files', post_s), ('range.end is not the largest key of the files', post_e)):
                ex.record_formula('%s n=%d' % (label, n), pc, Not(post))
                m = ex.model(Not(post))
                if m is not None:
                    vals = [[mval(m, x) for x in (f['sm'][0], f['sm'][1], f['lg'][0], f['lg'][1])] for f in F]
                    res.violations.append({'label': label, 'n': n, 'files': vals,
                                           'replay': ['key_range'] + ['%s:%d:%s:%d' % (key_bytes(v[0]), v[1], key_bytes(v[2]), v[3]) for v in vals]})
            if len(res.witnesses) < 3:
                m = ex.model()
                if m is not None:
                    vals = [[mval(m, x) for x in (f['sm'][0], f['sm'][1], f['lg'][0], f['lg'][1])] for f in F]
                    res.witnesses.append({'files': vals, 'executor_result': [mval(m, x) for x in (start[0], start[1], end[0], end[1])],
                                          'replay': ['key_range'] + ['%s:%d:%s:%d' % (key_bytes(v[0]), v[1], key_bytes(v[2]), v[3]) for v in vals]})
        env = {'$state': {}, '$files': files}
        ex.top(fn, [Ref('$files')], env, pre, k)
        res.absorb(ex)
        res.panic_paths += len([p for p in ex.panics])
        for pc, msg, where in ex.panics:
            res.violations.append({'label': 'panic path: ' + msg[:80], 'n': n, 'replay': None})
    res.wall_s = time.time() - t0
    if res.violations: res.status = 'violation'
    return res


# ---- native confirmation helpers
def _parse_files(argv):
    out = []
    for f in argv:
        p = f.split(':'); out.append(((int(p[0], 16), int(p[1])), (int(p[2], 16), int(p[3]))))
    return out


def _kcmp_key(k): return (k[0], -k[1])


def _native_key(s):
    u, q = s.split(':'); return (int(u, 16) if u != '-' else 0, int(q))


def o7_1_confirm(v, out):
    if out.get('_rc') != 0: return (False, 'native run failed: %s' % out.get('_stderr', '')[-200:])
    files = _parse_files(v['replay'][1:])
    exp_s = min((f[0] for f in files), key=_kcmp_key); exp_e = max((f[1] for f in files), key=_kcmp_key)
    got_s, got_e = _native_key(out['start']), _native_key(out['end'])
    bad = (got_s != exp_s) or (got_e != exp_e)
    return (bad, 'native range %s..%s, hull %s..%s' % (got_s, got_e, exp_s, exp_e))


def o7_1_witness_ok(w, out):
    if out.get('_rc') != 0: return False
    r = w['executor_result']
    return _native_key(out['start']) == (r[0], r[1]) and _native_key(out['end']) == (r[2], r[3])


# ---------------------------------------------------------------- O1.3 find_file_with_upper_bound_range
def sorted_disjoint(F):
    """INV of a level >= 1: each file smallest <= largest, consecutive files strictly ordered (internal key order)."""
    c = [kle(f['sm'], f['lg']) for f in F]
    c += [klt(F[i]['lg'], F[i + 1]['sm']) for i in range(len(F) - 1)]
    return c


def _files_argv(m, F):
    return ['%d:%d:%s:%d:%s:%d' % (mval(m, f['num']), mval(m, f['size']), key_bytes(mval(m, f['sm'][0])), mval(m, f['sm'][1]),
                                     key_bytes(mval(m, f['lg'][0])), mval(m, f['lg'][1])) for f in F]


def o1_3_find_file(mir, tier):
    fn = mir.fn_by_suffix('utils::find_file_with_upper_bound_range')
    N = 5 if tier == 'thorough' else 4
    res = Result('O1.3 find_file_with_upper_bound_range', [fn.path, 'InternalKey::cmp (inlined)'], 'sorted disjoint levels of 0..%d files, free target key' % N)
    t0 = time.time()
    for n in range(0, N + 1):
        w = World(mir)
        files = [w.file('f%d' % i, number=i + 1) for i in range(n)]
        F = [w.F(f) for f in files]
        tk = w.key('t'); T = w.K(tk)
        pre = list(w.pre) + sorted_disjoint(F)
        ex = Exec(mir, base_summaries(mir), loop_bound=n + 3)
        def k(ret, env, pc, F=F, n=n, ex=ex, T=T):
            # reference: first index whose largest key is >= target
            cases = []
            for i in range(n):
                cases.append((And(*[klt(F[j]['lg'], T) for j in range(i)], kle(T, F[i]['lg'])), i))
            none_c = And(*[klt(f['lg'], T) for f in F]) if F else BoolVal(True)
            if isinstance(ret, Enum) and ret.tag == 'None': post = none_c
            elif isinstance(ret, Enum) and ret.tag == 'Some': post = Or(*[And(c, ret.fields[0] == bv(i)) for c, i in cases]) if cases else BoolVal(False)
            else: raise Inconclusive('unexpected return %r' % (ret,))
            label = 'result is not the first file whose largest key is >= target'
            ex.record_formula('%s n=%d' % (label, n), pc, Not(post))
            m = ex.model(Not(post))
            got = (lambda mm: None if ret.tag == 'None' else mval(mm, ret.fields[0]))
            if m is not None:
                res.violations.append({'label': label, 'n': n, 'executor_result': got(m),
                                       'replay': ['find_file', '%s:%d' % (key_bytes(mval(m, T[0])), mval(m, T[1]))] + _files_argv(m, F)})
            elif len(res.witnesses) < 4 and n >= 2:
                m = ex.model()
                res.witnesses.append({'executor_result': got(m), 'replay': ['find_file', '%s:%d' % (key_bytes(mval(m, T[0])), mval(m, T[1]))] + _files_argv(m, F)})
        env = {'$state': {}, '$files': files, '$t': tk}
        ex.top(fn, [Ref('$files'), Ref('$t')], env, pre, k)
        res.absorb(ex)
        for pc, msg, where in ex.panics:
            res.panic_paths += 1
            res.violations.append({'label': 'panic path: ' + msg[:80], 'n': n, 'replay': None})
    res.wall_s = time.time() - t0
    if res.violations: res.status = 'violation'
    return res


def _ref_find_file(argv):
    t = argv[0].split(':'); T = (int(t[0], 16), int(t[1]))
    for i, f in enumerate(argv[1:]):
        p = f.split(':'); lg = (int(p[4], 16), int(p[5]))
        if not (_kcmp_key(lg) < _kcmp_key(T)): return i
    return None


def o1_3_confirm(v, out):
    if out.get('_rc') != 0: return (False, 'native run failed: %s' % out.get('_stderr', '')[-200:])
    exp = _ref_find_file(v['replay'][1:])
    got = None if out['index'] == 'none' else int(out['index'])
    return (got != exp, 'native index %s, reference %s' % (got, exp))


def o1_3_witness_ok(w, out):
    if out.get('_rc') != 0: return False
    got = None if out['index'] == 'none' else int(out['index'])
    return got == w['executor_result']


# ---------------------------------------------------------------- O10.3 FileMetadataBySmallestKey::compare is a total order
def o10_3_comparator(mir, tier):
    fn = mir.method('FileMetadataBySmallestKey', 'compare', 'Comparator')
    res = Result('O10.3 FileMetadataBySmallestKey::compare', [fn.path], 'three free files (free keys, sequences, numbers)')
    t0 = time.time()
    w = World(mir)
    files = [w.file('f%d' % i) for i in range(3)]
    F = [w.F(f) for f in files]
    ex = Exec(mir, base_summaries(mir), loop_bound=4)
    out = {}
    pairs = [(0, 1), (1, 0), (1, 2), (0, 2), (0, 0)]
    def run_pairs(idx, env, pc):
        if idx == len(pairs):
            L, E, G = (lambda o: o == BitVecVal(0xff, 8)), (lambda o: o == BitVecVal(0, 8)), (lambda o: o == BitVecVal(1, 8))
            o01, o10, o12, o02, o00 = [out[p] for p in pairs]
            def ref(a, b):
                lt = Or(klt(F[a]['sm'], F[b]['sm']), And(keq(F[a]['sm'], F[b]['sm']), ULT(F[a]['num'], F[b]['num'])))
                eq = And(keq(F[a]['sm'], F[b]['sm']), F[a]['num'] == F[b]['num'])
                return lt, eq
            checks = [('compare(a,a) is not Equal', E(o00)),
                      ('compare is not antisymmetric', And(L(o01) == G(o10), E(o01) == E(o10))),
                      ('compare is not transitive', Or(Not(And(L(o01), L(o12))), L(o02))),
                      ('compare does not order by smallest key then file number', And(L(o01) == ref(0, 1)[0], E(o01) == ref(0, 1)[1]))]
            for label, post in checks:
                ex.record_formula(label, pc, Not(post))
                m = ex.model(Not(post))
                if m is not None:
                    res.violations.append({'label': label, 'replay': ['fm_compare'] + _files_argv(m, F)})
            if len(res.witnesses) < 2:
                m = ex.model()
                res.witnesses.append({'executor_result': [mval(m, out[p]) for p in [(0, 1), (1, 2), (0, 2)]], 'replay': ['fm_compare'] + _files_argv(m, F)})
            return
        a, b = pairs[idx]
        def k(ret, env2, pc2):
            out[pairs[idx]] = ret if not isinstance(ret, Enum) else ex.discr_of(ret)
            run_pairs(idx + 1, env2, pc2)
        ex.run_fn(fn, [Ref('$f%d' % a), Ref('$f%d' % b)], env, pc, k)
    env = {'$state': {}, '$f0': files[0], '$f1': files[1], '$f2': files[2]}
    ex.solver.push(); ex.solver.add(*w.pre)
    run_pairs(0, env, list(w.pre))
    ex.solver.pop()
    ex.paths = max(ex.paths, 1)
    res.absorb(ex)
    res.wall_s = time.time() - t0
    if res.violations: res.status = 'violation'
    return res


def _ord(a, b): return -1 if a < b else (0 if a == b else 1)


def o10_3_confirm(v, out):
    if out.get('_rc') != 0: return (False, 'native run failed')
    fs = []
    for f in v['replay'][1:]:
        p = f.split(':'); fs.append(((int(p[2], 16), -int(p[3])), int(p[0])))
    exp = [_ord(fs[a], fs[b]) for a, b in ((0, 1), (1, 2), (0, 2))]
    got = [int(x) for x in out['cmp'].split(',')]
    return (got != exp, 'native %s reference %s' % (got, exp))


def o10_3_witness_ok(w, out):
    if out.get('_rc') != 0: return False
    got = [int(x) & 0xff for x in out['cmp'].split(',')]
    return got == [x & 0xff for x in w['executor_result']]


# ---------------------------------------------------------------- O7.2 Version::get_overlapping_compaction_inputs
def mk_version(mir, levels):
    """levels: {level: [file structs]} -> Version struct value (only `files` is modelled)."""
    files = [list(levels.get(l, [])) for l in range(7)]
    return mir.mk_struct('Version', files=files, db_options={'abstract': True, '__ty': 'DbOptions'}, table_cache='table_cache')


def o7_2_overlapping_inputs(mir, tier):
    fn = mir.method('Version', 'get_overlapping_compaction_inputs')
    N = 4 if tier == 'thorough' else 3
    res = Result('O7.2 Version::get_overlapping_compaction_inputs', [fn.path], 'levels 0 and 1, 0..%d files per level, every combination of open/closed range ends' % N)
    t0 = time.time()
    fidx = mir.field('Version', 'files')
    for level in (0, 1):
        for n in range(0, N + 1):
            for has_b, has_e in itertools.product((False, True), repeat=2):
                w = World(mir)
                files = [w.file('f%d' % i, number=i + 1) for i in range(n)]
                F = [w.F(f) for f in files]
                bk, ek = w.key('b'), w.key('e'); B, E = w.K(bk), w.K(ek)
                pre = list(w.pre) + [kle(f['sm'], f['lg']) for f in F]
                if level > 0: pre += sorted_disjoint(F)
                if has_b and has_e: pre.append(ULE(B[0], E[0]))
                ex = Exec(mir, base_summaries(mir), loop_bound=(n + 1) * (n + 1) + 3 if level == 0 else n + 3)
                def k(ret, env, pc, F=F, n=n, ex=ex, B=B, E=E, has_b=has_b, has_e=has_e, level=level):
                    got = []
                    for r in ret:
                        if not (isinstance(r, Ref) and r.local == '$v' and r.path[:2] == (fidx, level)): raise Inconclusive('unexpected result element %r' % (r,))
                        got.append(r.path[2])
                    inres = [i in got for i in range(n)]
                    # expanded range: the query range widened by the user ranges of the returned files (bounded ends only)
                    def before(i, lo): return ULT(F[i]['lg'][0], lo)
                    def after(i, hi): return ULT(hi, F[i]['sm'][0])
                    posts = []
                    if level > 0:
                        for i in range(n):
                            ov = And(Not(before(i, B[0])) if has_b else BoolVal(True), Not(after(i, E[0])) if has_e else BoolVal(True))
                            posts.append(('level>=1: result is not exactly the files overlapping the range', ov == BoolVal(inres[i])))
                        posts.append(('result order differs from level order', BoolVal(got == sorted(got))))
                    else:
                        lo, hi = B[0], E[0]
                        for i in got:
                            lo = If(ULT(F[i]['sm'][0], lo), F[i]['sm'][0], lo); hi = If(UGT(F[i]['lg'][0], hi), F[i]['lg'][0], hi)
                        for i in range(n):
                            ov0 = And(Not(before(i, B[0])) if has_b else BoolVal(True), Not(after(i, E[0])) if has_e else BoolVal(True))
                            ovx = And(Not(before(i, lo)) if has_b else BoolVal(True), Not(after(i, hi)) if has_e else BoolVal(True))
                            if not inres[i]:
                                posts.append(('level 0: a file overlapping the query range is missing', Not(ov0)))
                                posts.append(('level 0: result not closed under user-range overlap', Not(ovx)))
                            else:
                                posts.append(('level 0: a file outside the expanded range is returned', ovx))
                        posts.append(('result contains a file twice', BoolVal(len(set(got)) == len(got))))
                    def argv(m):
                        return ['overlapping_inputs', str(level), ('%s:%d' % (key_bytes(mval(m, B[0])), mval(m, B[1]))) if has_b else 'none',
                                ('%s:%d' % (key_bytes(mval(m, E[0])), mval(m, E[1]))) if has_e else 'none'] + _files_argv(m, F)
                    bad = False
                    for label, post in posts:
                        ex.record_formula(label, pc, Not(post))
                        m = ex.model(Not(post))
                        if m is not None:
                            bad = True
                            res.violations.append({'label': label, 'level': level, 'n': n, 'executor_result': [g + 1 for g in got], 'replay': argv(m)})
                    if not bad and n >= 2 and len(res.witnesses) < 4 and has_b and has_e and len(got) >= 1:
                        m = ex.model()
                        res.witnesses.append({'executor_result': [g + 1 for g in got], 'replay': argv(m)})
                ver = mk_version(mir, {level: files})
                env = {'$state': {}, '$v': ver, '$b': bk, '$e': ek}
                rng = {0: Enum('Some', (Ref('$b'),)) if has_b else Enum('None'), 1: Enum('Some', (Ref('$e'),)) if has_e else Enum('None'), '__ty': 'Range'}
                ex.top(fn, [Ref('$v'), bv(level), rng], env, pre, k)
                for bpc, where in ex.bound_hits:      # the bound is a termination argument: <= n expansions, each followed by <= n steps
                    ex.solver.push(); ex.solver.add(*bpc); ok = ex.solver.check(); m = ex.solver.model() if str(ok) == 'sat' else None; ex.solver.pop()
                    if m is not None:
                        res.violations.append({'label': 'level-0 restart loop exceeds (n+1)^2 iterations (non-termination)', 'level': level, 'n': n, 'expect_hang': True,
                                               'replay': ['overlapping_inputs', str(level), ('%s:%d' % (key_bytes(mval(m, B[0])), mval(m, B[1]))) if has_b else 'none',
                                                          ('%s:%d' % (key_bytes(mval(m, E[0])), mval(m, E[1]))) if has_e else 'none'] + _files_argv(m, F)})
                ex.bound_hits = []
                res.absorb(ex)
                for pc, msg, where in ex.panics:
                    res.panic_paths += 1
                    res.violations.append({'label': 'panic path: ' + msg[:80], 'level': level, 'n': n, 'replay': None})
    res.wall_s = time.time() - t0
    if res.violations: res.status = 'violation'
    return res


def _ref_overlapping(level, b, e, files):
    """Reference: level>=1 plain filter; level 0: least fixpoint of range expansion (bounded ends only)."""
    def ov(f, lo, hi): return not (lo is not None and f[3] < lo) and not (hi is not None and hi < f[2])
    lo, hi = b, e
    while True:
        sel = [f for f in files if ov(f, lo, hi)]
        if level > 0: return [f[0] for f in sel]
        nlo = min([lo] + [f[2] for f in sel]) if lo is not None else None
        nhi = max([hi] + [f[3] for f in sel]) if hi is not None else None
        if (nlo, nhi) == (lo, hi): return [f[0] for f in sel]
        lo, hi = nlo, nhi


def _parse_ov(argv):
    level = int(argv[1]); b = None if argv[2] == 'none' else int(argv[2].split(':')[0], 16); e = None if argv[3] == 'none' else int(argv[3].split(':')[0], 16)
    files = []
    for f in argv[4:]:
        p = f.split(':'); files.append((int(p[0]), int(p[1]), int(p[2], 16), int(p[4], 16)))
    return level, b, e, files


def o7_2_confirm(v, out):
    if v.get('expect_hang'): return (bool(out.get('_timeout')), 'native call did not return within the watchdog time' if out.get('_timeout') else 'native call returned')
    if out.get('_rc') != 0: return (False, 'native run failed: %s' % out.get('_stderr', '')[-200:])
    level, b, e, files = _parse_ov(v['replay'])
    got = [int(x) for x in out['files'].split(',') if x]
    exp = _ref_overlapping(level, b, e, files)
    return (sorted(got) != sorted(exp) or (level > 0 and got != exp), 'native %s, reference (least fixpoint) %s' % (got, exp))


def o7_2_witness_ok(w, out):
    if out.get('_rc') != 0: return False
    return [int(x) for x in out['files'].split(',') if x] == w['executor_result']
