"""O12.5 LogWriter::new: a writer opened on an existing file continues at the block position where the file ends."""
import time
from z3 import BitVec, Bool, BoolVal, And, Or, Not, ULT, ULE, UGT, UGE, If, URem
from ..exec import Exec, Enum, Ref, Opaque, Inconclusive, bv
from ..ob import Result, mval
from .. import lib
from .logs import log_summaries, BLOCK, HDR, o12_1_confirm


def o12_5_writer_new(mir, tier):
    fn = mir.method('LogWriter', 'new')
    res = Result('O12.5 LogWriter::new block position', [fn.path],
                 'file size free (64 bit), append flag free, create_file / len succeed or fail (free); the file system is by contract (create_file(append=false) yields an empty file)')
    t0 = time.time()
    size, appending, create_ok, len_ok = BitVec('file_size', 64), Bool('is_appending'), Bool('create_ok'), Bool('len_ok')
    S = log_summaries(mir); P = S['$patterns']
    def create(se, env, pc, fs, path, app):
        st = dict(env['$state']); st['append_flag'] = app
        return [(create_ok, Enum('Ok', ({'abstract': True, '__ty': 'file'},)), st), (Not(create_ok), Enum('Err', ({'kind': 'Other', '__ty': 'io::Error'},)), st)]
    P[r'<dyn FileSystem as FileSystem>::create_file'] = create
    def flen(se, env, pc, f):
        st = env['$state']
        eff = If(st['append_flag'], size, bv(0)) if not isinstance(st['append_flag'], bool) else (size if st['append_flag'] else bv(0))
        return [(len_ok, Enum('Ok', (eff,)), st), (Not(len_ok), Enum('Err', ({'kind': 'Other', '__ty': 'io::Error'},)), st)]
    P[r'<(?:Box<)?dyn RandomAccessFile>? as RandomAccessFile>::len'] = flen
    P[r'<dyn RandomAccessFile as ReadonlyRandomAccessFile>::len'] = flen
    P[r'Path::to_string_lossy'] = lambda se, env, pc, p: lib.one(env, {'str': 'path'})
    P[r'Path::to_path_buf'] = lambda se, env, pc, p: lib.one(env, {'path': 'p'})
    P[r'<LogIOError as From<.*>>::from'] = lambda se, env, pc, e: lib.one(env, Enum('IO', (e,), 'LogIOError'))
    ex = Exec(mir, S, loop_bound=3, opaque_calls_ok=True)
    wf = mir.struct_fields('LogWriter')
    def k(ret, env, pc):
        ok = isinstance(ret, Enum) and ret.tag == 'Ok'
        posts = [('LogWriter::new fails although the file could be opened / succeeds although it could not', BoolVal(ok) == And(create_ok, len_ok))]
        if ok:
            w = ret.fields[0]; off = w[wf.index('current_block_offset')]
            if not hasattr(off, 'sort'): raise Inconclusive('block offset is not a bit-vector: %r (summaries used: %s)' % (off, sorted(ex.used_summaries)))
            posts.append(('the append flag given to the file system is not the one the caller passed', env['$state']['append_flag'] == appending if not isinstance(env['$state'].get('append_flag'), bool) else BoolVal(False)))
            posts.append(('a writer reopened on an existing log does not continue at the block position where the file ends', off == If(appending, URem(size, bv(BLOCK)), bv(0))))
        res.cases['Ok' if ok else 'Err'] = res.cases.get('Ok' if ok else 'Err', 0) + 1
        for label, post in posts:
            ex.record_formula(label, pc, Not(post))
            m = ex.model(Not(post))
            if m is not None:
                sz = mval(m, size)
                res.violations.append({'label': label, 'file_size': sz, 'is_appending': mval(m, appending),
                                       'replay': ['log_write', str(sz % BLOCK), '10'] if 'continue' in label else (['log_reopen_len_fault'] if ('fails although' in label and mval(m, create_ok) and not mval(m, len_ok)) else None),
                                       'confirmed_by': None if ('continue' in label or ('fails although' in label and mval(m, create_ok) and not mval(m, len_ok))) else {'reproduced': False, 'detail': 'no native scenario for this label'}})
        if ok and len(res.witnesses) < 2:
            m = ex.model(And(appending, ULT(size, bv(BLOCK)), UGT(URem(size, bv(BLOCK)), bv(BLOCK - HDR))))
            if m is not None:
                sz = mval(m, size); from .logs import ref_fragments
                tr, frs = ref_fragments(sz, 10)
                res.witnesses.append({'executor_result': ','.join('%d:%d' % (({'Full': 0, 'First': 1, 'Middle': 2, 'Last': 3}[t]), l) for t, l in frs), 'trailer': tr, 'replay': ['log_write', str(sz), '10']})
    env = {'$state': {'append_flag': None}}
    ex.top(fn, [{'abstract': True, '__ty': 'fs'}, {'path': 'p'}, appending], env, [], k)
    res.absorb(ex)
    for pc, msg, where in ex.panics:
        res.panic_paths += 1; res.violations.append({'label': 'panic path: ' + msg[:80], 'replay': None, 'confirmed_by': {'reproduced': False, 'detail': 'no native scenario'}})
    res.wall_s = time.time() - t0
    if res.violations: res.status = 'violation'
    return res


def o12_5_confirm(v, out):
    if v['replay'][0] == 'log_reopen_len_fault':
        if out.get('_rc') != 0: return (False, 'native run failed: %s' % out.get('_stderr', '')[-300:])
        return (out.get('writer_new') == 'Ok' and out.get('len_failed') == 'true', 'size query failed=%s, LogWriter::new returned %s' % (out.get('len_failed'), out.get('writer_new')))
    return o12_1_confirm(v, out)
