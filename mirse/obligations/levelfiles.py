"""O4.6 FilesEntryIterator (the concatenating iterator over the files of a level >= 1) = cursor over the concatenated tables."""
import itertools, time
from z3 import BitVec, BitVecVal, Bool, BoolVal, And, Or, Not, ULT, simplify
from ..exec import Exec, Enum, Ref, Opaque, Inconclusive, bv
from ..ob import Result, World, mval, klt, kle, keq, key_bytes
from .. import lib, absiter
from .version import base_summaries
from .iters import drive_cursor, QUICK_PATTERNS


def o4_6_files_entry_iterator(mir, tier):
    """A level of F files; file j holds n_j >= 1 entries; the file metadata bounds are the first and the last entry of the file
    (what a flush / compaction records, O10.6); all entries ascend across the files.  The table iterators obey the RainDbIterator
    contract (O4.3 establishes it for TwoLevelIterator); TableCache::find_table succeeds.  find_file_with_upper_bound_range is
    executed from its own MIR."""
    ops = {n: mir.method('FilesEntryIterator', n, 'RainDbIterator') for n in ('seek', 'seek_to_first', 'seek_to_last', 'next', 'prev', 'is_valid', 'current')}
    if tier == 'quick':
        shapes = [(1, 1), (2, 1), (1, 2), (1, 1, 1)]; patterns = QUICK_PATTERNS
    else:
        shapes = [(1,), (2,), (1, 1), (2, 1), (1, 2), (2, 2), (1, 1, 1), (2, 1, 1)]
        patterns = [list(p) for L in (3, 4) for p in itertools.product(['first', 'last', 'seek', 'next', 'prev'], repeat=L) if p[0] in ('first', 'last', 'seek')]
    res = Result('O4.6 FilesEntryIterator vs concatenated tables', [f.path for f in ops.values()] + ['set_table_iter, skip_empty_table_files_forward/backward, find_file_with_upper_bound_range (inlined)'],
                 'levels with files of %s entries (bounds = first / last entry); table cursors = RainDbIterator contract; %d cursor patterns of length <= 4 with a free seek target' % (shapes, len(patterns)))
    t0 = time.time()
    numf = mir.field('FileMetadata', 'file_number')
    for shape in shapes:
        w = World(mir)
        ents, files, per_file = [], [], []
        for fi, cnt in enumerate(shape):
            blk = []
            for j in range(cnt):
                i = len(ents); e = (w.key('e%d' % i), BitVec('v%d' % i, 8)); ents.append(e); blk.append(e)
            per_file.append(blk)
            files.append(mir.mk_struct('FileMetadata', allowed_seeks=Enum('None'), file_number=bv(10 + fi), file_size=BitVec('size%d' % fi, 64), smallest_key=Enum('Some', (blk[0][0],)), largest_key=Enum('Some', (blk[-1][0],))))
        KE = [w.K(e[0]) for e in ents]
        pre = list(w.pre) + [klt(KE[i], KE[i + 1]) for i in range(len(ents) - 1)]
        S = base_summaries(mir); P = S['$patterns']
        S.update(absiter.summaries(['<TwoLevelIterator as RainDbIterator>::'], w.K))
        def find(se, env, pc, tc, num):
            return lib.one(env, Enum('Ok', ({'table_of': simplify(num).as_long() - 10},)))
        P[r'TableCache::find_table'] = find
        P[r'(?:table::)?Table::iter_with'] = lambda se, env, pc, t, ro, per_file=per_file: lib.one(env, absiter.make(per_file[t['table_of']]))
        P[r'FileMetadata::file_number'] = lambda se, env, pc, f: lib.one(env, (se.deref(env, f) if isinstance(f, Ref) else f)[numf])
        P[r'<ReadOptions as Clone>::clone'] = lib.ident
        P[r'<Arc<TableCache> as Deref>::deref'] = lib.ident
        P[r'<Result<.*> as FromResidual<Result<Infallible, .*>>>::from_residual'] = lambda se, env, pc, r: lib.one(env, r)
        P[r'<RainDBError as From<.*>>::from'] = lambda se, env, pc, e: lib.one(env, Enum('TableRead', (e,), 'RainDBError'))
        for pat in patterns:
            tk = w.key('t'); T = w.K(tk)
            ex = Exec(mir, S, loop_bound=len(shape) + 6)
            it = mir.mk_struct('FilesEntryIterator', file_list=list(files), current_file_index=bv(0), current_table_iter=Enum('None'), table_cache={'abstract': True, '__ty': 'TableCache'}, read_options={'abstract': True, '__ty': 'ReadOptions'})
            env0 = {'$state': {}, '$t': tk, '$it': it}
            def argv(m, pat, T=T, KE=KE, ents=ents, shape=shape):
                return ['level_iter', ','.join(pat), '%s:%d' % (key_bytes(mval(m, T[0])), mval(m, T[1])), ','.join(str(c) for c in shape)] + \
                       ['%s:%d:%d:%02x' % (key_bytes(mval(m, ke[0])), mval(m, ke[1]), mval(m, ke[2]), mval(m, ents[i][1])) for i, ke in enumerate(KE)]
            drive_cursor(ex, ops, Ref('$it'), pat, [(KE[i], ents[i][1]) for i in range(len(ents))], T, env0, pre, res,
                         lambda opn: 'level iterator: after %s the cursor differs from the sorted entries of the files of the level (validity, key or value)' % opn, argv, w.K,
                         witness_ok=(lambda trace: len(res.witnesses) < 3 and len(trace) >= 3))
            res.absorb(ex)
            for pc, msg, where in ex.panics:
                res.panic_paths += 1; res.violations.append({'label': 'panic path: ' + msg[:80], 'shape': list(shape), 'pattern': pat, 'replay': None, 'confirmed_by': {'reproduced': False, 'detail': 'no native scenario'}})
    res.wall_s = time.time() - t0
    if res.violations: res.status = 'violation'
    return res


def o4_6_confirm(v, out):
    from .iters import _table_iter_ref
    if out.get('_rc') != 0: return (True, 'native iterator panicked: %s' % out.get('_stderr', '')[-300:])
    exp = _table_iter_ref(v['replay']); got = out.get('cursor', '').split(',')[:len(exp)]
    return (got != exp, 'native cursor %s, reference cursor %s' % (got, exp))


def o4_6_witness_ok(w, out):
    from .iters import _table_iter_ref
    if out.get('_rc') != 0: return False
    exp = _table_iter_ref(w['replay']); got = out.get('cursor', '').split(',')[:len(exp)]
    return got == exp
