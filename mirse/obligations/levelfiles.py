"""O4.6 FilesEntryIterator (the concatenating iterator over the files of a level >= 1) = cursor over the concatenated tables."""
import itertools, time
from z3 import BitVec, BitVecVal, Bool, BoolVal, And, Or, Not, ULT, simplify
from ..exec import Exec, Enum, Ref, Opaque, Inconclusive, bv
from ..ob import Result, World, mval, klt, kle, keq, key_bytes
from .. import lib, absiter
from .version import base_summaries
from .iters import drive_cursor, QUICK_PATTERNS


def o4_6_files_entry_iterator(mir, tier):
    """A level of F files; file j holds n_j >= 1 entries; the file metadata bounds are the first and the last entry of the file
    (what a flush / compaction records, O10.6); all entries ascend across the files.  The table iterators obey the RainDbIterator
    contract (O4.3 establishes it for TwoLevelIterator); TableCache::find_table succeeds.  find_file_with_upper_bound_range is
    executed from its own MIR."""
    ops = {n: mir.method('FilesEntryIterator', n, 'RainDbIterator') for n in ('seek', 'seek_to_first', 'seek_to_last', 'next', 'prev', 'is_valid', 'current')}
    if tier == 'quick':
        shapes = [(1, 1), (2, 1), (1, 2), (1, 1, 1)]; patterns = QUICK_PATTERNS
    else:
        shapes = [(1,), (2,), (1, 1), (2, 1), (1, 2), (2, 2), (1, 1, 1), (2, 1, 1)]
        patterns = [list(p) for L in (3, 4) for p in itertools.product(['first', 'last', 'seek', 'next', 'prev'], repeat=L) if p[0] in ('first', 'last', 'seek')]
    res = Result('O4.6 FilesEntryIterator vs concatenated tables', [f.path for f in ops.values()] + ['set_table_iter, skip_empty_table_files_forward/backward, find_file_with_upper_bound_range (inlined)'],
                 'levels with files of %s entries (bounds = first / last entry); table cursors = RainDbIterator contract; %d cursor patterns of length <= 4 with a free seek target' % (shapes, len(patterns)))
    t0 = time.time()
    numf = mir.field('FileMetadata', 'file_number')
    for shape in shapes:
        w = World(mir)
        ents, files, per_file = [], [], []
        for fi, cnt in enumerate(shape):
            blk = []
            for j in range(cnt):
                i = len(ents); e = (w.key('e%d' % i), BitVec('v%d' % i, 8)); ents.append(e); blk.append(e)
            per_file.append(blk)
            files.append(mir.mk_struct('FileMetadata', allowed_seeks=Enum('None'), file_number=bv(10 + fi), file_size=BitVec('size%d' % fi, 64), smallest_key=Enum('Some', (blk[0][0],)), largest_key=Enum('Some', (blk[-1][0],))))
        KE = [w.K(e[0]) for e in ents]
        pre = list(w.pre) + [klt(KE[i], KE[i + 1]) for i in range(len(ents) - 1)]
        S = base_summaries(mir); P = S['$patterns']
        S.update(absiter.summaries(['<TwoLevelIterator as RainDbIterator>::'], w.K))
        def find(se, env, pc, tc, num):
            return lib.one(env, Enum('Ok', ({'table_of': simplify(num).as_long() - 10},)))
        P[r'TableCache::find_table'] = find
        P[r'(?:table::)?Table::iter_with'] = lambda se, env, pc, t, ro, per_file=per_file: lib.one(env, absiter.make(per_file[t['table_of']]))
        P[r'FileMetadata::file_number'] = lambda se, env, pc, f: lib.one(env, (se.deref(env, f) if isinstance(f, Ref) else f)[numf])
        P[r'<ReadOptions as Clone>::clone'] = lib.ident
        P[r'<Arc<TableCache> as Deref>::deref'] = lib.ident
        P[r'<Result<.*> as FromResidual<Result<Infallible, .*>>>::from_residual'] = lambda se, env, pc, r: lib.one(env, r)
        P[r'<RainDBError as From<.*>>::from'] = lambda se, env, pc, e: lib.one(env, Enum('TableRead', (e,), 'RainDBError'))
        for pat in patterns:
            tk = w.key('t'); T = w.K(tk)
            ex = Exec(mir, S, loop_bound=len(shape) + 6)
            it = mir.mk_struct('FilesEntryIterator', file_list=list(files), current_file_index=bv(0), current_table_iter=Enum('None'), table_cache={'abstract': True, '__ty': 'TableCache'}, read_options={'abstract': True, '__ty': 'ReadOptions'})
            env0 = {'$state': {}, '$t': tk, '$it': it}
            def argv(m, pat, T=T, KE=KE, ents=ents, shape=shape):
                return ['level_iter', ','.join(pat), '%s:%d' % (key_bytes(mval(m, T[0])), mval(m, T[1])), ','.join(str(c) for c in shape)] + \
                       ['%s:%d:%d:%02x' % (key_bytes(mval(m, ke[0])), mval(m, ke[1]), mval(m, ke[2]), mval(m, ents[i][1])) for i, ke in enumerate(KE)]
            drive_cursor(ex, ops, Ref('$it'), pat, [(KE[i], ents[i][1]) for i in range(len(ents))], T, env0, pre, res,
                         lambda opn: 'level iterator: after %s the cursor differs from the sorted entries of the files of the level (validity, key or value)' % opn, argv, w.K,
                         witness_ok=(lambda trace: len(res.witnesses) < 3 and len(trace) >= 3))
            res.absorb(ex)
            for pc, msg, where in ex.panics:
                res.panic_paths += 1; res.violations.append({'label': 'panic path: ' + msg[:80], 'shape': list(shape), 'pattern': pat, 'replay': None, 'confirmed_by': {'reproduced': False, 'detail': 'no native scenario'}})
    res.wall_s = time.time() - t0
    if res.violations: res.status = 'violation'
    return res


def o4_6_confirm(v, out):
    from .iters import _table_iter_ref
    if out.get('_rc') != 0: return (True, 'native iterator panicked: %s' % out.get('_stderr', '')[-300:])
    exp = _table_iter_ref(v['replay']); got = out.get('cursor', '').split(',')[:len(exp)]
    return (got != exp, 'native cursor %s, reference cursor %s' % (got, exp))


def o4_6_witness_ok(w, out):
    from .iters import _table_iter_ref
    if out.get('_rc') != 0: return False
    exp = _table_iter_ref(w['replay']); got = out.get('cursor', '').split(',')[:len(exp)]
    return got == exp


def o15_11_level_iter_damaged(mir, tier):
    """A level of 2..3 files with one entry each; TableCache::find_table fails for one of them every time (a table whose footer /
    index cannot be read).  Three absolute positioning calls in a row: first | last | seek(T1), then seek(T2), then seek(T2)
    again (free targets).  Reference: a call fails iff the entry it has to land on lives in the damaged table; a call that
    returns Ok leaves the cursor exactly on the reference entry (or invalid past the end) - never on an entry of another table
    because the damaged one was skipped."""
    ops = {n: mir.method('FilesEntryIterator', n, 'RainDbIterator') for n in ('seek', 'seek_to_first', 'seek_to_last', 'is_valid', 'current', 'next', 'prev')}
    LABEL_SPIN = 'a step (next / prev) from the neighbouring table into a table that cannot be opened never returns (the scan - and a compaction reading that level - spins for ever)'
    LABEL_STEP = 'a step (next / prev) into a table that cannot be opened lands on an entry of another table (the damaged table is skipped silently)'
    shapes = [(2, 0), (2, 1), (3, 1)] if tier == 'quick' else [(2, 0), (2, 1), (3, 0), (3, 1), (3, 2)]
    res = Result('O15.11 FilesEntryIterator with an unreadable table', [f.path for f in ops.values()] + ['set_table_iter, skip_empty_table_files_forward/backward, find_file_with_upper_bound_range (inlined)'],
                 '(files, damaged file) in %s, one entry per file; call sequences (first | last | seek T1), seek T2, seek T2 with free targets; table cursors = RainDbIterator contract' % (shapes,))
    t0 = time.time()
    numf = mir.field('FileMetadata', 'file_number')
    for F, bad in shapes:
        for first_op in ('first', 'last', 'seek'):
            w = World(mir)
            ents = [(w.key('e%d' % i), BitVec('v%d' % i, 8)) for i in range(F)]
            files = [mir.mk_struct('FileMetadata', allowed_seeks=Enum('None'), file_number=bv(10 + i), file_size=BitVec('size%d' % i, 64), smallest_key=Enum('Some', (ents[i][0],)), largest_key=Enum('Some', (ents[i][0],))) for i in range(F)]
            KE = [w.K(e[0]) for e in ents]
            t1, t2 = w.key('t1'), w.key('t2'); T1, T2 = w.K(t1), w.K(t2)
            pre = list(w.pre) + [klt(KE[i], KE[i + 1]) for i in range(F - 1)]
            S = base_summaries(mir); P = S['$patterns']
            S.update(absiter.summaries(['<TwoLevelIterator as RainDbIterator>::'], w.K))
            def find(se, env, pc, tc, num, bad=bad):
                n = simplify(num).as_long() - 10
                st = dict(env['$state']); st['opens'] = st['opens'] + [n]
                if n == bad: return [(None, Enum('Err', (Enum('TableRead', ({'str': 'damaged footer'},), 'RainDBError'),)), st)]
                return [(None, Enum('Ok', ({'table_of': n},)), st)]
            P[r'TableCache::find_table'] = find
            P[r'(?:table::)?Table::iter_with'] = lambda se, env, pc, t, ro, ents=ents: lib.one(env, absiter.make([ents[t['table_of']]]))
            P[r'FileMetadata::file_number'] = lambda se, env, pc, f: lib.one(env, (se.deref(env, f) if isinstance(f, Ref) else f)[numf])
            P[r'<ReadOptions as Clone>::clone'] = lib.ident
            P[r'<Arc<TableCache> as Deref>::deref'] = lib.ident
            P[r'<RainDBError as From<.*>>::from'] = lambda se, env, pc, e: lib.one(env, e if isinstance(e, Enum) and e.ty == 'RainDBError' else Enum('TableRead', (e,), 'RainDBError'))
            ex = Exec(mir, S, loop_bound=F + 6)
            it = mir.mk_struct('FilesEntryIterator', file_list=list(files), current_file_index=bv(0), current_table_iter=Enum('None'), table_cache={'abstract': True, '__ty': 'TableCache'}, read_options={'abstract': True, '__ty': 'ReadOptions'})
            env0 = {'$state': {'opens': []}, '$t1': t1, '$t2': t2, '$it': it}
            steps = [(first_op, T1, '$t1'), ('seek2', T2, '$t2'), ('seek2', T2, '$t2')]
            def landing(op, T):
                # [(condition, index of the entry the call lands on or None)]
                if op == 'first': return [(BoolVal(True), 0)]
                if op == 'last': return [(BoolVal(True), F - 1)]
                return [(And(*[klt(KE[j], T) for j in range(sp)], *([Not(klt(KE[sp], T))] if sp < F else [])), sp if sp < F else None) for sp in range(F + 1)]
            def drive(i, env, pc, trace, ex=ex, steps=steps, bad=bad, F=F, first_op=first_op):
                if i == len(steps):
                    ex.paths += 1; return
                op, T, tref = steps[i]
                fn = ops['seek_to_first'] if op == 'first' else ops['seek_to_last'] if op == 'last' else ops['seek']
                def after(ret, e2, p2):
                    failed = isinstance(ret, Enum) and ret.tag == 'Err'
                    def got_valid(v, e3, p3):
                        def got_cur(cur, e4, p4):
                            obs = None
                            if isinstance(cur, Enum) and cur.tag == 'Some':
                                kv = cur.fields[0]; obs = (w.K(ex.deref(e4, kv[0])), ex.deref(e4, kv[1]))
                            for cond, li in landing(op, T):
                                def chk(cond=cond, li=li):
                                    pcx = p4 + [cond]
                                    if li == bad: ok = BoolVal(failed)
                                    elif failed: ok = BoolVal(False)
                                    elif li is None: ok = Not(v) if not isinstance(v, bool) else BoolVal(not v)
                                    elif obs is None: ok = BoolVal(False)
                                    else: ok = And(v, keq(obs[0], KE[li]), obs[1] == ents[li][1])
                                    label = 'a positioning call on a level with an unreadable table reports success although the entry it has to land on lives in that table (the table is skipped silently) or fails / lands elsewhere although it does not'
                                    for lab, post, m in ex.check_posts([(label, ok)], pcx):
                                        opsn = [first_op if first_op != 'seek' else 'seek', 'seek2', 'seek2'][:i + 1]
                                        res.violations.append({'label': lab, 'files': F, 'damaged': bad, 'step': i, 'replay': ['level_iter_damaged', ','.join(opsn), str(bad), '%s:%d' % (key_bytes(mval(m, T1[0])), mval(m, T1[1])), '%s:%d' % (key_bytes(mval(m, T2[0])), mval(m, T2[1])), ','.join(['1'] * F)] +
                                                               ['%s:%d:%d:%02x' % (key_bytes(mval(m, ke[0])), mval(m, ke[1]), mval(m, ke[2]), mval(m, ents[j][1])) for j, ke in enumerate(KE)]})
                                    res.cases['%d files, damaged %d, %s, step %d' % (F, bad, first_op, i)] = 1
                                    if i == 0 and not failed and li is not None and abs(li - bad) == 1:
                                        # one relative step from the neighbouring table into the damaged one: it has to return, and it must not produce an entry
                                        stepop = 'next' if li + 1 == bad else 'prev'
                                        def after_step(r, e5, p5):
                                            def v5(vv, e6, p6):
                                                okv = Not(vv) if not isinstance(vv, bool) else BoolVal(not vv)
                                                res.cases['%d files, damaged %d, %s then %s' % (F, bad, first_op, stepop)] = 1
                                                for lab, post, m in ex.check_posts([(LABEL_STEP, okv)], p6):
                                                    res.violations.append({'label': lab, 'files': F, 'damaged': bad, 'step': stepop, 'replay': ['scan_over_unopenable_table']})
                                            ex.run_fn(ops['is_valid'], [Ref('$it')], e5, p5, v5)
                                        nb = len(ex.bound_hits)
                                        ex.run_fn(ops[stepop], [Ref('$it')], dict(e4), pcx, after_step)
                                        if len(ex.bound_hits) > nb:
                                            del ex.bound_hits[nb:]
                                            ex.record_formula(LABEL_SPIN, pcx, BoolVal(True))
                                            res.violations.append({'label': LABEL_SPIN, 'files': F, 'damaged': bad, 'step': stepop, 'replay': ['scan_over_unopenable_table'], 'expect_hang': False})
                                    drive(i + 1, e4, pcx, trace + [li])
                                ex.under(cond, chk)
                        ex.run_fn(ops['current'], [Ref('$it')], e3, p3, got_cur)
                    ex.run_fn(ops['is_valid'], [Ref('$it')], e2, p2, got_valid)
                args = [Ref('$it')] + ([Ref(tref)] if op not in ('first', 'last') else [])
                ex.run_fn(fn, args, env, pc, after)
            ex.solver.push(); ex.solver.add(*pre)
            try: drive(0, env0, list(pre), [])
            finally: ex.solver.pop()
            res.absorb(ex)
            for pcx, msg, where in ex.panics:
                res.panic_paths += 1; res.violations.append({'label': 'panic path: ' + msg[:80], 'replay': None, 'confirmed_by': {'reproduced': False, 'detail': 'no native scenario'}})
    # one report per label is enough
    seen, out = set(), []
    for v in res.violations:
        key = (v['label'], v.get('files'), v.get('damaged'))
        if key not in seen: seen.add(key); out.append(v)
    res.violations = out
    res.wall_s = time.time() - t0
    if res.violations: res.status = 'violation'
    return res


def o15_11_confirm(v, out):
    """Native: real table files, the footer of the damaged one altered, the real FilesEntryIterator driven through the calls."""
    if v['replay'][0] == 'scan_over_unopenable_table':
        if out.get('_rc') != 0 and not out.get('_timeout'): return (False, 'native run failed: %s' % out.get('_stderr', '')[-300:])
        return (out.get('stuck', '1') != '0' or bool(out.get('_timeout')), 'native: two adjacent tables in one level, one of them cannot be opened after a reopen: %s' % out.get('scans'))
    if out.get('_rc') != 0: return (True, 'native level iterator panicked: %s' % out.get('_stderr', '')[-200:])
    return (out.get('steps') != out.get('expected') and out.get('steps') != 'build-failed', 'native steps %s, expected %s' % (out.get('steps'), out.get('expected')))
