"""O15.10 MergingIterator error bookkeeping: an error of ANY child reaches the caller of get_error (C15, C05, C07)."""
import time, itertools
from z3 import BitVec, Bool, BoolVal, And, Or, Not
from ..exec import Exec, Inconclusive, Ref, Enum
from ..ob import Result
from .. import lib, absiter
from .version import World, base_summaries, bv, mval
from .iters import DYN, DYN2, BOXDYN


def o15_10_merge_errors(mir, tier):
    """2..3 children (RainDbIterator contract; one entry each) whose positioning calls fail or not (one free Bool per child).  After
    seek_to_first / seek(free target) / seek_to_last the compaction loop asks get_error once.  Reference: get_error returns an error
    iff some child failed, namely the error of the first failing child; asked again it returns the next one; afterwards None."""
    ops = {n: mir.method('MergingIterator', n, 'RainDbIterator') for n in ('seek', 'seek_to_first', 'seek_to_last')}
    ge = mir.method('MergingIterator', 'get_error')
    res = Result('O15.10 MergingIterator::get_error reports the error of any child', [f.path for f in ops.values()] + [ge.path, 'MergingIterator::save_error, find_smallest / find_largest, CachingIterator::* (inlined)'],
                 '2 (thorough: 2..3) children with one entry each, every subset of failing children (free Bools), positioning by seek_to_first / seek / seek_to_last')
    t0 = time.time()
    for nchild in ((2,) if tier == 'quick' else (2, 3)):
        for opn in ('seek_to_first', 'seek', 'seek_to_last'):
            w = World(mir)
            keys = [w.key('c%d' % c) for c in range(nchild)]; vals = [BitVec('val%d' % c, 8) for c in range(nchild)]
            fails = [Bool('child%d_fails' % c) for c in range(nchild)]
            S = base_summaries(mir)
            A = absiter.summaries([DYN, DYN2], w.K)
            def failing(name, inner):
                def f(se, env, pc, r, *a):
                    c = se.deref(env, r); cid = c['child']
                    outs = []
                    for o in inner(se, dict(env), pc, r, *a):
                        cond = And(Not(fails[cid]), o[0]) if o[0] is not None else Not(fails[cid])
                        outs.append((cond,) + tuple(o[1:]))
                    outs.append((fails[cid], Enum('Err', (Enum('IO', ({'errid': cid},), 'RainDBError'),)), env.get('$state'), [(r, dict(c, pos=len(c['entries'])))]))
                    return outs
                return f
            for px in (DYN, DYN2):
                for name in ('seek', 'seek_to_first', 'seek_to_last'): A[px + name] = failing(name, A[px + name])
            S.update(A)
            S['$patterns'][BOXDYN] = lib.ptr_deref
            S['$patterns'][r'<Vec<u8> as Clone>::clone'] = lib.clone_deep
            S['$patterns'][r'<\(InternalKey, Vec<u8>\) as Clone>::clone'] = lib.clone_deep
            ex = Exec(mir, S, loop_bound=nchild * 2 + 6)
            tk = w.key('t')
            heap = {'$state': {}, '$t': tk}
            its = []
            for c in range(nchild):
                heap['$c%d' % c] = dict(absiter.make([(keys[c], vals[c])]), child=c)
                its.append(mir.mk_struct('CachingIterator', iterator=Ref('$c%d' % c), is_valid=BoolVal(False), cached_entry=Enum('None')))
            heap['$m'] = mir.mk_struct('MergingIterator', iterators=its, direction=Enum('Forward', (), 'IterationDirection'), current_iterator_index=Enum('None'),
                                       errors=[Enum('None')] * nchild, cleanup_callbacks=[])
            def errid(r):
                if isinstance(r, Enum) and r.tag == 'Some':
                    e = r.fields[0]
                    if isinstance(e, Enum) and e.fields and isinstance(e.fields[0], dict): return e.fields[0].get('errid')
                    return -1
                return None
            def positioned(ret, env, pc, ex=ex, nchild=nchild, opn=opn, fails=fails):
                def first(r1, env1, pc1):
                    def second(r2, env2, pc2):
                        def third(r3, env3, pc3):
                            got = [errid(r) for r in (r1, r2, r3)]
                            # expected on this path: the failing children in order
                            posts = []
                            for k, g in enumerate(got):
                                # the k-th answer is the k-th failing child (or None when fewer failed)
                                exp_none = And(*[Not(And(fails[c], BoolVal(True))) for c in range(nchild)]) if k == 0 else None
                                alts = []
                                for subset in itertools.product((False, True), repeat=nchild):
                                    failing_ids = [c for c in range(nchild) if subset[c]]
                                    want = failing_ids[k] if k < len(failing_ids) else None
                                    cond = And(*[fails[c] if subset[c] else Not(fails[c]) for c in range(nchild)])
                                    alts.append(And(cond, BoolVal(want == g)))
                                label = ('after %s a child iterator failed but get_error reports nothing / another child\'s error (a compaction would install a result that misses that child\'s entries)' % opn) if k == 0 else \
                                        'asked again, get_error does not hand out the remaining errors in child order'
                                posts.append((label, Or(*alts)))
                            res.cases['%d children, %s -> %s' % (nchild, opn, got)] = 1
                            for label, post, m in ex.check_posts(posts, pc3):
                                res.violations.append({'label': label, 'children': nchild, 'op': opn, 'failing': [bool(mval(m, f)) for f in fails], 'answers': got, 'replay': ['compact_unreadable_parent_input']})
                        ex.run_fn(ge, [Ref('$m')], env2, pc2, third)
                    ex.run_fn(ge, [Ref('$m')], env1, pc1, second)
                ex.run_fn(ge, [Ref('$m')], env, pc, first)
            args = [Ref('$m')] + ([Ref('$t')] if opn == 'seek' else [])
            ex.top(ops[opn], args, heap, list(w.pre), positioned)
            res.absorb(ex)
            for pcx, msg, where in ex.panics:
                res.panic_paths += 1; res.violations.append({'label': 'panic path: ' + msg[:80], 'replay': None, 'confirmed_by': {'reproduced': False, 'detail': 'no native scenario'}})
    res.wall_s = time.time() - t0
    if res.violations: res.status = 'violation'
    return res


def o15_10_confirm(v, out):
    """Native: tables at two levels, reopen (cold table cache), the open of the parent-level input fails once during compact_range;
    afterwards every acknowledged key must still be readable (or the compaction must have failed and kept its inputs)."""
    if out.get('_rc') != 0: return (False, 'native run failed: %s' % out.get('_stderr', '')[-300:])
    return (out.get('lost', '0') != '0', 'native: compact_range=%s, %s of %s acknowledged keys are gone afterwards (first: %s)' % (out.get('compact'), out.get('lost'), out.get('keys'), out.get('first_lost')))
