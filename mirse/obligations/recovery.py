"""Recovery obligations: O2.5a DB::recover_wal_records (what one WAL contributes), O2.5b DB::recover_unrecorded_logs (which WALs,
in which order, which one may be reused, which sequence number is restored)."""
import itertools, time
from z3 import BitVec, BitVecVal, Bool, BoolVal, And, Or, Not, Implies, ULT, ULE, UGT, UGE, If, simplify, is_bv
from ..exec import Exec, Enum, Ref, Opaque, Inconclusive, bv
from ..ob import Result, mval
from .. import lib, lib2, dbmodel

GUARD = r'<parking_lot::lock_api::MutexGuard<.*> as Deref(?:Mut)?>::deref(?:_mut)?'


def _add(env, ev):
    st = dict(env['$state']); st['events'] = st['events'] + [ev]; env['$state'] = st


def o2_5a_recover_wal_records(mir, tier):
    """One WAL with R records (each a batch with a free starting sequence s_i and length n_i >= 1): every batch is applied to the
    memtable in order; the reported last sequence is max_i (s_i + n_i - 1); the WAL is only reused if it is the last one, reuse is
    enabled and no flush happened; a memtable that is not reused is converted to a table."""
    fn = mir.method('DB', 'recover_wal_records')
    R_MAX = 2 if tier == 'quick' else 3
    res = Result('O2.5a DB::recover_wal_records', [fn.path],
                 'WAL of 0..%d records by contract (LogReader::read_record, Batch::try_from); starting sequences and batch lengths free; memtable-full, reuse option, is_last_wal free' % R_MAX)
    t0 = time.time()
    for R in range(0, R_MAX + 1):
        S = lib2.install(lib.std_summaries()); P = S['$patterns']
        P[GUARD] = lib.ptr_deref
        starts = [BitVec('start_seq%d' % i, 64) for i in range(R)]; lens = [BitVec('batch_len%d' % i, 64) for i in range(R)]
        reuse, is_last, empty_mt = Bool('reuse_log_files'), Bool('is_last_wal'), Bool('memtable_is_empty')
        pre = [ULT(s, bv(1 << 56)) for s in starts] + [And(UGE(n, bv(1)), ULT(n, bv(1 << 20))) for n in lens]
        P[r'LogReader::new'] = lambda se, env, pc, *a: lib.one(env, Enum('Ok', ({'abstract': True, '__ty': 'LogReader'},)))
        def read_record(se, env, pc, rd):
            st = dict(env['$state']); i = st['next']; st['next'] = i + 1
            if i < R: return [(None, Enum('Ok', (({'record': i, 'len': BitVec('rec_bytes%d' % i, 64)}, BoolVal(False)),)), st)]
            return [(None, Enum('Ok', (({'record': None, 'len': bv(0)}, BoolVal(True)),)), st)]
        P[r'LogReader::read_record'] = read_record
        P[r'Vec::as_slice'] = lib.ident
        P[r'<Batch as TryFrom<&\[u8\]>>::try_from'] = lambda se, env, pc, b: lib.one(env, Enum('Ok', ({'batch': (se.deref(env, b) if isinstance(b, Ref) else b)['record'], '__ty': 'Batch'},)))
        P[r'Batch::get_starting_seq_number'] = lambda se, env, pc, b: lib.one(env, Enum('Some', (starts[se.deref(env, b)['batch']],)))
        P[r'Batch::len'] = lambda se, env, pc, b: lib.one(env, lens[se.deref(env, b)['batch']])
        def apply(se, env, pc, mt, b):
            _add(env, ('apply', se.deref(env, b)['batch'])); return [(None, (), env['$state'])]
        P[r'DB::apply_batch_to_memtable'] = apply
        def usage(se, env, pc, mt):
            st = dict(env['$state']); st['n'] += 1; env['$state'] = st
            return lib.one(env, BitVec('memtable_usage%d' % st['n'], 64))
        P[r'<dyn MemTable as MemTable>::approximate_memory_usage'] = usage
        P[r'<dyn MemTable as MemTable>::is_empty'] = lambda se, env, pc, mt: lib.one(env, empty_mt)
        P[r'DbOptions::max_memtable_size'] = lambda se, env, pc, o: lib.one(env, BitVec('max_memtable_size', 64))
        P[r'DbOptions::reuse_log_files'] = lambda se, env, pc, o: lib.one(env, reuse)
        def conv(se, env, pc, *a):
            base = a[3] if len(a) > 3 else None
            _add(env, ('convert_memtable_to_file', isinstance(base, Enum) and base.tag == 'None')); return [(None, Enum('Ok', ((),)), env['$state'])]
        P[r'DB::convert_memtable_to_file'] = conv
        def set_wal(se, env, pc, *a):
            _add(env, ('reuse_wal',)); return [(None, (), env['$state'])]
        P[r'DB::set_wal'] = set_wal
        P[r'LogWriter::new'] = lambda se, env, pc, *a: lib.one(env, Enum('Ok', ({'abstract': True, '__ty': 'LogWriter'},)))
        def store(se, env, pc, *a):
            _add(env, ('install_memtable',)); return [(None, (), env['$state'])]
        P[r'ArcSwapAny::store'] = store
        ex = Exec(mir, S, loop_bound=R + 3, opaque_calls_ok=True)
        def k(ret, env, pc, R=R, ex=ex):
            evs = env['$state']['events']
            applied = [e[1] for e in evs if e[0] == 'apply']
            posts = [('not every WAL record is applied to the memtable, in order', BoolVal(applied == list(range(R))))]
            if isinstance(ret, Enum) and ret.tag == 'Ok':
                use_new, last = ret.fields[0]
                exp = bv(0)
                for i in range(R): exp = If(UGT(starts[i] + lens[i] - bv(1), exp), starts[i] + lens[i] - bv(1), exp)
                posts.append(('the last sequence number reported for the WAL is not the last sequence of its newest batch', last == exp if is_bv(last) else BoolVal(False)))
                nconv = len([e for e in evs if e[0] == 'convert_memtable_to_file'])
                reused = ('reuse_wal',) in evs
                posts.append(('a WAL is reused although it is not the last one / reuse is disabled', Or(BoolVal(not reused), And(reuse, is_last))))
                posts.append((LABEL_BASE, BoolVal(all(e[1] for e in evs if e[0] == 'convert_memtable_to_file'))))
                posts.append(('recovered entries are neither kept in the live memtable nor written to a table', Or(BoolVal(('install_memtable',) in evs), BoolVal(nconv >= 1), BoolVal(R == 0))))
            else:
                posts.append(('recovery of a readable WAL fails', BoolVal(False)))
            res.cases['R=%d %s' % (R, ','.join(e[0] for e in evs))[:120]] = 1
            for label, post in posts:
                ex.record_formula(label, pc, Not(post))
                m = ex.model(Not(post))
                if m is not None:
                    res.violations.append({'label': label, 'records': R, 'events': [str(e) for e in evs],
                                           'replay': ['db_scenario', 'P6b31=01', 'B6b32=02+6b33=03+6b34=04', 'R', 'G6b31', 'G6b32', 'G6b33', 'G6b34', 'P6b35=05', 'G6b34', 'G6b35', 'I'] if 'last sequence' in label else
                                                     (SHORT_RECORDS if 'not every WAL record' in label else (['two_wal_crash_reopen', 'noreuse'] if label == LABEL_BASE else None)),
                                           'confirmed_by': None if ('last sequence' in label or 'not every WAL record' in label or label == LABEL_BASE) else {'reproduced': False, 'detail': 'no native scenario for this label'}})
        env = {'$state': {'events': [], 'next': 0, 'n': 0}, '$db': {'abstract': True, '__ty': 'DB'}, '$g': {'abstract': True}, '$guard': Ref('$g'), '$cm': {'abstract': True}}
        ex.top(fn, [Ref('$db'), Ref('$guard'), BitVec('wal_number', 64), is_last, Ref('$cm')], env, pre, k)
        ex.bound_hits = []
        res.absorb(ex)
    res.wall_s = time.time() - t0
    if res.violations: res.status = 'violation'
    return res


LABEL_BASE = 'a table written while write-ahead logs are replayed is placed by looking at the current version (tables of logs replayed earlier in this recovery are in no version yet: the newer table can end up below an older one)'

# the shortest records a WAL can hold: a delete of the empty key alone (11 bytes), a delete of a one-byte key (12), a put of an empty value
SHORT_RECORDS = ['db_scenario', 'P=01', 'D', 'P61=02', 'D61', 'P62=', 'R', 'G', 'G61', 'G62', 'I', 'P63=03', 'R', 'G', 'G63', 'I']


def scenario_confirm(v, out):
    if v['replay'][0] == 'two_wal_crash_reopen':
        if out.get('_rc') != 0: return (False, 'native run failed: %s' % out.get('_stderr', '')[-300:])
        bad = out.get('stale_overwrite') != '0' or out.get('lost') != '0' or out.get('first_reopen') != 'ok' or out.get('second_reopen') != 'ok'
        return (bad, 'crash image with logs %s (a key of the first log is overwritten in the second), reopened twice without log reuse: reopens %s / %s%s, unreadable keys %s, reads of the overwritten key that return the older value %s'
                % (out.get('wals_at_crash'), out.get('first_reopen'), out.get('second_reopen'), ' (the reopen %s)' % out.get('reopen_thread') if out.get('reopen_thread') else '', out.get('lost'), out.get('stale_overwrite')))
    return dbmodel.compare(v['replay'][1:], out)


def o2_5b_recover_unrecorded_logs(mir, tier):
    """The WALs replayed at open are exactly those numbered >= the manifest's WAL number, in ascending order; only the last one may
    be reused; the restored sequence number is the maximum over all replayed WALs (never lowered)."""
    fn = mir.method('DB', 'recover_unrecorded_logs')
    res = Result('O2.5b DB::recover_unrecorded_logs', [fn.path],
                 'directory of 2 write-ahead logs with free numbers (plus CURRENT); recover_wal_records by contract (free last sequence per WAL); manifest WAL number and stored sequence free')
    t0 = time.time()
    nums = [BitVec('wal_a', 64), BitVec('wal_b', 64)]
    seqs = {}; minlog, prev = BitVec('manifest_wal_number', 64), BitVec('manifest_sequence', 64)
    S = lib2.install(lib.std_summaries()); P = S['$patterns']
    P[GUARD] = lib.ptr_deref
    P[r'VersionSet::get_curr_wal_number'] = lambda se, env, pc, vs: lib.one(env, minlog)
    P[r'VersionSet::get_live_files'] = lambda se, env, pc, vs: lib.one(env, {'set': []})
    P[r'VersionSet::get_prev_sequence_number'] = lambda se, env, pc, vs: lib.one(env, prev)
    P[r'DB::get_all_db_files'] = lambda se, env, pc, db: lib.one(env, Enum('Ok', ([{'file': 'current'}, {'file': 0}, {'file': 1}],)))
    def ftype(se, env, pc, p):
        f = (se.deref(env, p) if isinstance(p, Ref) else p)['file']
        if f == 'current': return lib.one(env, Enum('Ok', (Enum('CurrentFile', (), 'ParsedFileType'),)))
        return lib.one(env, Enum('Ok', (Enum('WriteAheadLog', (nums[f],), 'ParsedFileType'),)))
    P[r'FileNameHandler::get_file_type_from_name'] = ftype
    P[r'<PathBuf as Deref>::deref'] = lib.ident
    P[r'<Vec<PathBuf> as IntoIterator>::into_iter'] = lib.into_iter_owned
    P[r'<std::vec::IntoIter<.*> as Iterator>::next'] = lib.it_next
    P[r'<std::vec::IntoIter<.*> as Iterator>::enumerate'] = lib.it_enumerate
    P[r'HashSet::remove'] = lambda se, env, pc, r, x: lib.one(env, BoolVal(False))
    P[r'HashSet::is_empty'] = lambda se, env, pc, r: lib.one(env, BoolVal(True))
    P[r'HashSet::len'] = lambda se, env, pc, r: lib.one(env, bv(0))
    @lib.cps
    def sort_unstable(se, env, pc, vals, cont):
        r = vals[0]; lst = lib.the_list(se, env, r)
        for perm in itertools.permutations(range(len(lst))):
            c = And(*[ULE(lst[perm[i]], lst[perm[i + 1]]) if perm[i] < perm[i + 1] else ULT(lst[perm[i]], lst[perm[i + 1]]) for i in range(len(lst) - 1)]) if len(lst) > 1 else BoolVal(True)
            def go(perm=perm, c=c):
                e = dict(env); se.store(e, r, [lst[i] for i in perm]); cont((), e, pc + [c])
            se.under(c, go)
    P[r'(?:core|std)::slice::<impl \[u64\]>::sort_unstable'] = sort_unstable
    P[r'<Vec<u64> as DerefMut>::deref_mut'] = lib.ident
    P[r'<VersionChangeManifest as Default>::default'] = lambda se, env, pc: lib.one(env, {'abstract': True, '__ty': 'VersionChangeManifest'})
    def rwr(se, env, pc, db, g, num, last, cm):
        st = dict(env['$state']); i = len([e for e in st['events'] if e[0] == 'recover']); st['events'] = st['events'] + [('recover', num, last)]
        sq = BitVec('last_seq_of_call%d' % i, 64); st['seqs'] = st['seqs'] + [sq]
        return [(None, Enum('Ok', ((Bool('new_manifest%d' % i), sq),)), st)]
    P[r'DB::recover_wal_records'] = rwr
    def mark(se, env, pc, vs, n):
        _add(env, ('mark_used', n)); return [(None, (), env['$state'])]
    P[r'VersionSet::mark_file_number_used'] = mark
    def setprev(se, env, pc, vs, n):
        _add(env, ('set_prev', n)); return [(None, (), env['$state'])]
    P[r'VersionSet::set_prev_sequence_number'] = setprev
    ex = Exec(mir, S, loop_bound=6, opaque_calls_ok=True)
    pre = [nums[0] != nums[1]]
    def k(ret, env, pc):
        evs = env['$state']['events']; sq = env['$state']['seqs']
        rec = [e for e in evs if e[0] == 'recover']
        posts = []
        want = [n for n in nums]
        # which WALs must be replayed: number >= manifest WAL number
        for j, n in enumerate(nums):
            called = Or(*[e[1] == n for e in rec]) if rec else BoolVal(False)
            posts.append(('a write-ahead log at or above the manifest WAL number is not replayed (or an older one is)', called == UGE(n, minlog)))
        posts.append(('write-ahead logs are not replayed in ascending order', And(*[ULT(rec[i][1], rec[i + 1][1]) for i in range(len(rec) - 1)]) if len(rec) > 1 else BoolVal(True)))
        for i, e in enumerate(rec):
            is_last = e[2]
            posts.append(('a write-ahead log other than the newest is treated as the last one (it may be reused and then superseded)' if i < len(rec) - 1 else 'the newest write-ahead log is not treated as the last one',
                          (is_last == BoolVal(i == len(rec) - 1)) if not isinstance(is_last, Opaque) else BoolVal(False)))
        if isinstance(ret, Enum) and ret.tag == 'Ok' and rec:
            mx = sq[0]
            for s_ in sq[1:]: mx = If(UGT(s_, mx), s_, mx)
            sp = [e for e in evs if e[0] == 'set_prev']
            final = sp[-1][1] if sp else prev
            posts.append(('the restored sequence number is not the maximum over the replayed logs and the manifest', final == If(UGT(mx, prev), mx, prev)))
            posts.append(('a replayed log number is not marked as used', BoolVal(len([e for e in evs if e[0] == 'mark_used']) == len(rec))))
        res.cases['%d logs replayed' % len(rec)] = res.cases.get('%d logs replayed' % len(rec), 0) + 1
        for label, post in posts:
            ex.record_formula(label, pc, Not(post))
            m = ex.model(Not(post))
            if m is not None:
                scen = 'two_wals_stale_sequence' if 'sequence' in label else ('two_wals_reuse' if 'last one' in label else None)
                res.violations.append({'label': label, 'events': [str(e) for e in evs], 'replay': ['recovery_scenario', scen] if scen else None,
                                       'confirmed_by': None if scen else {'reproduced': False, 'detail': 'no native scenario for this label'}})
    env = {'$state': {'events': [], 'seqs': []}, '$db': {'abstract': True, '__ty': 'DB'}, '$g': {'abstract': True}, '$guard': Ref('$g')}
    ex.top(fn, [Ref('$db'), Ref('$guard')], env, pre, k)
    res.absorb(ex)
    res.wall_s = time.time() - t0
    if res.violations: res.status = 'violation'
    return res


def o2_5b_confirm(v, out):
    """Native: a database directory with two write-ahead logs at or above the manifest's WAL number is fabricated (the second log is
    written with the real LogWriter), the database is reopened twice and every key is read."""
    if out.get('_rc') != 0: return (True, 'native reopen failed / panicked: %s' % out.get('_stderr', '')[-300:])
    bad = [k_ for k_ in ('open1', 'open2') if out.get(k_) != out.get('expected')]
    return (bool(bad), 'keys readable after first reopen: %s, after second reopen: %s, expected: %s' % (out.get('open1'), out.get('open2'), out.get('expected')))
