"""Compaction obligations: O3.2a (which sequence bounds the dropping of shadowed entries), O3.2b = O7.6 (keep/drop rule of compact_tables)."""
import time
from z3 import BitVec, BitVecVal, Bool, BoolVal, And, Or, Not, Implies, ULT, ULE, UGT, UGE, If, simplify
from ..exec import Exec, Enum, Ref, Opaque, Inconclusive, bv
from ..ob import World, Result, klt, kle, keq, mval, key_bytes, MAXSEQ
from .. import lib, dbmodel
from .version import base_summaries

GUARD = r'<parking_lot::lock_api::MutexGuard<.*> as Deref(?:Mut)?>::deref(?:_mut)?'


def o3_2a_smallest_snapshot(mir, tier):
    """compact_tables hands CompactionState the sequence of the OLDEST live snapshot, or the last published sequence if no snapshot is live."""
    fn = mir.method('CompactionWorker', 'compact_tables')
    res = Result('O3.2a smallest snapshot handed to the compaction', [fn.path + ' (prologue up to the unlocked section)'],
                 'snapshot list by contract (is_empty free; oldest / newest return distinct symbolic sequences); execution stops when the mutex is released for the merge')
    t0 = time.time()
    S = base_summaries(mir)
    P = S['$patterns']
    empty, s_old, s_new, prev = Bool('snapshots_empty'), BitVec('oldest_snapshot_seq', 64), BitVec('newest_snapshot_seq', 64), BitVec('prev_sequence_number', 64)
    P[GUARD] = lib.ptr_deref
    P[r'Instant::now'] = lambda se, env, pc: lib.one(env, Opaque('instant'))
    P[r'<Duration as Default>::default'] = lambda se, env, pc: lib.one(env, Opaque('duration'))
    P[r'CompactionManifest::(?:get_compaction_level_files|get_parent_level_files)'] = lambda se, env, pc, m: lib.one(env, [])
    P[r'CompactionManifest::level'] = lambda se, env, pc, m: lib.one(env, bv(1))
    P[r'VersionSet::level_summary'] = lambda se, env, pc, m: lib.one(env, {'str': 'summary'})
    P[r'VersionSet::num_files_at_level'] = lambda se, env, pc, vs, l: lib.one(env, bv(2))
    P[r'VersionSet::get_prev_sequence_number'] = lambda se, env, pc, vs: lib.one(env, prev)
    P[r'SnapshotList::is_empty'] = lambda se, env, pc, l: lib.one(env, empty)
    P[r'SnapshotList::oldest'] = lambda se, env, pc, l: lib.one(env, mir.mk_struct('Node', element={'abstract': True, 'which': 'oldest'}))
    P[r'SnapshotList::newest'] = lambda se, env, pc, l: lib.one(env, mir.mk_struct('Node', element={'abstract': True, 'which': 'newest'}))
    P[r'<Arc<parking_lot::lock_api::RwLock<parking_lot::RawRwLock, Node<InnerSnapshot>>> as Deref>::deref'] = lib.ident
    P[r'InnerSnapshot::sequence_number'] = lambda se, env, pc, n: lib.one(env, s_old if se.deref(env, n).get('which') == 'oldest' else s_new)
    def cs_new(se, env, pc, manifest, seq):
        st = dict(env['$state']); st['handed'] = st.get('handed', []) + [seq]; return [(None, {'abstract': True, '__ty': 'CompactionState'}, st)]
    P[r'CompactionState::new'] = cs_new
    ex = Exec(mir, S, loop_bound=4)
    def stop(se, env, pc, guard, clo):
        handed = env['$state'].get('handed', [])
        res.cases['paths reaching the merge'] = res.cases.get('paths reaching the merge', 0) + 1
        post = And(BoolVal(len(handed) == 1), handed[0] == If(empty, prev, s_old)) if handed else BoolVal(False)
        label = 'the compaction is not bounded by the oldest live snapshot (or by the last sequence when no snapshot is live)'
        se.record_formula(label, pc, Not(post))
        m = se.model(Not(post), s_old != s_new, ULT(s_old, s_new), ULT(s_new, prev))
        if m is not None:
            # two snapshots at different points, a key overwritten in between, then a table compaction
            res.violations.append({'label': label, 'model': {'snapshots_empty': mval(m, empty)},
                                   'replay': ['db_scenario', 'P61=01', 'P6b=11', 'P7a=02', 'F', 'S', 'P6b=12', 'S', 'P6b=13', 'C', 'G6b@0', 'G6b@1', 'G6b', 'I@0', 'I@1', 'J@0']})
        se.paths += 1
        return []
    P[r'parking_lot::lock_api::MutexGuard::unlocked_fair'] = stop
    env = {'$state': {}, '$dbs': {'abstract': True}, '$g': mir.mk_struct('GuardedDbFields', version_set={'abstract': True}, snapshots={'abstract': True}), '$guard': Ref('$g')}
    ex.top(fn, [Ref('$dbs'), Ref('$guard'), {'abstract': True, '__ty': 'CompactionManifest'}], env, [], lambda ret, env, pc: None)
    res.absorb(ex)
    if not res.cases.get('paths reaching the merge'):
        res.status = 'inconclusive'; res.reason = 'no path reaches the unlocked merge section'
    res.wall_s = time.time() - t0
    if res.violations: res.status = 'violation'
    return res


def scenario_confirm(v, out):
    bad, detail = dbmodel.compare(v['replay'][1:], out)
    return (bad, detail)


def o3_2b_keep_drop(mir, tier, which='keepdrop'):
    """The merge loop of compact_tables over an abstract sorted input: for every snapshot q >= smallest_snapshot and every user
    key, what a reader at q sees is the same before and after (or a dropped tombstone at the base level hides nothing kept)."""
    clo = [f for f in mir.fns.values() if f.path.endswith('compact_tables::{closure#0}')]
    if len(clo) != 1: raise Inconclusive('compact_tables closure not found')
    fn = clo[0]
    E_MAX = 3 if tier == 'quick' else 4
    res = Result('O3.2b keep/drop rule of compact_tables' if which == 'keepdrop' else 'O10.10 bounds recorded for the outputs of compact_tables', [fn.path],
                 'merged input of 1..%d entries (free user keys, sequences, tags, sorted); smallest snapshot and reader snapshot free; TableBuilder / CompactionState / should_stop_before_key / file sizes by contract; is_base_level_for_key answers freely' % E_MAX)
    t0 = time.time()
    for m in range(1, E_MAX + 1):
        w = World(mir)
        keys = [w.key('e%d' % i) for i in range(m)]
        E = [w.K(k) for k in keys]
        s_snap = BitVec('smallest_snapshot', 64)
        pre = list(w.pre) + [klt(E[i], E[i + 1]) for i in range(m - 1)] + [ULT(e[1], bv(MAXSEQ)) for e in E] + [ULT(s_snap, bv(MAXSEQ))]
        S = base_summaries(mir)
        P = S['$patterns']
        tok = lambda name: (lambda se, env, pc, *a: lib.one(env, name))
        P[r'CompactionState::compaction_manifest(?:_mut)?'] = tok({'abstract': True, '__ty': 'CompactionManifest'})
        P[r'CompactionState::table_builder_mut'] = tok({'abstract': True, '__ty': 'TableBuilder'})
        # the output's metadata is a real FileMetadata value in the cell $out (bounds readable through the real accessors)
        P[r'CompactionState::current_output_mut'] = tok(Ref('$out'))
        P[r'<Arc<TableCache> as Clone>::clone'] = tok('table_cache')
        P[r'CompactionManifest::make_merging_iterator'] = lambda se, env, pc, *a: lib.one(env, Enum('Ok', ({'abstract': True, 'pos': None, '__ty': 'MergingIterator'},)))
        MI = '<MergingIterator as RainDbIterator>::'
        def it_obj(se, env, r): return se.deref(env, r)
        P[MI.replace('<', r'<').replace('>', r'>') + 'seek_to_first'] = lambda se, env, pc, r: (se.store(env, r, dict(it_obj(se, env, r), pos=0)), lib.one(env, Enum('Ok', ((),))))[1]
        P[MI + 'is_valid'] = lambda se, env, pc, r: lib.one(env, BoolVal(it_obj(se, env, r)['pos'] is not None and it_obj(se, env, r)['pos'] < m))
        def cur(se, env, pc, r):
            p = it_obj(se, env, r)['pos']
            if p is None or p >= m: return lib.one(env, Enum('None'))
            return lib.one(env, Enum('Some', ((Ref('$keys', (p,)), Ref('$vals', (p,))),)))
        P[MI + 'current'] = cur
        P[MI + 'next'] = lambda se, env, pc, r: (se.store(env, r, dict(it_obj(se, env, r), pos=it_obj(se, env, r)['pos'] + 1)), lib.one(env, Opaque('next')))[1]
        P[r'Atomic::load'] = lambda se, env, pc, *a: lib.one(env, BoolVal(False))        # not shutting down, no immutable memtable pending
        P[r'<Arc<Atomic<bool>> as Deref>::deref'] = lib.ident
        P[r'CompactionState::has_table_builder'] = lambda se, env, pc, *a: lib.one(env, BoolVal(env['$state']['open']))
        def open_out(se, env, pc, *a):
            st = dict(env['$state']); st['open'] = True; st['nentries'] = 0
            st['outs'] = st['outs'] + [{'entries': [], 'smallest': None, 'largest': None}]
            se.store(env, Ref('$out'), mir.mk_struct('FileMetadata', allowed_seeks=Enum('None'), file_number=bv(100 + len(st['outs'])), file_size=bv(0), smallest_key=Enum('None'), largest_key=Enum('None')))
            return [(None, Enum('Ok', ((),)), st)]
        P[r'CompactionState::open_compaction_output_file'] = open_out
        def finish(se, env, pc, *a):
            st = dict(env['$state']); st['open'] = False; st['files'] = st['files'] + 1; return [(None, Enum('Ok', ((),)), st)]
        P[r'CompactionState::finish_compaction_output_file'] = finish
        P[r'TableBuilder::get_num_entries'] = lambda se, env, pc, *a: lib.one(env, bv(env['$state']['nentries']))
        def add_entry(se, env, pc, tb, key, val):
            k = se.deref(env, key)
            idx = [i for i in range(m) if k[0].eq(keys[i][0]) and k[1].eq(keys[i][1])]
            st = dict(env['$state']); st['kept'] = st['kept'] + [idx[0] if idx else -1]; st['nentries'] += 1
            if st['outs']: st['outs'] = st['outs'][:-1] + [dict(st['outs'][-1], entries=st['outs'][-1]['entries'] + [idx[0] if idx else -1])]
            else: st['orphan_add'] = True
            return [(None, Enum('Ok', ((),)), st)]
        P[r'TableBuilder::add_entry'] = add_entry
        def fresh(prefix, sort):
            def f(se, env, pc, *a):
                st = dict(env['$state']); st['n'] += 1
                return [(None, (BitVec if sort == 'bv' else Bool)(*(('%s%d' % (prefix, st['n']), 64) if sort == 'bv' else ('%s%d' % (prefix, st['n']),))), st)]
            return f
        P[r'TableBuilder::file_size'] = fresh('file_size', 'bv')
        P[r'CompactionManifest::max_output_file_size_bytes'] = lambda se, env, pc, *a: lib.one(env, BitVec('max_out', 64))
        def setter(which_):
            def f(se, env, pc, fm, key):
                k = se.deref(env, key) if isinstance(key, Ref) else key
                kk = k.fields[0] if isinstance(k, Enum) and k.tag == 'Some' else None
                while isinstance(kk, Ref): kk = se.deref(env, kk)
                idx = [i for i in range(m) if kk is not None and kk[0].eq(keys[i][0]) and kk[1].eq(keys[i][1])]
                st = dict(env['$state'])
                if st['outs'] and st['open']: st['outs'] = st['outs'][:-1] + [dict(st['outs'][-1], **{which_: (idx[0] if idx else -1)})]
                else: st['orphan_set'] = True
                fmf = mir.struct_fields('FileMetadata')
                fv = dict(se.deref(env, Ref('$out'))); fv[fmf.index(which_ + '_key')] = k; se.store(env, Ref('$out'), fv)
                return [(None, (), st)]
            return f
        P[r'FileMetadata::set_smallest_key'] = setter('smallest'); P[r'FileMetadata::set_largest_key'] = setter('largest')
        P[r'CompactionState::get_smallest_snapshot'] = lambda se, env, pc, *a: lib.one(env, s_snap)
        def base(se, env, pc, mref, key):
            k = se.deref(env, key); idx = [i for i in range(m) if k[0].eq(keys[i][0]) and k[1].eq(keys[i][1])][0]
            st = dict(env['$state']); b = Bool('base%d_%d' % (idx, len(st['base']))); st['base'] = st['base'] + [(idx, b)]; return [(None, b, st)]
        P[r'CompactionManifest::is_base_level_for_key'] = base
        P[r'CompactionManifest::should_stop_before_key'] = fresh('stop', 'bool')
        P[r'Rc::new'] = lib.ident
        P[r'<&\[u8\] as PartialEq<&Vec<u8>>>::(?:ne|eq)'] = None
        del P[r'<&\[u8\] as PartialEq<&Vec<u8>>>::(?:ne|eq)']
        P[r'<&\[u8\] as PartialEq<&Vec<u8>>>::ne'] = lib.bytes_rel('ne')
        P[r'<&\[u8\] as PartialEq<&Vec<u8>>>::eq'] = lib.bytes_rel('eq')
        ex = Exec(mir, S, loop_bound=m + 3)
        def k(ret, env, pc, ex=ex, m=m, E=E):
            st = env['$state']
            kept = st['kept']
            q = BitVec('reader_snapshot', 64)
            posts = [('an entry is written to the output twice or out of order', BoolVal(kept == sorted(set(kept)) and -1 not in kept))]
            if which == 'bounds':
                outs = st['outs']
                posts = [('the smallest key recorded for a compaction output is not the first entry written to it', BoolVal(all(o['entries'] and o['smallest'] == o['entries'][0] for o in outs))),
                         ('the largest key recorded for a compaction output is not the last entry written to it (the file holds entries beyond its reported range, or its range covers entries it does not hold)',
                          BoolVal(all(o['entries'] and o['largest'] == o['entries'][-1] for o in outs))),
                         ('a key range is recorded / an entry is written while no compaction output is open', BoolVal(not st.get('orphan_set') and not st.get('orphan_add')))]
                for label, post in posts:
                    ex.record_formula(label, pc, Not(post))
                    mm = ex.model(Not(post))
                    if mm is not None:
                        ents = [(mval(mm, e[0]), mval(mm, e[1]), mval(mm, e[2])) for e in E]
                        # no anchor keys around the entries: the last entry of the merge must be the last entry of its output
                        rep = scenario_for_entries(ents, mval(mm, s_snap), mval(mm, s_snap), anchors=False)
                        ci = rep.index('C'); rep = rep[:ci + 1] + ['A'] + rep[ci + 1:] + ['R', 'A']
                        res.violations.append({'label': label, 'entries': ents, 'kept': kept, 'outputs': [dict(o) for o in outs], 'smallest_snapshot': mval(mm, s_snap), 'replay': rep})
                res.cases['kept %d of %d in %d outputs' % (len(kept), m, len(outs))] = res.cases.get('kept %d of %d in %d outputs' % (len(kept), m, len(outs)), 0) + 1
                return
            keptset = set(kept)
            for a in range(m):          # representative user key = that of entry a
                ua = E[a][0]
                vis = [And(E[i][0] == ua, ULE(E[i][1], q)) for i in range(m)]
                first_in = [And(vis[i], *[Not(vis[j]) for j in range(i)]) for i in range(m)]
                conj = []
                for i in range(m):
                    if i in keptset:
                        ok = And(*[Not(vis[j]) for j in range(i) if j in keptset])
                    else:
                        bs = [b for (j, b) in st['base'] if j == i]
                        ok = And(E[i][2] == bv(0), Or(*bs) if bs else BoolVal(False), ULE(E[i][1], s_snap), *[Not(vis[j]) for j in keptset])
                    conj.append(Implies(first_in[i], ok))
                posts.append(('a reader at a live snapshot (or at the latest state) sees a different entry for some key after the compaction', Implies(UGE(q, s_snap), And(*conj))))
            for label, post in posts:
                ex.record_formula(label, pc, Not(post))
                mm = ex.model(Not(post))
                if mm is not None:
                    ents = [(mval(mm, e[0]), mval(mm, e[1]), mval(mm, e[2])) for e in E]
                    res.violations.append({'label': label, 'entries': ents, 'kept': kept, 'smallest_snapshot': mval(mm, s_snap), 'reader_snapshot': mval(mm, q),
                                           'base_answers': [(j, mval(mm, b)) for j, b in st['base']],
                                           'replay': scenario_for_entries(ents, mval(mm, s_snap), mval(mm, q))})
            res.cases['kept %d of %d' % (len(kept), m)] = res.cases.get('kept %d of %d' % (len(kept), m), 0) + 1
        env = {'$state': {'open': False, 'nentries': 0, 'kept': [], 'base': [], 'files': 0, 'n': 0, 'outs': []}, '$cs': {'abstract': True, '__ty': 'CompactionState'},
               '$dbs': mir.mk_struct('PortableDatabaseState', table_cache='tc', is_shutting_down='atomic', has_immutable_memtable='atomic'), '$dur': Opaque('duration'),
               '$keys': keys, '$vals': [BitVec('val%d' % i, 8) for i in range(m)],
               '$out': mir.mk_struct('FileMetadata', allowed_seeks=Enum('None'), file_number=bv(100), file_size=bv(0), smallest_key=Enum('None'), largest_key=Enum('None'))}
        clo_val = {0: Ref('$cs'), 1: Ref('$dbs'), 2: Ref('$dur'), '__closure': 'x'}
        # closure captures: order as in the MIR signature (resolved by name below)
        fn.parse()
        ex.top(fn, [closure_env(mir, fn)], env, pre, k)
        res.absorb(ex)
        for pc, msg, where in ex.panics:
            res.panic_paths += 1; res.violations.append({'label': 'panic path: ' + msg[:80], 'replay': None})
    res.wall_s = time.time() - t0
    if res.violations: res.status = 'violation'
    return res


def closure_env(mir, fn):
    """Captured variables of the compact_tables closure, in MIR field order (read from the `debug name => ((*_1).N` lines)."""
    import re
    caps = {}
    for l in fn.body:
        m = re.match(r'\s+debug (\w+) => \(\*?\(?\(?\*?_1\)?\.(\d+):', l) or re.match(r'\s+debug (\w+) => .*_1.*?\.(\d+): ', l)
        if m: caps[int(m.group(2))] = m.group(1)
    d = {}
    for idx, name in caps.items():
        d[idx] = {'compaction_state': Ref('$cs'), 'db_state': Ref('$dbs'), 'total_memtable_compaction_time': Ref('$dur')}.get(name, Opaque('capture ' + name))
    if not d: raise Inconclusive('cannot read the captures of the compact_tables closure')
    return d


def scenario_for_entries(ents, s_snap, q, anchors=True):
    """Turn a counterexample of the keep/drop rule (sorted entries (key, seq, op), smallest snapshot, reader snapshot) into a
    DB-level scenario: the writes in sequence order, snapshots at the two bounds, flushes so that a real table compaction
    merges them, then reads at both snapshots and at the latest state."""
    order = sorted(set([e[1] for e in ents]))
    steps, snaps = [], []
    writes = sorted(ents, key=lambda e: e[1])
    taken = {}
    def maybe_snap(bound, after_seq, next_seq):
        return after_seq <= bound and (next_seq is None or bound < next_seq)
    # an anchor key below and above so that flushed tables overlap and must be merged
    if anchors: steps += ['P0000=aa', 'Pfffe=bb', 'F']
    for i, e in enumerate(writes):
        k = key_bytes(e[0])
        steps.append(('P%s=%02x' % (k, (i + 1) & 0xff)) if e[2] == 1 else 'D%s' % k)
        nxt = writes[i + 1][1] if i + 1 < len(writes) else None
        for name, bound in (('s', s_snap), ('q', q)):
            if name not in taken and maybe_snap(bound, e[1], nxt):
                steps.append('S'); taken[name] = len(snaps); snaps.append(name)
        steps.append('F')
    steps.append('C')
    for e in sorted(set(e[0] for e in ents)):
        k = key_bytes(e)
        steps.append('G' + k)
        for name in snaps: steps.append('G%s@%d' % (k, taken[name]))
    for name in snaps: steps.append('I@%d' % taken[name])
    steps.append('I')
    return ['db_scenario'] + steps


def o10_10_output_bounds(mir, tier):
    """Same exploration of the merge loop as O3.2b (1..3 (4) sorted entries, free snapshot bound, free answers of should_stop_before_key,
    file sizes and is_base_level_for_key, so every way of cutting the kept entries into output files occurs), but the monitored state is
    the bookkeeping of the outputs: which entries went into which output and which keys were recorded as its bounds.  Reference: every
    output's smallest / largest key is exactly its first / last written entry - with several kept versions of one user key (a live
    snapshot) and with dropped entries after the last kept one."""
    return o3_2b_keep_drop(mir, tier, which='bounds')


def o7_13_compaction_outcome(mir, tier):
    """CompactionWorker::compact_tables from the end of the merge (the unlocked section by contract: it returns the input iterator or an
    error) to the end: shutting down / an output still open / finishing it fails / the input iterator holds an error (a lazily opened
    input that could not be read) / installing fails - every combination.  Reference: the results are installed (inputs deleted, outputs
    added) only when the merge returned its iterator, the database is not shutting down, an open output was finished successfully
    BEFORE the installation and the input iterator reports no error; every failure is recorded as the database's failed state; nothing
    is installed after a failure."""
    fn = mir.method('CompactionWorker', 'compact_tables')
    res = Result('O7.13 outcome of compact_tables', [fn.path + ' (from the end of the merge section)'],
                 'merge section by contract (Ok(iterator) / Err), shutting-down flag, open output, result of finishing it, iterator error, install result: all free booleans')
    t0 = time.time()
    for merge_ok in (True, False):
        for open_out in ((False, True) if merge_ok else (False,)):
            S = base_summaries(mir)
            P = S['$patterns']
            shut, fin_ok, it_err, inst_ok, empty = Bool('shutting_down'), Bool('finish_output_ok'), Bool('input_iterator_has_error'), Bool('install_ok'), Bool('snapshots_empty')
            def add(env, ev):
                st = dict(env['$state']); st['events'] = st['events'] + [ev]; env['$state'] = st
            P[GUARD] = lib.ptr_deref
            P[r'Instant::now'] = lambda se, env, pc: lib.one(env, Opaque('instant'))
            P[r'Instant::elapsed'] = lambda se, env, pc, i: lib.one(env, Opaque('duration'))
            P[r'<Duration as Default>::default'] = lambda se, env, pc: lib.one(env, Opaque('duration'))
            P[r'<Duration as Sub>::sub'] = lambda se, env, pc, a, b: lib.one(env, Opaque('duration'))
            P[r'<Duration as AddAssign>::add_assign'] = lib.unit
            P[r'CompactionManifest::(?:get_compaction_level_files|get_parent_level_files)'] = lambda se, env, pc, m: lib.one(env, [])
            P[r'CompactionManifest::level'] = lambda se, env, pc, m: lib.one(env, bv(1))
            P[r'CompactionManifest::compaction_input_read_bytes'] = lambda se, env, pc, m: lib.one(env, BitVec('input_bytes', 64))
            P[r'VersionSet::level_summary'] = lambda se, env, pc, m: lib.one(env, {'str': 'summary'})
            P[r'VersionSet::num_files_at_level'] = lambda se, env, pc, vs, l: lib.one(env, bv(2))
            P[r'VersionSet::get_prev_sequence_number'] = lambda se, env, pc, vs: lib.one(env, BitVec('prev_sequence_number', 64))
            P[r'SnapshotList::is_empty'] = lambda se, env, pc, l: lib.one(env, empty)
            P[r'SnapshotList::oldest'] = lambda se, env, pc, l: lib.one(env, mir.mk_struct('Node', element={'abstract': True}))
            P[r'<Arc<parking_lot::lock_api::RwLock<parking_lot::RawRwLock, Node<InnerSnapshot>>> as Deref>::deref'] = lib.ident
            P[r'InnerSnapshot::sequence_number'] = lambda se, env, pc, n: lib.one(env, BitVec('oldest_snapshot_seq', 64))
            P[r'CompactionState::new'] = lambda se, env, pc, manifest, seq: lib.one(env, {'abstract': True, '__ty': 'CompactionState'})
            P[r'CompactionState::compaction_manifest(?:_mut)?'] = lambda se, env, pc, c: lib.one(env, {'abstract': True, '__ty': 'CompactionManifest'})
            P[r'CompactionState::get_output_size'] = lambda se, env, pc, c: lib.one(env, BitVec('output_bytes', 64))
            def merged(se, env, pc, guard, clo, merge_ok=merge_ok):
                add(env, ('merge',))
                return [(None, Enum('Ok', ({'abstract': True, '__ty': 'MergingIterator'},)) if merge_ok else Enum('Err', (Enum('IO', ({'merge failed': 1},), 'RainDBError'),)), env['$state'])]
            P[r'parking_lot::lock_api::MutexGuard::unlocked_fair'] = merged
            P[r'Atomic::load'] = lambda se, env, pc, *a: lib.one(env, shut)
            P[r'<Arc<Atomic<bool>> as Deref>::deref'] = lib.ident
            P[r'<Arc<TableCache> as Clone>::clone'] = lambda se, env, pc, *a: lib.one(env, 'table_cache')
            P[r'CompactionState::has_table_builder'] = lambda se, env, pc, c, open_out=open_out: lib.one(env, BoolVal(open_out and not any(e[0] == 'finish output' for e in env['$state']['events'])))
            def finish(se, env, pc, *a):
                add(env, ('finish output',))
                return [(fin_ok, Enum('Ok', ((),)), env['$state']), (Not(fin_ok), Enum('Err', (Enum('IO', ({'finish failed': 1},), 'RainDBError'),)), env['$state'])]
            P[r'CompactionState::finish_compaction_output_file'] = finish
            def get_error(se, env, pc, it):
                add(env, ('ask iterator for errors',))
                return [(it_err, Enum('Some', (Enum('IO', ({'input unreadable': 1},), 'RainDBError'),)), env['$state']), (Not(it_err), Enum('None'), env['$state'])]
            P[r'MergingIterator::get_error'] = get_error
            def install(se, env, pc, *a):
                add(env, ('install',))
                return [(inst_ok, Enum('Ok', ((),)), env['$state']), (Not(inst_ok), Enum('Err', ({'install failed': 1, '__ty': 'CompactionWorkerError'},)), env['$state'])]
            P[r'CompactionWorker::install_compaction_results'] = install
            def bad(se, env, pc, *a):
                add(env, ('failed state',)); return [(None, (), env['$state'])]
            P[r'DB::set_bad_database_state'] = bad
            P[r'<CompactionWorkerError as Into<RainDBError>>::into'] = lambda se, env, pc, e: lib.one(env, Enum('Compaction', (e,), 'RainDBError'))
            P[r'<.* as AddAssign>::add_assign'] = lib.unit
            P[r'<\[LevelCompactionStats; 7\] as IndexMut<usize>>::index_mut'] = lambda se, env, pc, *a: lib.one(env, Opaque('stats slot'))
            ex = Exec(mir, S, loop_bound=4, opaque_calls_ok=True)
            def k(ret, env, pc, ex=ex, merge_ok=merge_ok, open_out=open_out):
                evs = [e[0] for e in env['$state']['events']]
                installed = 'install' in evs; failed = 'failed state' in evs
                may_install = And(BoolVal(merge_ok), Not(shut), fin_ok if open_out else BoolVal(True), Not(it_err))
                posts = [('the results of a table compaction are installed although the merge failed, the database is shutting down, an output could not be finished or the input iterator reported an error (an unreadable input is deleted with the inputs: its entries are lost)',
                          Or(BoolVal(not installed), may_install)),
                         ('a table compaction that went well is not installed', Or(BoolVal(installed), Not(may_install))),
                         ('an output that is still open after the merge is not finished before the results are installed',
                          BoolVal((not installed) or (not open_out) or ('finish output' in evs and evs.index('finish output') < evs.index('install')))),
                         ('a failed table compaction is not recorded as the failed state of the database (or a successful one is)', BoolVal(failed) == Not(And(may_install, inst_ok)))]
                res.cases['merge %s, output %s: %s' % ('ok' if merge_ok else 'failed', 'open' if open_out else 'closed', ','.join(evs))[:140]] = 1
                for label, post, m in ex.check_posts(posts, pc):
                    rep = 'input iterator reported an error' in label and merge_ok
                    res.violations.append({'label': label, 'case': {'merge_ok': merge_ok, 'output_open': open_out, 'shutting_down': mval(m, shut), 'finish_ok': mval(m, fin_ok), 'iterator_error': mval(m, it_err)}, 'events': evs,
                                           'replay': ['compact_unreadable_input_all_dropped'] if rep else None, 'confirmed_by': None if rep else {'reproduced': False, 'detail': 'no native scenario for this label / case'}})
            env = {'$state': {'events': []}, '$dbs': mir.mk_struct('PortableDatabaseState', table_cache='tc', is_shutting_down='atomic', has_immutable_memtable='atomic'),
                   '$g': mir.mk_struct('GuardedDbFields', version_set={'abstract': True}, snapshots={'abstract': True}, compaction_stats={'abstract': True}), '$guard': Ref('$g')}
            ex.top(fn, [Ref('$dbs'), Ref('$guard'), {'abstract': True, '__ty': 'CompactionManifest'}], env, [], k)
            ex.bound_hits = []
            res.absorb(ex)
    res.wall_s = time.time() - t0
    if res.violations: res.status = 'violation'
    return res


def o7_13_confirm(v, out):
    """Native: a table with live keys a, b, c deep in the tree, a table holding only a tombstone for b above it; reads of the deep table start to
    fail (fault-injecting file system, cold caches) and the whole range is compacted: every entry the compaction can still read is dropped,
    so no output is open when the merge ends.  Afterwards (fault gone) a and c must still be readable - or the reads must fail -, never KeyNotFound."""
    if out.get('_rc') != 0: return (False, 'native run failed: %s' % out.get('_stderr', '')[-300:])
    return (out.get('lost', '0') != '0', 'native: compaction with an unreadable input and no surviving output: %s of %s acknowledged keys are gone afterwards (fault hit: %s, tables before / after: %s / %s)' % (
        out.get('lost'), out.get('keys'), out.get('fault_hit'), out.get('tables_before'), out.get('tables_after')))
