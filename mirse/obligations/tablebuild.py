"""O14.3 TableBuilder::flush_data_block / write_block / emit_block_to_disk: block handles and the offsets announced to the filter
block builder; O14.2 filter block builder/reader agree on which filter covers which block offset."""
import time
from z3 import BitVec, BitVecVal, Bool, BoolVal, And, Or, Not, Implies, ULT, ULE, UGT, UGE, If, LShR, UDiv, ZeroExt, Extract, simplify
from ..exec import Exec, Enum, Ref, Opaque, Inconclusive, bv
from ..ob import Result, mval
from .. import lib


def o14_3_block_offsets(mir, tier):
    """Two consecutive data-block flushes: each block handle points at the bytes written for the block (offset = file offset before
    the write, size = contents without the 5-byte descriptor); the offset announced to the filter block builder after a flush is
    exactly the offset recorded in the NEXT block's handle (which is what Table::get later passes to the filter)."""
    fn = mir.method('TableBuilder', 'flush_data_block')
    res = Result('O14.3 data block handles and filter offsets in TableBuilder', [fn.path, 'TableBuilder::write_block (inlined)', 'TableBuilder::emit_block_to_disk (inlined)'],
                 'two consecutive flushes; start offset, block sizes and compressed sizes free; snappy encoder, file writes, block builder by contract')
    t0 = time.time()
    S = lib.std_summaries(); P = S['$patterns']
    off0 = BitVec('file_offset', 64)
    raw = [BitVec('block_len%d' % i, 64) for i in range(2)]; comp = [BitVec('compressed_len%d' % i, 64) for i in range(2)]
    pre = [ULT(off0, bv(1 << 40))] + [And(UGE(x, bv(8)), ULT(x, bv(1 << 30))) for x in raw] + [And(UGE(x, bv(1)), ULT(x, bv(1 << 30))) for x in comp]
    def add(env, ev):
        st = dict(env['$state']); st['events'] = st['events'] + [ev]; env['$state'] = st
    P[r'BlockBuilder::is_empty'] = lambda se, env, pc, b: lib.one(env, BoolVal(False))
    def finalize(se, env, pc, b):
        i = env['$state']['flush']
        return lib.one(env, {'len': raw[i], 'kind': 'block', 'off': bv(0)})
    P[r'BlockBuilder::finalize'] = finalize
    P[r'BlockBuilder::reset'] = lib.unit
    P[r'<Box<dyn RandomAccessFile> as std::io::Write>::flush'] = lambda se, env, pc, f: lib.one(env, Enum('Ok', ((),)))
    def write_all(se, env, pc, f, data):
        d = se.deref(env, data) if isinstance(data, Ref) else data
        n = d['len'] if isinstance(d, dict) and 'len' in d else (bv(len(d)) if isinstance(d, list) else None)
        if n is None: raise Inconclusive('write of %r' % (d,))
        add(env, ('write', n)); return [(None, Enum('Ok', ((),)), env['$state'])]
    P[r'<Box<dyn RandomAccessFile> as std::io::Write>::write_all'] = write_all
    P[r'snap::write::FrameEncoder::new'] = lambda se, env, pc, v: lib.one(env, {'abstract': True, '__ty': 'FrameEncoder'})
    P[r'<snap::write::FrameEncoder<Vec<u8>> as std::io::Write>::write_all'] = lambda se, env, pc, e, d: lib.one(env, Enum('Ok', ((),)))
    P[r'<snap::write::FrameEncoder<Vec<u8>> as std::io::Write>::flush'] = lambda se, env, pc, e: lib.one(env, Enum('Ok', ((),)))
    P[r'snap::write::FrameEncoder::into_inner'] = lambda se, env, pc, e: lib.one(env, Enum('Ok', ({'len': comp[env['$state']['flush']], 'kind': 'compressed', 'off': bv(0)},)))
    P[r'Vec::new'] = lambda se, env, pc: lib.one(env, {'len': bv(0), 'kind': 'empty', 'off': bv(0)})
    P[r'crc::crc32::<impl Crc<u32>>::digest'] = lambda se, env, pc, c: lib.one(env, {'abstract': True, '__ty': 'Digest'})
    P[r'crc::crc32::<impl Digest<.*>>::update'] = lib.unit
    P[r'crc::crc32::<impl Digest<.*>>::finalize'] = lambda se, env, pc, d: lib.one(env, BitVec('crc', 32))
    P[r'mask_checksum'] = lambda se, env, pc, c: lib.one(env, BitVec('masked', 32))
    P[r'<u32 as FixedInt>::encode_fixed_vec'] = lambda se, env, pc, x: lib.one(env, {'len': bv(4), 'kind': 'u32', 'off': bv(0)})
    def notify(se, env, pc, fb, off):
        add(env, ('notify', off)); return [(None, (), env['$state'])]
    P[r'FilterBlockBuilder::notify_new_data_block'] = notify
    P[r'<Result<.*> as FromResidual<Result<Infallible, .*>>>::from_residual'] = lambda se, env, pc, r: lib.one(env, r)
    ex = Exec(mir, S, loop_bound=4)
    hf = mir.struct_fields('BlockHandle'); tf = mir.struct_fields('TableBuilder')
    def first(ret1, env1, pc1):
        e = dict(env1); st = dict(e['$state']); st['flush'] = 1; e['$state'] = st
        def second(ret2, env2, pc2):
            evs = env2['$state']['events']
            posts = []
            ok = all(isinstance(r, Enum) and r.tag == 'Ok' and isinstance(r.fields[0], Enum) and r.fields[0].tag == 'Some' for r in (ret1, ret2))
            posts.append(('flushing a non-empty data block does not return its handle', BoolVal(ok)))
            if ok:
                h1, h2 = ret1.fields[0].fields[0], ret2.fields[0].fields[0]
                notes = [e_[1] for e_ in evs if e_[0] == 'notify']
                posts.append(('the filter block builder is not told about every flushed block', BoolVal(len(notes) == 2)))
                written = []; acc = bv(0)
                # bytes written per flush = everything between the notifies
                idx = [i for i, e_ in enumerate(evs) if e_[0] == 'notify']
                seg1 = [e_[1] for e_ in evs[:idx[0]] if e_[0] == 'write'] if idx else []
                seg2 = [e_[1] for e_ in evs[idx[0] + 1:idx[1]] if e_[0] == 'write'] if len(idx) > 1 else []
                w1 = sum(seg1[1:], seg1[0]) if seg1 else bv(0); w2 = sum(seg2[1:], seg2[0]) if seg2 else bv(0)
                posts.append(('the first block handle does not start at the file offset before the write', h1[hf.index('offset')] == off0))
                posts.append(('a block handle size plus the 5-byte descriptor differs from the bytes written for the block', And(h1[hf.index('size')] + bv(5) == w1, h2[hf.index('size')] + bv(5) == w2)))
                posts.append(('the second block handle does not start where the first block (with its descriptor) ends', h2[hf.index('offset')] == off0 + w1))
                if len(notes) == 2:
                    posts.append(('the offset announced to the filter block builder differs from the offset of the next data block (its keys are filed under another filter)', notes[0] == h2[hf.index('offset')]))
                    posts.append(('the offset announced to the filter block builder after the second flush is not the end of the file', notes[1] == off0 + w1 + w2))
                posts.append(('current_offset after the flushes is not the number of bytes written', ex.deref(env2, Ref('$tb'))[tf.index('current_offset')] == off0 + w1 + w2))
            for label, post in posts:
                ex.record_formula(label, pc2, Not(post))
                m = ex.model(Not(post))
                if m is not None: res.violations.append({'label': label, 'model': {'file_offset': mval(m, off0), 'block_len': [mval(m, x) for x in raw], 'compressed_len': [mval(m, x) for x in comp]}, 'replay': ['table_filter_sweep']})
            res.cases['two flushes'] = res.cases.get('two flushes', 0) + 1
        ex.run_fn(fn, [Ref('$tb')], e, pc1, second)
    tb = mir.mk_struct('TableBuilder', options={'abstract': True}, file_closed=BoolVal(False), file='file', file_number=bv(1), current_offset=off0,
                       data_block_builder={'abstract': True, '__ty': 'BlockBuilder'}, index_block_builder={'abstract': True, '__ty': 'BlockBuilder'},
                       filter_block_builder={'abstract': True, '__ty': 'FilterBlockBuilder'}, num_entries=bv(0), maybe_last_key_added=Enum('None'))
    env = {'$state': {'events': [], 'flush': 0}, '$tb': tb}
    ex.top(fn, [Ref('$tb')], env, pre, first)
    res.absorb(ex)
    for pc, msg, where in ex.panics:
        if 'overflow' in msg or 'subtract' in msg: continue          # arithmetic on unconstrained sizes
        res.panic_paths += 1; res.violations.append({'label': 'panic path: ' + msg[:80], 'replay': None})
    res.wall_s = time.time() - t0
    if res.violations: res.status = 'violation'
    return res


def o8_6_flush_faults(mir, tier):
    """One data-block flush (flush_data_block with write_block and emit_block_to_disk inlined) in which each of the three file writes
    (contents, compression byte, checksum) and the file flush is free to fail: the call returns Ok exactly when every step
    succeeded; nothing more is written to the file after a failed step; the filter block builder is told about the block only
    when it was written completely."""
    fn = mir.method('TableBuilder', 'flush_data_block')
    res = Result('O8.6 a failed write while flushing a data block is reported', [fn.path, 'TableBuilder::write_block (inlined)', 'TableBuilder::emit_block_to_disk (inlined)'],
                 'one flush; the three file writes and the file flush each free to fail; sizes free; snappy encoder and block builder by contract')
    t0 = time.time()
    S = lib.std_summaries(); P = S['$patterns']
    off0 = BitVec('file_offset', 64); raw = BitVec('block_len', 64); comp = BitVec('compressed_len', 64)
    pre = [ULT(off0, bv(1 << 40)), UGE(raw, bv(8)), ULT(raw, bv(1 << 30)), UGE(comp, bv(1)), ULT(comp, bv(1 << 30))]
    oks = [Bool('write%d_ok' % i) for i in range(3)]; fl_ok = Bool('file_flush_ok')
    def add(env, ev):
        st = dict(env['$state']); st['events'] = st['events'] + [ev]; env['$state'] = st; return st
    P[r'BlockBuilder::is_empty'] = lambda se, env, pc, b: lib.one(env, BoolVal(False))
    P[r'BlockBuilder::finalize'] = lambda se, env, pc, b: lib.one(env, {'len': raw, 'kind': 'block', 'off': bv(0)})
    P[r'BlockBuilder::reset'] = lib.unit
    def io_err(): return Enum('Err', (Opaque('io error'),))
    def file_flush(se, env, pc, f):
        st = add(env, ('flush',))
        return [(fl_ok, Enum('Ok', ((),)), st), (Not(fl_ok), io_err(), st)]
    P[r'<Box<dyn RandomAccessFile> as std::io::Write>::flush'] = file_flush
    def write_all(se, env, pc, f, data):
        n = len([e for e in env['$state']['events'] if e[0] == 'write'])
        st = add(env, ('write', n))
        if n >= 3: return [(None, Enum('Ok', ((),)), st)]
        return [(oks[n], Enum('Ok', ((),)), st), (Not(oks[n]), io_err(), st)]
    P[r'<Box<dyn RandomAccessFile> as std::io::Write>::write_all'] = write_all
    # a plain `write` may accept fewer bytes than it was given (the Write contract): the accepted count is free in 0..=len
    def write_partial(se, env, pc, f, data):
        d = se.deref(env, data) if isinstance(data, Ref) else data
        ln = d['len'] if isinstance(d, dict) and 'len' in d else None
        if ln is None: raise Inconclusive('write of %r' % (d,))
        acc = BitVec('bytes_accepted_%d' % len(env['$state']['events']), 64)
        st = add(env, ('partial_write', ln, acc))
        return [(ULE(acc, ln), Enum('Ok', (acc,)), st)]
    P[r'<Box<dyn RandomAccessFile> as std::io::Write>::write'] = write_partial
    def buf_len(se, env, v):
        b = se.deref(env, v) if isinstance(v, Ref) else v
        return b['len'] if isinstance(b, dict) and 'len' in b else (bv(len(b)) if isinstance(b, list) else None)
    def buf_extend(se, env, pc, v, src):
        b = dict(se.deref(env, v)); n = buf_len(se, env, src)
        if n is None: raise Inconclusive('extend with %r' % (src,))
        b['len'] = b['len'] + n; se.store(env, v, b); return lib.one(env, ())
    P[r'<Vec<u8> as Extend<.*>>::extend'] = buf_extend; P[r'Vec::extend_from_slice'] = buf_extend
    def buf_push(se, env, pc, v, x):
        b = dict(se.deref(env, v)); b['len'] = b['len'] + bv(1); se.store(env, v, b); return lib.one(env, ())
    P[r'Vec::push'] = buf_push
    P[r'Vec::with_capacity'] = lambda se, env, pc, n: lib.one(env, {'len': bv(0), 'kind': 'assembled', 'off': bv(0)})
    P[r'Vec::len'] = lambda se, env, pc, v: lib.one(env, buf_len(se, env, v))
    P[r'<Vec<u8> as Deref>::deref'] = lib.ident
    P[r'snap::write::FrameEncoder::new'] = lambda se, env, pc, v: lib.one(env, {'abstract': True, '__ty': 'FrameEncoder'})
    P[r'<snap::write::FrameEncoder<Vec<u8>> as std::io::Write>::write_all'] = lambda se, env, pc, e, d: lib.one(env, Enum('Ok', ((),)))
    P[r'<snap::write::FrameEncoder<Vec<u8>> as std::io::Write>::flush'] = lambda se, env, pc, e: lib.one(env, Enum('Ok', ((),)))
    P[r'snap::write::FrameEncoder::into_inner'] = lambda se, env, pc, e: lib.one(env, Enum('Ok', ({'len': comp, 'kind': 'compressed', 'off': bv(0)},)))
    P[r'Vec::new'] = lambda se, env, pc: lib.one(env, {'len': bv(0), 'kind': 'empty', 'off': bv(0)})
    P[r'crc::crc32::<impl Crc<u32>>::digest'] = lambda se, env, pc, c: lib.one(env, {'abstract': True, '__ty': 'Digest'})
    P[r'crc::crc32::<impl Digest<.*>>::update'] = lib.unit
    P[r'crc::crc32::<impl Digest<.*>>::finalize'] = lambda se, env, pc, d: lib.one(env, BitVec('crc', 32))
    P[r'mask_checksum'] = lambda se, env, pc, c: lib.one(env, BitVec('masked', 32))
    P[r'<u32 as FixedInt>::encode_fixed_vec'] = lambda se, env, pc, x: lib.one(env, {'len': bv(4), 'kind': 'u32', 'off': bv(0)})
    def notify(se, env, pc, fb, off):
        st = add(env, ('notify',)); return [(None, (), st)]
    P[r'FilterBlockBuilder::notify_new_data_block'] = notify
    ex = Exec(mir, S, loop_bound=4, opaque_calls_ok=True)
    def k(ret, env, pc):
        evs = env['$state']['events']; kinds = [e[0] for e in evs]
        ok = isinstance(ret, Enum) and ret.tag == 'Ok'
        nw = kinds.count('write')
        executed_ok = And(*([oks[i] for i in range(min(nw, 3))] + ([fl_ok] if 'flush' in kinds else [])))
        complete = nw >= 3 and 'flush' in kinds
        posts = [('flushing a data block reports success although a write of the block (or the file flush) failed - the table is installed without the block, or with a torn one',
                  Or(BoolVal(not ok), And(BoolVal(complete), executed_ok))),
                 ('flushing a data block fails although every step succeeded', Or(BoolVal(ok), Not(And(BoolVal(complete), executed_ok)))),
                 ('the file is written to after a failed write of the same block', BoolVal(True) if nw == 0 else And(*[Or(oks[i], BoolVal(nw <= i + 1)) for i in range(min(nw, 3))])),
                 ('the filter block builder is told about a block that was not written completely', Or(BoolVal('notify' not in kinds), And(BoolVal(complete), executed_ok)))]
        partial = [e for e in evs if e[0] == 'partial_write']
        if partial:
            posts = [('a block is written with a plain write whose accepted byte count is ignored: after a short write the file offset the builder keeps is ahead of the file (every later block handle, the index and the footer point at the wrong bytes)',
                      Or(BoolVal(not ok), And(*[e[2] == e[1] for e in partial])))]
        res.cases[','.join(kinds) + (' Ok' if ok else ' Err')] = 1
        for label, post, m in ex.check_posts(posts, pc):
            res.violations.append({'label': label, 'events': kinds, 'model': {str(x): mval(m, x) for x in oks + [fl_ok]}, 'replay': ['short_write_flush'] if 'plain write' in label else ['table_write_transient_fault_sweep']})
    tb = mir.mk_struct('TableBuilder', options={'abstract': True}, file_closed=BoolVal(False), file='file', file_number=bv(1), current_offset=off0,
                       data_block_builder={'abstract': True, '__ty': 'BlockBuilder'}, index_block_builder={'abstract': True, '__ty': 'BlockBuilder'},
                       filter_block_builder={'abstract': True, '__ty': 'FilterBlockBuilder'}, num_entries=bv(0), maybe_last_key_added=Enum('None'))
    ex.top(fn, [Ref('$tb')], {'$state': {'events': []}, '$tb': tb}, pre, k)
    res.absorb(ex)
    for pc, msg, where in ex.panics:
        if 'overflow' in msg or 'subtract' in msg: continue
        res.panic_paths += 1; res.violations.append({'label': 'panic path: ' + msg[:80], 'replay': None, 'confirmed_by': {'reproduced': False, 'detail': 'no native scenario'}})
    res.wall_s = time.time() - t0
    if res.violations: res.status = 'violation'
    return res


def o8_6_confirm(v, out):
    if out.get('_rc') != 0: return (False, 'native run failed: %s' % out.get('_stderr', '')[-300:])
    if v['replay'][0] == 'short_write_flush':
        return (out.get('flushed') != 'true' or out.get('wrong') != '0', 'native: table files accept at most 512 bytes per write call: the flush of 300 entries %s, %s table file(s), %s keys unreadable or wrong' % ('succeeded' if out.get('flushed') == 'true' else 'FAILED', out.get('tables'), out.get('wrong')))
    return (out.get('bad', '0') != '0', 'native: a flush during which exactly one write to the table file fails (%s positions tried): %s position(s) leave acknowledged keys with an older value / not found (first: %s)'
            % (out.get('cases'), out.get('bad'), out.get('first_bad')))


def o14_3_confirm(v, out):
    """Native: tables with 300 keys, 512-byte blocks and value lengths 1..=48 are built with the real TableBuilder (Bloom policy
    on) and every stored key is looked up with the real Table::get."""
    if out.get('_rc') != 0: return (False, 'native run failed: %s' % out.get('_stderr', '')[-300:])
    return (out.get('missing', '0') != '0', 'native sweep: %s stored keys reported absent (first: %s)' % (out.get('missing'), out.get('first_missing')))


def o14_2_filter_index(mir, tier):
    """FilterBlockBuilder::notify_new_data_block and FilterBlockReader::key_may_match compute the same filter index from a block
    offset (offset / 2^11 vs offset / 2^stored exponent), for every 64-bit offset."""
    nb = mir.method('FilterBlockBuilder', 'notify_new_data_block')
    km = mir.method('FilterBlockReader', 'key_may_match')
    res = Result('O14.2 filter index agreement between builder and reader', [nb.path, km.path],
                 'block offset free (64 bit); builder with k <= 3 filters generated so far; reader with 4 filters whose stored exponent is the builder constant')
    t0 = time.time()
    off = BitVec('block_offset', 64)
    S = lib.std_summaries(); P = S['$patterns']
    def gen(se, env, pc, b):
        st = dict(env['$state']); st['generated'] += 1; env['$state'] = st
        r = base = b
        bd = se.deref(env, b); ff = mir.field('FilterBlockBuilder', 'filters')
        se.store(env, Ref(lib.base_ref(se, env, b).local, lib.base_ref(se, env, b).path + (ff,)), bd[ff] + [{'len': bv(8), 'kind': 'filter'}])
        return [(None, (), env['$state'])]
    P[r'FilterBlockBuilder::generate_filter'] = gen
    # builder: after notify(offset) with `have` filters already generated, filters.len() == max(have, offset / 2048)
    for have in (0, 1, 3):
        ex = Exec(mir, S, loop_bound=8)
        fb = mir.mk_struct('FilterBlockBuilder', filter_policy='policy', keys=[], filters=[{'len': bv(8), 'kind': 'filter'}] * have)
        pre = [ULT(off, bv(6 * 2048))]
        def k(ret, env, pc, ex=ex, have=have):
            n = len(ex.deref(env, Ref('$fb'))[mir.field('FilterBlockBuilder', 'filters')])
            idx = LShR(off, bv(11))
            post = bv(n) == If(UGT(idx, bv(have)), idx, bv(have))
            label = 'after notify_new_data_block(offset) the number of generated filters is not max(previous, offset >> 11)'
            ex.record_formula(label, pc, Not(post))
            m = ex.model(Not(post))
            if m is not None: res.violations.append({'label': label, 'offset': mval(m, off), 'filters': n, 'replay': ['filter_block_offsets', str(mval(m, off))]})
            res.cases['builder have=%d -> %d' % (have, n)] = 1
        ex.top(nb, [Ref('$fb'), off], {'$state': {'generated': 0}, '$fb': fb}, pre, k)
        res.absorb(ex)
    # reader: key_may_match(offset, key) consults filter number offset >> exponent (exponent 11 as written by the builder)
    S2 = lib.std_summaries(); P2 = S2['$patterns']
    def pol(se, env, pc, p, key, filt):
        st = dict(env['$state']); st['asked'] = st['asked'] + [se.deref(env, filt) if isinstance(filt, Ref) else filt]; return [(None, Enum('Ok', (Bool('policy_answer'),)), st)]
    P2[r'<dyn FilterPolicy as FilterPolicy>::key_may_match'] = pol
    P2[r'<Arc<dyn FilterPolicy> as Deref>::deref'] = lib.ident
    P2[r'<Vec<u8> as Deref>::deref'] = lib.ident
    ex = Exec(mir, S2, loop_bound=4)
    filters = [{'len': bv(8), 'kind': 'filter', 'id': i} for i in range(4)]
    fr = mir.mk_struct('FilterBlockReader', filter_policy='policy', filters=filters, encoded_range_size_exponent=BitVecVal(11, 8), offsets=[])
    def k2(ret, env, pc):
        asked = env['$state']['asked']
        idx = LShR(off, bv(11))
        if asked:
            post = idx == bv(asked[0]['id'])
            label = 'the reader consults another filter than number offset >> 11'
        else:
            post = Or(UGE(idx, bv(4)), BoolVal(False)); label = 'the reader skips the filter although the offset maps to an existing one'
        ex.record_formula(label, pc, Not(post))
        m = ex.model(Not(post))
        if m is not None: res.violations.append({'label': label, 'offset': mval(m, off), 'replay': ['filter_block_offsets', str(mval(m, off))]})
        res.cases['reader asked %s' % ([a['id'] for a in asked],)] = 1
    try:
        ex.top(km, [Ref('$fr'), off, {'len': BitVec('klen', 64), 'kind': 'key'}], {'$state': {'asked': []}, '$fr': fr}, [ULT(off, bv(6 * 2048))], k2)
    except Inconclusive as e:
        if 'symbolic index' not in str(e) and 'concrete integer' not in str(e): raise
        # the reader indexes its filter vector with the symbolic quotient: enumerate the quotient
        for q in range(0, 6):
            ex = Exec(mir, S2, loop_bound=4)
            ex.top(km, [Ref('$fr'), off, {'len': BitVec('klen', 64), 'kind': 'key'}], {'$state': {'asked': []}, '$fr': fr}, [LShR(off, bv(11)) == bv(q)], k2)
            res.absorb(ex)
        ex = None
    if ex is not None: res.absorb(ex)
    # offsets at and beyond 4 GiB (max_file_size is a configurable u64): the quotient is far beyond the four filters the reader holds, so
    # no filter may be consulted - an index computed in 32 bits wraps around to an early filter
    for q in range(0, 4):
        ex = Exec(mir, S2, loop_bound=4)
        try:
            ex.top(km, [Ref('$fr'), off, {'len': BitVec('klen', 64), 'kind': 'key'}], {'$state': {'asked': []}, '$fr': fr},
                   [UGE(off, bv(1 << 32)), ULT(off, bv(1 << 45)), LShR(ZeroExt(32, Extract(31, 0, off)), bv(11)) == bv(q)], k2)
        except Inconclusive as e:
            if 'symbolic index' not in str(e) and 'concrete integer' not in str(e): raise
            res.status = 'inconclusive'; res.reason = 'reader with an offset beyond 4 GiB: %s' % e
        res.absorb(ex)
    res.cases['reader, offsets >= 4 GiB'] = 4
    res.wall_s = time.time() - t0
    if res.violations: res.status = 'violation'
    return res


def o14_2_confirm(v, out):
    """Native: filter block built for data blocks at 0, the model's offset and beyond; every key asked with its block's offset."""
    if out.get('_rc') != 0: return (False, 'native run failed: %s' % out.get('_stderr', '')[-300:])
    if out.get('answers') == 'unreadable': return (True, 'native: the filter block written for a block at offset %s cannot be read back' % v.get('offset'))
    return (out.get('rejected', '0') != '0', 'native: the filter block rejects %s of %s stored keys with a data block at offset %s (first: %s)' % (out.get('rejected'), out.get('answers'), v.get('offset'), out.get('first_rejected')))


def o14_4_builder_new(mir, tier):
    """TableBuilder::new: the builder's notion of the file offset (current_offset, from which every block handle is computed)
    equals the length of the file it writes to.  File system contract: create_file(path, append) leaves the old length when
    appending to an existing file (free value, a leftover of a crashed build with the same number) and 0 bytes otherwise."""
    fn = mir.method('TableBuilder', 'new')
    res = Result('O14.4 TableBuilder::new starts at the end of an empty file', [fn.path],
                 'length of a leftover file with the same number free (64 bit); create_file succeeds or fails (free); block builders / filter builder by contract')
    t0 = time.time()
    S = lib.std_summaries(); P = S['$patterns']
    leftover, create_ok = BitVec('leftover_len', 64), Bool('create_ok')
    P[r'DbOptions::db_path'] = lambda se, env, pc, o: lib.one(env, {'str': 'db'})
    P[r'DbOptions::filesystem_provider'] = lambda se, env, pc, o: lib.one(env, {'abstract': True, '__ty': 'fs'})
    P[r'DbOptions::filter_policy'] = lambda se, env, pc, o: lib.one(env, {'abstract': True, '__ty': 'policy'})
    P[r'FileNameHandler::new'] = lambda se, env, pc, s: lib.one(env, {'abstract': True, '__ty': 'FileNameHandler'})
    P[r'FileNameHandler::get_table_file_path'] = lambda se, env, pc, h, n: lib.one(env, {'path': 'table', 'num': n})
    P[r'<PathBuf as Deref>::deref'] = lib.ident
    def create(se, env, pc, fs, path, app):
        st = dict(env['$state']); st['created'] = st['created'] + [(se.deref(env, path) if isinstance(path, Ref) else path, app)]
        return [(create_ok, Enum('Ok', ({'abstract': True, '__ty': 'file'},)), st), (Not(create_ok), Enum('Err', ({'kind': 'Other', '__ty': 'io::Error'},)), st)]
    P[r'<dyn FileSystem as FileSystem>::create_file'] = create
    P[r'FilterBlockBuilder::new'] = lambda se, env, pc, p: lib.one(env, {'abstract': True, '__ty': 'FilterBlockBuilder'})
    P[r'BlockBuilder::new'] = lambda se, env, pc, n: lib.one(env, {'abstract': True, '__ty': 'BlockBuilder'})
    P[r'<TableBuildError as From<.*>>::from'] = lambda se, env, pc, e: lib.one(env, Enum('IO', (e,), 'TableBuildError'))
    P[r'<Result<.*> as FromResidual<Result<Infallible, .*>>>::from_residual'] = lambda se, env, pc, r: lib.one(env, r)
    ex = Exec(mir, S, loop_bound=3, opaque_calls_ok=True)
    tf = mir.struct_fields('TableBuilder'); num = BitVec('file_number', 64)
    def k(ret, env, pc):
        ok = isinstance(ret, Enum) and ret.tag == 'Ok'
        created = env['$state']['created']
        posts = [('TableBuilder::new succeeds although the file could not be created (or the reverse)', BoolVal(ok) == create_ok),
                 ('TableBuilder::new does not create exactly one file', BoolVal(len(created) == 1))]
        if ok and len(created) == 1:
            b = ret.fields[0]; path, app = created[0]
            app = app if not isinstance(app, bool) else BoolVal(app)
            file_len = If(app, leftover, bv(0))
            posts.append(('the table file is not the one named after the file number', BoolVal(isinstance(path, dict) and path.get('path') == 'table') if not (isinstance(path, dict) and 'num' in path) else path['num'] == num))
            posts.append(('the builder offset differs from the length of the file it writes to (block handles will not point at the written bytes)', b[tf.index('current_offset')] == file_len))
            posts.append(('the builder does not carry the file number it was given', b[tf.index('file_number')] == num))
        res.cases['Ok' if ok else 'Err'] = 1
        for label, post in posts:
            ex.record_formula(label, pc, Not(post))
            m = ex.model(Not(post))
            if m is not None:
                res.violations.append({'label': label, 'model': {'leftover_len': mval(m, leftover)}, 'replay': ['table_rebuild'] if 'offset differs' in label else None,
                                       'confirmed_by': None if 'offset differs' in label else {'reproduced': False, 'detail': 'no native scenario for this label'}})
    env = {'$state': {'created': []}}
    ex.top(fn, [{'abstract': True, '__ty': 'DbOptions'}, num], env, [], k)
    res.absorb(ex)
    for pc, msg, where in ex.panics:
        res.panic_paths += 1; res.violations.append({'label': 'panic path: ' + msg[:80], 'replay': None, 'confirmed_by': {'reproduced': False, 'detail': 'no native scenario'}})
    res.wall_s = time.time() - t0
    if res.violations: res.status = 'violation'
    return res


def o14_4_confirm(v, out):
    """Native: table 1 is built, then built again with other contents (a leftover file with the same number exists); a key of the
    second build must be found."""
    if out.get('_rc') != 0: return (False, 'native run failed: %s' % out.get('_stderr', '')[-300:])
    return (out.get('second_build_get') != 'Ok(Some)', 'a key of the rebuilt table reads %s (file length %s after the first build, %s after the second)' % (out.get('second_build_get'), out.get('len1'), out.get('len2')))


def o14_5_add_entry(mir, tier):
    """Two consecutive TableBuilder::add_entry calls with free keys k1 < k2 (the user keys may be equal: two versions of one key).
    The block builders, the filter block builder and flush_data_block are by contract (events).  Reference, per call: every entry
    is added to the data block and its user key to the filter block - unconditionally; when the pending block is full it is
    flushed BEFORE the entry and its filter key are added (so the key is filed under the block that will hold it); an index entry
    is written iff the flush produced a block handle, with that handle."""
    from ..ob import World, klt
    fn = mir.method('TableBuilder', 'add_entry')
    res = Result('O14.5 TableBuilder::add_entry', [fn.path], 'two entries with free keys k1 < k2 (equal user keys allowed); block-full test, flush outcome (handle / nothing / error) free per call')
    t0 = time.time()
    w = World(mir)
    keys = [w.key('k1'), w.key('k2')]; K = [w.K(k) for k in keys]
    full = [Bool('block_full_%d' % i) for i in range(2)]; fl = [BitVec('flush_outcome_%d' % i, 8) for i in range(2)]
    pre = list(w.pre) + [klt(K[0], K[1])] + [ULE(x, BitVecVal(2, 8)) for x in fl]
    S = lib.std_summaries(); P = S['$patterns']
    S['$patterns'].update(lib.ref_partial_ord(mir, 'InternalKey'))
    def ev(env, e):
        st = dict(env['$state']); st['events'] = st['events'] + [e]; env['$state'] = st; return st
    def cur(env): return env['$state']['call']
    P[r'BlockBuilder::approximate_size'] = lambda se, env, pc, b: lib.one(env, If(full[cur(env)], bv(4096), bv(0)))
    P[r'DbOptions::max_block_size'] = lambda se, env, pc, o: lib.one(env, bv(4096))
    def flush(se, env, pc, tb):
        i = cur(env); st = ev(env, ('flush', i))
        h = mir.mk_struct('BlockHandle', offset=BitVec('handle_off_%d' % i, 64), size=BitVec('handle_size_%d' % i, 64))
        return [(fl[i] == 0, Enum('Ok', (Enum('Some', (h,)),)), st), (fl[i] == 1, Enum('Ok', (Enum('None'),)), st), (fl[i] == 2, Enum('Err', (Enum('IO', (Opaque('e'),), 'TableBuildError'),)), st)]
    P[r'TableBuilder::flush_data_block'] = flush
    def P_(se, env, v):
        v = se.deref(env, v) if isinstance(v, Ref) else v
        while isinstance(v, Ref): v = se.deref(env, v)
        return v
    def badd(se, env, pc, b, key, val):
        which = P_(se, env, b).get('__which', '?')
        st = ev(env, (which + '.add_entry', P_(se, env, key), P_(se, env, val))); return [(None, (), st)]
    P[r'BlockBuilder::add_entry'] = badd
    def fadd(se, env, pc, fb, key):
        st = ev(env, ('filter.add_key', P_(se, env, key))); return [(None, (), st)]
    P[r'FilterBlockBuilder::add_key'] = fadd
    P[r'<Rc<InternalKey> as Clone>::clone'] = lib.ident
    P[r'Rc::clone'] = lib.ident
    P[r'Rc::new'] = lib.ident
    P[r'<Rc<.*> as (?:Deref|AsRef<.*>)>::(?:deref|as_ref)'] = lib.ptr_deref
    uk = mir.field('InternalKey', 'user_key')
    P[r'InternalKey::get_user_key'] = lambda se, env, pc, k: lib.one(env, P_(se, env, k)[uk])
    P[r'(?:core|std)::slice::<impl \[u8\]>::to_vec'] = lib.ident
    P[r'<InternalKey as BinarySeparable>::find_shortest_separator'] = lambda se, env, pc, a, b: lib.one(env, {'separator_of': (P_(se, env, a), P_(se, env, b))})
    P[r'<&InternalKey as BinarySeparable>::find_shortest_separator'] = P[r'<InternalKey as BinarySeparable>::find_shortest_separator']
    P[r'BinarySeparable::find_shortest_separator'] = P[r'<InternalKey as BinarySeparable>::find_shortest_separator']
    P[r'<InternalKey as TryFrom<Vec<u8>>>::try_from'] = lambda se, env, pc, v: lib.one(env, Enum('Ok', (v,)))
    P[r'<Vec<u8> as From<&BlockHandle>>::from'] = lambda se, env, pc, h: lib.one(env, {'encoded_handle': P_(se, env, h)})
    P[r'<Result<.*> as FromResidual<Result<Infallible, .*>>>::from_residual'] = lambda se, env, pc, r: lib.one(env, r)
    ex = Exec(mir, S, loop_bound=4, opaque_calls_ok=True)
    tf = mir.struct_fields('TableBuilder'); hf = mir.struct_fields('BlockHandle')
    def call(i, rets, env, pc):
        e = dict(env); st = dict(e['$state']); st['call'] = i; st['events'] = st['events'] + [('call', i)]; e['$state'] = st
        def k(r, e2, p2):
            if i == 1 or not (isinstance(r, Enum) and r.tag == 'Ok'): return finish(rets + [r], e2, p2)
            call(i + 1, rets + [r], e2, p2)
        args = [Ref('$tb'), keys[i], {'len': BitVec('vlen%d' % i, 64), 'kind': 'value%d' % i}]
        if i == 0: ex.top(fn, args, e, pre, k)
        else: ex.run_fn(fn, args, e, pc, k)
    def finish(rets, env, pc):
        evs = env['$state']['events']; posts = []
        # split the events per call
        per = []; curl = None
        for e in evs:
            if e[0] == 'call': curl = []; per.append(curl)
            else: curl.append(e)
        for i, ret in enumerate(rets):
            mine = per[i]; kinds = [e[0] for e in mine]
            ok = isinstance(ret, Enum) and ret.tag == 'Ok'
            posts.append(('add_entry succeeds although flushing the full block failed (or fails without a failed flush)', BoolVal(ok) == Not(And(full[i], fl[i] == 2))))
            posts.append(('a full data block is not flushed before the next entry is added (or a block is flushed that is not full)', full[i] == BoolVal('flush' in kinds)))
            if ok:
                d = [e for e in mine if e[0] == 'data.add_entry']; f = [e for e in mine if e[0] == 'filter.add_key']; ix = [e for e in mine if e[0] == 'index.add_entry']
                posts.append(('the entry is not added to the data block exactly once', BoolVal(len(d) == 1 and d[0][1] is not None and d[0][1] == P_(ex, env, keys[i]))))
                posts.append(('the user key of an entry is not added to the filter block (every entry, also a further version of the previous user key, must be filed under the block that holds it)',
                              BoolVal(len(f) == 1) if len(f) != 1 else f[0][1] == K[i][0]))
                if 'flush' in kinds:
                    order_ok = kinds.index('flush') < min([kinds.index('data.add_entry')] if d else [99]) and kinds.index('flush') < min([kinds.index('filter.add_key')] if f else [99])
                    posts.append(('the entry or its filter key is added before the full block was flushed (the key is filed under the wrong block)', BoolVal(order_ok)))
                posts.append(('an index entry is written without a flushed block, or a flushed block gets no index entry', And(full[i], fl[i] == 0) == BoolVal(len(ix) == 1)))
                if len(ix) == 1:
                    hnd = ix[0][2].get('encoded_handle') if isinstance(ix[0][2], dict) else None
                    posts.append(('the index entry does not carry the handle of the block that was just flushed', And(hnd[hf.index('offset')] == BitVec('handle_off_%d' % i, 64), hnd[hf.index('size')] == BitVec('handle_size_%d' % i, 64)) if hnd else BoolVal(False)))
                    sep = ix[0][1].get('separator_of') if isinstance(ix[0][1], dict) else None
                    posts.append(('the index key is not a separator between the last key of the flushed block and the new key', BoolVal(sep is not None and i == 1 and sep[0] == P_(ex, env, keys[0]) and sep[1] == P_(ex, env, keys[1]))))
        tb = ex.deref(env, Ref('$tb'))
        n_ok = len([r for r in rets if isinstance(r, Enum) and r.tag == 'Ok'])
        posts.append(('num_entries does not count the added entries', tb[tf.index('num_entries')] == bv(n_ok)))
        res.cases['calls=%d %s' % (len(rets), [[e[0] for e in c] for c in per])] = 1
        for label, post, m in ex.check_posts(posts, pc):
            rep = 'filter' in label
            res.violations.append({'label': label, 'events': [[e[0] for e in c] for c in per], 'model': {'same_user_key': mval(m, K[0][0] == K[1][0]), 'block_full': [mval(m, x) for x in full]},
                                   'replay': ['table_filter_versions'] if rep else None, 'confirmed_by': None if rep else {'reproduced': False, 'detail': 'no native scenario for this label'}})
    tb = mir.mk_struct('TableBuilder', options={'abstract': True, '__ty': 'DbOptions'}, file_closed=BoolVal(False), file='file', file_number=bv(1), current_offset=BitVec('off', 64),
                       data_block_builder={'abstract': True, '__ty': 'BlockBuilder', '__which': 'data'}, index_block_builder={'abstract': True, '__ty': 'BlockBuilder', '__which': 'index'},
                       filter_block_builder={'abstract': True, '__ty': 'FilterBlockBuilder'}, num_entries=bv(0), maybe_last_key_added=Enum('None'))
    env = {'$state': {'events': [], 'call': 0}, '$tb': tb}
    # first call: nothing pending, so the block cannot be full with a last key missing: the real builder only has a non-empty block after an add
    pre.append(Not(full[0]))
    call(0, [], env, [])
    res.absorb(ex)
    for pc, msg, where in ex.panics:
        res.panic_paths += 1; res.violations.append({'label': 'panic path: ' + msg[:80], 'replay': None, 'confirmed_by': {'reproduced': False, 'detail': 'no native scenario'}})
    res.wall_s = time.time() - t0
    if res.violations: res.status = 'violation'
    return res


def o14_5_confirm(v, out):
    """Native: tables whose user keys have 5 versions each with incompressible values of several lengths (versions of one key
    cross data-block and filter-range boundaries); every version is looked up with its own sequence bound."""
    if out.get('_rc') != 0: return (False, 'native run failed: %s' % out.get('_stderr', '')[-300:])
    return (out.get('missing', '0') != '0', 'native sweep: %s stored versions reported absent or wrong (first: %s)' % (out.get('missing'), out.get('first_missing')))


def o14_6_filter_keys(mir, tier):
    """FilterBlockBuilder: keys added with add_key (free lengths, the empty key included, equal neighbours allowed) are ALL handed to
    FilterPolicy::create_filter, in order, by the next generate_filter (reached through notify_new_data_block crossing a filter
    range, or through finalize); afterwards nothing is pending.  Byte strings are (length, content id) pairs compared by both."""
    add = mir.method('FilterBlockBuilder', 'add_key'); notify = mir.method('FilterBlockBuilder', 'notify_new_data_block'); fin = mir.method('FilterBlockBuilder', 'finalize')
    N = 2 if tier == 'quick' else 3
    res = Result('O14.6 FilterBlockBuilder hands every added key to the filter policy', [add.path, notify.path, fin.path, 'FilterBlockBuilder::generate_filter (inlined)'],
                 '1..%d keys with free lengths (0 allowed) and contents (equal neighbours allowed); flush through notify_new_data_block(2048) or finalize' % N)
    t0 = time.time()
    for n in range(1, N + 1):
        for how in ('notify', 'finalize'):
            S = lib.std_summaries(); P = S['$patterns']
            keys = [{'len': BitVec('klen%d' % i, 64), 'sym': BitVec('kid%d' % i, 16), 'kind': 'key'} for i in range(n)]
            pre = [ULT(k['len'], bv(64)) for k in keys] + [Implies(k['len'] == 0, k['sym'] == 0) for k in keys]
            def P_(se, env, v):
                v = se.deref(env, v) if isinstance(v, Ref) else v
                while isinstance(v, Ref): v = se.deref(env, v)
                return v
            def beq(neg):
                def f(se, env, pc, a, b):
                    x, y = P_(se, env, a), P_(se, env, b)
                    if not (isinstance(x, dict) and isinstance(y, dict) and 'sym' in x and 'sym' in y): raise Inconclusive('byte-string comparison of %r and %r' % (x, y))
                    e = And(x['len'] == y['len'], x['sym'] == y['sym'])
                    return lib.one(env, Not(e) if neg else e)
                return f
            for ty in (r'\[u8\]', r'Vec<u8>', r'&\[u8\]', r'&Vec<u8>', r'&&\[u8\]'):
                P[r'<%s as PartialEq(?:<.*>)?>::eq' % ty] = beq(False); P[r'<%s as PartialEq(?:<.*>)?>::ne' % ty] = beq(True)
            def starts_with(se, env, pc, a, b):
                # contents are abstract: equal strings and the empty needle are prefixes, a longer needle is not, anything else may be
                x, y = P_(se, env, a), P_(se, env, b)
                if not (isinstance(x, dict) and isinstance(y, dict) and 'sym' in x and 'sym' in y): raise Inconclusive('starts_with of %r and %r' % (x, y))
                se.nfree = getattr(se, 'nfree', 0) + 1; free = Bool('is_prefix_%d' % se.nfree)
                return lib.one(env, Or(And(x['len'] == y['len'], x['sym'] == y['sym']), y['len'] == 0, And(ULT(y['len'], x['len']), free)))
            P[r'core::slice::<impl \[.*\]>::starts_with'] = starts_with
            P[r'<Vec<u8> as Deref>::deref'] = lib.ident; P[r'Vec::as_slice'] = lib.ident; P[r'<Vec<u8> as DerefMut>::deref_mut'] = lib.ident
            P[r'<&\[u8\] as Default>::default'] = lambda se, env, pc: lib.one(env, {'len': bv(0), 'sym': BitVecVal(0, 16), 'kind': 'key'})
            P[r'<&\[.*\] as Default>::default'] = P[r'<&\[u8\] as Default>::default']
            P[r'Vec::is_empty'] = lambda se, env, pc, r: lib.one(env, (P_(se, env, r)['len'] == 0) if isinstance(P_(se, env, r), dict) else BoolVal(len(P_(se, env, r)) == 0))
            P[r'Vec::len'] = lambda se, env, pc, r: lib.one(env, P_(se, env, r)['len'] if isinstance(P_(se, env, r), dict) else bv(len(P_(se, env, r))))
            P[r'core::slice::<impl \[.*\]>::is_empty'] = P[r'Vec::is_empty']; P[r'core::slice::<impl \[.*\]>::len'] = P[r'Vec::len']
            def create(se, env, pc, pol, ks):
                lst = P_(se, env, ks)
                st = dict(env['$state']); st['filters'] = st['filters'] + [[P_(se, env, x) for x in lst]]
                return [(None, {'len': BitVec('flen%d' % len(st['filters']), 64), 'kind': 'filter', 'off': bv(0)}, st)]
            P[r'<dyn FilterPolicy as FilterPolicy>::create_filter'] = create
            P[r'<Arc<dyn FilterPolicy> as Deref>::deref'] = lib.ident
            P[r'<u32 as FixedInt>::encode_fixed_vec'] = lambda se, env, pc, x: lib.one(env, [])
            P[r'Vec::append'] = lib.unit; P[r'Vec::extend_from_slice'] = lib.unit; P[r'Vec::with_capacity'] = lambda se, env, pc, n: lib.one(env, [])
            ex = Exec(mir, S, loop_bound=n + 6, opaque_calls_ok=True)
            ff = mir.struct_fields('FilterBlockBuilder')
            def run_adds(i, env, pc, ex=ex, keys=keys, n=n, how=how):
                if i == n:
                    if how == 'notify': return ex.run_fn(notify, [Ref('$fb'), bv(2048)], env, pc, done)
                    return ex.run_fn(fin, [Ref('$fb')], env, pc, done)
                ex.run_fn(add, [Ref('$fb'), keys[i]], env, pc, lambda r, e2, p2: run_adds(i + 1, e2, p2))
            def done(ret, env, pc, ex=ex, keys=keys, n=n, how=how):
                fl = env['$state']['filters']; fb = ex.deref(env, Ref('$fb'))
                got = [k for f in fl for k in f]
                posts = [('a key added to the filter block builder is not handed to the filter policy (lookups of that key will be answered "not in this table")',
                          And(BoolVal(len(got) == n), *[And(got[i]['len'] == keys[i]['len'], got[i]['sym'] == keys[i]['sym']) for i in range(min(n, len(got)))])),
                         ('keys are still pending after the filter was generated', BoolVal(len(lib.the_list(ex, env, Ref('$fb', (ff.index('keys'),)))) == 0))]
                res.cases['%d keys, %s -> %d filter(s) over %s keys' % (n, how, len(fl), [len(f) for f in fl])] = 1
                for label, post, m in ex.check_posts(posts, pc):
                    res.violations.append({'label': label, 'keys': n, 'lengths': [mval(m, k['len']) for k in keys], 'equal_neighbours': [mval(m, And(keys[i]['len'] == keys[i + 1]['len'], keys[i]['sym'] == keys[i + 1]['sym'])) for i in range(n - 1)],
                                           'replay': ['table_edge_keys']})
            fb = mir.mk_struct('FilterBlockBuilder', filter_policy={'abstract': True, '__ty': 'policy'}, keys=[], filters=[])
            env = {'$state': {'filters': []}, '$fb': fb}
            ex.solver.push(); ex.solver.add(*pre)
            try: run_adds(0, env, list(pre))
            finally: ex.solver.pop()
            res.absorb(ex)
            for pcx, msg, where in ex.panics:
                res.panic_paths += 1; res.violations.append({'label': 'panic path: ' + msg[:80], 'replay': None, 'confirmed_by': {'reproduced': False, 'detail': 'no native scenario'}})
    res.wall_s = time.time() - t0
    if res.violations: res.status = 'violation'
    return res


def o14_6_confirm(v, out):
    """Native: tables with the empty user key, one-byte keys, repeated user keys and 0xff keys, block sizes 64 / 256 / 4096; every
    stored entry is looked up through Table::get (filter on)."""
    if out.get('_rc') != 0: return (False, 'native run failed: %s' % out.get('_stderr', '')[-300:])
    if v.get('replay', [''])[0] == 'table_write_transient_fault_sweep':
        return (out.get('bad', '0') != '0', 'native: a flush during which exactly one write to the table file fails (%s positions tried): %s position(s) leave acknowledged keys with an older value / not found (first: %s)'
                % (out.get('cases'), out.get('bad'), out.get('first_bad')))
    return (out.get('missing', '0') != '0', 'native: %s stored entries reported absent (first: %s)' % (out.get('missing'), out.get('first_missing')))


def o14_7_finalize(mir, tier):
    """TableBuilder::finalize with the block builders, flush_data_block, emit_block_to_disk, write_block (their contracts are O14.3)
    and the footer codec by contract (events; every fallible step free to fail).  Reference: the pending block is flushed first;
    it gets an index entry iff the flush returned a handle - with that handle and with the InternalKey-level shortest successor
    of the last key added (O13.1 shows it is >= that key; a key built any other way may sort before the last entry); then, in
    this order, the filter block (handle = offset before the write, length of its contents), the metaindex block (one entry:
    filter block name -> that handle), the index block and the footer (metaindex handle, index handle as returned by the writes);
    Ok iff every step succeeded; the builder is closed."""
    from ..ob import World
    fn = mir.method('TableBuilder', 'finalize')
    res = Result('O14.7 TableBuilder::finalize', [fn.path], 'pending block flushed to a handle / nothing / error (free); every write free to fail; offsets and lengths free (< 2^40)')
    t0 = time.time()
    w = World(mir); last = w.key('last_key')
    fl = BitVec('flush_outcome', 8); okb = {n: Bool(n + '_ok') for n in ('filter_write', 'metaindex_write', 'index_write', 'footer_encode', 'footer_write')}
    off0, flen = BitVec('offset_before_filter', 64), BitVec('filter_len', 64)
    pre = list(w.pre) + [ULE(fl, BitVecVal(2, 8)), ULT(off0, bv(1 << 40)), ULT(flen, bv(1 << 40))]
    S = lib.std_summaries(); P = S['$patterns']
    def ev(env, e):
        st = dict(env['$state']); st['events'] = st['events'] + [e]; env['$state'] = st; return st
    def P_(se, env, v):
        v = se.deref(env, v) if isinstance(v, Ref) else v
        while isinstance(v, Ref): v = se.deref(env, v)
        return v
    hf = mir.struct_fields('BlockHandle'); tf = mir.struct_fields('TableBuilder')
    H = lambda name: mir.mk_struct('BlockHandle', offset=BitVec(name + '_off', 64), size=BitVec(name + '_size', 64))
    def flush(se, env, pc, tb):
        st = ev(env, ('flush',))
        return [(fl == 0, Enum('Ok', (Enum('Some', (H('data'),)),)), st), (fl == 1, Enum('Ok', (Enum('None'),)), st), (fl == 2, Enum('Err', (Enum('IO', (Opaque('e'),), 'BuilderError'),)), st)]
    P[r'TableBuilder::flush_data_block'] = flush
    P[r'<&?InternalKey as BinarySeparable>::find_shortest_successor'] = lambda se, env, pc, k: lib.one(env, {'ikey_successor_of': P_(se, env, k)})
    P[r'<(?:\[u8\]|&\[u8\]|Vec<u8>|&Vec<u8>) as BinarySeparable>::find_shortest_successor'] = lambda se, env, pc, k: lib.one(env, {'bytes_successor_of': P_(se, env, k)})
    P[r'<InternalKey as TryFrom<Vec<u8>>>::try_from'] = lambda se, env, pc, v: lib.one(env, Enum('Ok', (v,)))
    P[r'InternalKey::new_for_seeking'] = lambda se, env, pc, uk, seq: lib.one(env, {'seek_key': (uk, seq)})
    P[r'InternalKey::new'] = lambda se, env, pc, uk, seq, op: lib.one(env, {'built_key': (uk, seq, op)})
    uk = mir.field('InternalKey', 'user_key')
    P[r'InternalKey::get_user_key'] = lambda se, env, pc, k: lib.one(env, P_(se, env, k)[uk])
    P[r'Rc::new'] = lib.ident; P[r'<Rc<.*> as Clone>::clone'] = lib.ident; P[r'Rc::clone'] = lib.ident
    P[r'<Rc<.*> as (?:Deref|AsRef<.*>)>::(?:deref|as_ref)'] = lib.ptr_deref
    P[r'<Vec<u8> as From<&BlockHandle>>::from'] = lambda se, env, pc, h: lib.one(env, {'encoded_handle': P_(se, env, h)})
    P[r'<Vec<u8> as Deref>::deref'] = lib.ident
    def badd(se, env, pc, b, key, val):
        st = ev(env, (P_(se, env, b).get('__which', '?') + '.add_entry', P_(se, env, key), P_(se, env, val))); return [(None, (), st)]
    P[r'BlockBuilder::add_entry'] = badd
    P[r'BlockBuilder::new'] = lambda se, env, pc, ri: lib.one(env, {'abstract': True, '__ty': 'BlockBuilder', '__which': 'metaindex'})
    P[r'BlockBuilder::finalize'] = lambda se, env, pc, b: lib.one(env, {'len': BitVec(P_(se, env, b).get('__which', 'x') + '_len', 64), 'kind': P_(se, env, b).get('__which', '?') + ' block', 'off': bv(0)})
    P[r'BlockBuilder::reset'] = lib.unit
    P[r'FilterBlockBuilder::finalize'] = lambda se, env, pc, f: lib.one(env, {'len': flen, 'kind': 'filter block', 'off': bv(0)})
    def emit(se, env, pc, tb, contents, comp):
        c = P_(se, env, contents); st = ev(env, ('emit', c.get('kind'), P_(se, env, tb)[tf.index('current_offset')]))
        t = dict(P_(se, env, tb)); t[tf.index('current_offset')] = t[tf.index('current_offset')] + c['len'] + bv(5)
        return [(okb['filter_write'], Enum('Ok', ((),)), st, [(Ref('$tb'), t)]), (Not(okb['filter_write']), Enum('Err', (Enum('IO', (Opaque('e'),), 'BuilderError'),)), st)]
    P[r'TableBuilder::emit_block_to_disk'] = emit
    def wblock(se, env, pc, tb, contents):
        c = P_(se, env, contents); kind = c.get('kind', '?'); st = ev(env, ('write_block', kind))
        name = 'metaindex_write' if kind.startswith('metaindex') else 'index_write'
        return [(okb[name], Enum('Ok', (H(kind.split()[0] + '_written'),)), st), (Not(okb[name]), Enum('Err', (Enum('IO', (Opaque('e'),), 'BuilderError'),)), st)]
    P[r'TableBuilder::write_block'] = wblock
    P[r'DbOptions::filter_policy'] = lambda se, env, pc, o: lib.one(env, 'policy')
    P[r'(?:filter_policy::)?get_filter_block_name'] = lambda se, env, pc, p: lib.one(env, {'str': 'filter.<policy name>'})
    P[r'MetaIndexKey::new'] = lib.ident
    P[r'<Vec<u8> as TryFrom<&Footer>>::try_from'] = lambda se, env, pc, f: [(okb['footer_encode'], Enum('Ok', ({'len': bv(48), 'kind': 'footer', 'footer': P_(se, env, f), 'off': bv(0)},)), env['$state']), (Not(okb['footer_encode']), Enum('Err', (Opaque('footer error'),)), env['$state'])]
    def wall(se, env, pc, f, data):
        st = ev(env, ('write_all', P_(se, env, data)))
        return [(okb['footer_write'], Enum('Ok', ((),)), st), (Not(okb['footer_write']), Enum('Err', ({'kind': 'io', '__ty': 'io::Error'},)), st)]
    P[r'<Box<dyn RandomAccessFile> as (?:std::io::)?Write>::write_all'] = wall
    P[r'<BuilderError as From<.*>>::from'] = lambda se, env, pc, e: lib.one(env, Enum('IO', (e,), 'BuilderError'))
    P[r'<Result<.*> as FromResidual<Result<Infallible, .*>>>::from_residual'] = lambda se, env, pc, r: lib.one(env, r if not (isinstance(r, Enum) and r.tag == 'Err' and not isinstance(r.fields[0], Enum)) else Enum('Err', (Enum('IO', (r.fields[0],), 'BuilderError'),)))
    ex = Exec(mir, S, loop_bound=4, opaque_calls_ok=True)
    mff = mir.struct_fields('Footer')
    def k(ret, env, pc):
        evs = env['$state']['events']; kinds = [e[0] + (':' + str(e[1]) if e[0] in ('emit', 'write_block') else '') for e in evs]
        ok = isinstance(ret, Enum) and ret.tag == 'Ok'
        tb = ex.deref(env, Ref('$tb'))
        all_ok = And(fl != 2, *okb.values())
        posts = [('finalize reports success although a step failed (or fails although every step succeeded)', BoolVal(ok) == all_ok)]
        ix = [e for e in evs if e[0] == 'index.add_entry']
        posts.append(('the last data block gets no index entry although it was written (or an index entry is written without a block)', Or(BoolVal(not ok), (fl == 0) == BoolVal(len(ix) == 1))))
        if len(ix) == 1:
            key, val = ix[0][1], ix[0][2]
            good_key = isinstance(key, dict) and 'ikey_successor_of' in key and key['ikey_successor_of'] is ex.deref(env, Ref('$last'))
            if isinstance(key, dict) and 'ikey_successor_of' in key and not good_key:
                good_key = str(key['ikey_successor_of']) == str(ex.deref(env, Ref('$last')))
            posts.append(('the index key of the last data block is not the InternalKey-level successor of the last key added (it may sort before the last entry: lookups of that key miss the block)', BoolVal(bool(good_key))))
            hnd = val.get('encoded_handle') if isinstance(val, dict) else None
            posts.append(('the index entry of the last data block does not carry the handle of the flushed block', And(hnd[hf.index('offset')] == BitVec('data_off', 64), hnd[hf.index('size')] == BitVec('data_size', 64)) if hnd else BoolVal(False)))
        if ok:
            want = ['flush'] + (['index.add_entry'] if len(ix) == 1 else []) + ['emit:filter block', 'metaindex.add_entry', 'write_block:metaindex block', 'write_block:index block', 'write_all']
            posts.append(('the parts of the table are not written in the order data block, filter block, metaindex block, index block, footer', BoolVal(kinds == want)))
            mi = [e for e in evs if e[0] == 'metaindex.add_entry']; em = [e for e in evs if e[0] == 'emit']
            if len(mi) == 1 and len(em) == 1:
                hnd = mi[0][2].get('encoded_handle') if isinstance(mi[0][2], dict) else None
                posts.append(('the metaindex entry does not name the filter block (name of the policy -> offset before the filter block was written, length of its contents)',
                              And(BoolVal(isinstance(mi[0][1], dict) and mi[0][1].get('str') == 'filter.<policy name>'), hnd[hf.index('offset')] == em[0][2], hnd[hf.index('size')] == flen) if hnd else BoolVal(False)))
            wa = [e for e in evs if e[0] == 'write_all']
            if len(wa) == 1 and isinstance(wa[0][1], dict) and 'footer' in wa[0][1]:
                ft = wa[0][1]['footer']
                posts.append(('the footer does not carry the handles returned for the metaindex block and the index block', And(ft[mff.index('metaindex_handle')][hf.index('offset')] == BitVec('metaindex_written_off', 64), ft[mff.index('index_handle')][hf.index('offset')] == BitVec('index_written_off', 64),
                                                                                                                       ft[mff.index('metaindex_handle')][hf.index('size')] == BitVec('metaindex_written_size', 64), ft[mff.index('index_handle')][hf.index('size')] == BitVec('index_written_size', 64))))
            else: posts.append(('the footer is not written', BoolVal(False)))
            posts.append(('the builder is not closed after finalize', tb[tf.index('file_closed')] if not isinstance(tb[tf.index('file_closed')], bool) else BoolVal(tb[tf.index('file_closed')])))
        res.cases['%s: %s' % ('Ok' if ok else 'Err', kinds)] = 1
        for label, post, m in ex.check_posts(posts, pc):
            res.violations.append({'label': label, 'events': kinds, 'replay': ['table_edge_keys']})
            if 'reports success although a step failed' in label:
                res.violations.append({'label': label, 'events': kinds, 'replay': ['table_write_transient_fault_sweep']})
    tb = mir.mk_struct('TableBuilder', options={'abstract': True, '__ty': 'DbOptions'}, file_closed=BoolVal(False), file='file', file_number=bv(1), current_offset=off0,
                       data_block_builder={'abstract': True, '__ty': 'BlockBuilder', '__which': 'data'}, index_block_builder={'abstract': True, '__ty': 'BlockBuilder', '__which': 'index'},
                       filter_block_builder={'abstract': True, '__ty': 'FilterBlockBuilder'}, num_entries=bv(1), maybe_last_key_added=Enum('Some', (Ref('$last'),)))
    ex.top(fn, [Ref('$tb')], {'$state': {'events': []}, '$tb': tb, '$last': last}, pre, k)
    res.absorb(ex)
    for pcx, msg, where in ex.panics:
        res.panic_paths += 1; res.violations.append({'label': 'panic path: ' + msg[:80], 'replay': None, 'confirmed_by': {'reproduced': False, 'detail': 'no native scenario'}})
    res.wall_s = time.time() - t0
    if res.violations: res.status = 'violation'
    return res


def o14_8_filter_reader(mir, tier):
    """FilterBlockReader::new (split_filters_with_offset inlined; the fixed-int decoders and deserialize_offsets by contract: k offsets,
    free, ascending, inside the filter bytes) over a filter block of free length.  Reference: filter i of the reader is exactly the
    byte range [offset i, offset i+1) of the block (the last one runs to the start of the offset array) - whatever its length
    (a filter over many keys with many bits per key is longer than the 2 KiB of file it covers) and whatever its first byte (the
    number of probes, up to 30) is; the stored range-size exponent is the last byte."""
    fn = mir.method('FilterBlockReader', 'new')
    K = 2 if tier == 'quick' else 3
    res = Result('O14.8 FilterBlockReader::new keeps every filter as written', [fn.path, mir.method('FilterBlockReader', 'split_filters_with_offset').path], '1..%d filters with free ascending offsets (< 2^32), block length free; byte contents abstract' % K)
    t0 = time.time()
    for k in range(1, K + 1):
        S = lib.std_summaries(); P = S['$patterns']
        total = BitVec('filter_block_len', 64); start = BitVec('offsets_start', 64)
        offs = [BitVec('offset%d' % i, 32) for i in range(k)]
        pre = [ULT(total, bv(1 << 32)), UGE(total, bv(5 + 4 * k)), start == total - bv(5 + 4 * k), ZeroExt(32, offs[0]) == bv(0)]
        pre += [ULE(offs[i], offs[i + 1]) for i in range(k - 1)] + [ULE(ZeroExt(32, offs[-1]), start)]
        def P_(se, env, v):
            v = se.deref(env, v) if isinstance(v, Ref) else v
            while isinstance(v, Ref): v = se.deref(env, v)
            return v
        def pop(se, env, pc, r):
            b = dict(P_(se, env, r)); b['len'] = b['len'] - bv(1); se.store(env, r, b)
            return lib.one(env, Enum('Some', (BitVec('range_size_exponent', 8),)))
        P[r'Vec::pop'] = pop
        P[r'<u32 as FixedInt>::decode_fixed'] = lambda se, env, pc, sl: lib.one(env, Extract(31, 0, start))
        P[r'FilterBlockReader::deserialize_offsets'] = lambda se, env, pc, sl: lib.one(env, Enum('Ok', (list(offs),)))
        P[r'<Arc<dyn FilterPolicy> as Clone>::clone'] = lib.ident; P[r'Arc::clone'] = lib.ident
        P[r'<Vec<u8> as Deref>::deref'] = lib.ident; P[r'<Vec<u8> as DerefMut>::deref_mut'] = lib.ident
        P[r'<Vec<Vec<u8>> as Deref>::deref'] = lib.ident; P[r'<Vec<Vec<u8>> as DerefMut>::deref_mut'] = lib.ident
        P[r'<Vec<u32> as Deref>::deref'] = lib.ident
        ex = Exec(mir, S, loop_bound=k + 3)
        ff = mir.struct_fields('FilterBlockReader')
        def kf(ret, env, pc, ex=ex, k=k, offs=offs, start=start):
            ok = isinstance(ret, Enum) and ret.tag == 'Ok'
            posts = [('a well-formed filter block is rejected', BoolVal(ok))]
            if ok:
                r = ret.fields[0]; fl = r[ff.index('filters')]
                posts.append(('the reader does not hold one filter per offset', BoolVal(len(fl) == k)))
                for i, f in enumerate(fl[:k]):
                    f = f if isinstance(f, dict) else (ex.deref(env, f) if isinstance(f, Ref) else f)
                    end = ZeroExt(32, offs[i + 1]) if i + 1 < k else start
                    good = And(f['len'] == end - ZeroExt(32, offs[i]), f['off'] == ZeroExt(32, offs[i])) if isinstance(f, dict) and 'len' in f and f.get('off') is not None else BoolVal(False)
                    posts.append(('a filter held by the reader is not the byte range the offsets give it (a long filter, or one whose first byte is large, is replaced by an empty one: every key of its range is reported absent)', good))
                posts.append(('the range-size exponent is not the last byte of the block', r[ff.index('encoded_range_size_exponent')] == BitVec('range_size_exponent', 8)))
            res.cases['%d filters -> %s' % (k, 'Ok' if ok else 'Err')] = 1
            for label, post, m in ex.check_posts(posts, pc):
                res.violations.append({'label': label, 'filters': k, 'offsets': [mval(m, o) for o in offs], 'block_len': mval(m, total), 'replay': ['filter_policy_sweep']})
        ex.top(fn, ['policy', {'len': total, 'kind': 'filter block', 'off': bv(0)}], {'$state': {}}, pre, kf)
        res.absorb(ex)
        for pcx, msg, where in ex.panics:
            ex.solver.push(); ex.solver.add(*pre); ex.solver.add(*[c for c in pcx if not isinstance(c, bool)]); feas = str(ex.solver.check()) == 'sat'; ex.solver.pop()
            if feas: res.panic_paths += 1; res.violations.append({'label': 'panic path: ' + msg[:80], 'replay': None, 'confirmed_by': {'reproduced': False, 'detail': 'no native scenario'}})
    res.wall_s = time.time() - t0
    if res.violations: res.status = 'violation'
    return res


def o14_8_confirm(v, out):
    """Native: tables of 700 tiny entries in 64-byte blocks for bits_per_key in {1, 10, 30, 43, 44, 50, 64} (filters of more than 2 KiB
    and with 30 probes among them); every stored key is looked up."""
    if out.get('_rc') != 0: return (True, 'native run failed / panicked: %s' % out.get('_stderr', '')[-300:])
    return (out.get('missing', '0') != '0', 'native: %s stored keys reported absent (first: %s)' % (out.get('missing'), out.get('first_missing')))
