"""O2.8 DB::recover with initialize_as_new_db inlined: when a database is created, when it is refused, and that an existing
database is never initialised again."""
import time
from z3 import BitVec, BitVecVal, Bool, BoolVal, And, Or, Not
from ..exec import Exec, Enum, Ref, Opaque, Inconclusive, bv
from ..ob import Result, mval
from .. import lib

GUARD = r'<parking_lot::lock_api::MutexGuard<.*> as Deref(?:Mut)?>::deref(?:_mut)?'


def o2_8_db_recover(mir, tier):
    """CURRENT can be opened / is not found / fails with another I/O error; create_if_missing and error_if_exists free; every step
    of the initialisation, VersionSet::recover and recover_unrecorded_logs succeed or fail (free)."""
    fn = mir.method('DB', 'recover')
    res = Result('O2.8 DB::recover / initialize_as_new_db', [fn.path, mir.method('DB', 'initialize_as_new_db').path], 'CURRENT present / missing / unreadable; create_if_missing, error_if_exists free; each step succeeds or fails (free)')
    t0 = time.time()
    for current in ('present', 'missing', 'io-error'):
        S = lib.std_summaries(); P = S['$patterns']
        P[GUARD] = lib.ptr_deref
        cim, eie = Bool('create_if_missing'), Bool('error_if_exists')
        mk_ok, app_ok, cur_ok, vs_ok, logs_ok, reused, logs_need = [Bool(n) for n in ('manifest_create_ok', 'manifest_append_ok', 'current_switch_ok', 'version_set_recover_ok', 'log_recovery_ok', 'manifest_reused', 'log_recovery_needs_manifest_edit')]
        def ev(env, e):
            st = dict(env['$state']); st['events'] = st['events'] + [e]; return st
        def P_(se, env, v):
            v = se.deref(env, v) if isinstance(v, Ref) else v
            while isinstance(v, Ref): v = se.deref(env, v)
            return v
        P[r'DbOptions::filesystem_provider'] = lambda se, env, pc, o: lib.one(env, {'abstract': True, '__ty': 'fs'})
        P[r'DbOptions::create_if_missing'] = lambda se, env, pc, o: lib.one(env, cim)
        P[r'DbOptions::error_if_exists'] = lambda se, env, pc, o: lib.one(env, eie)
        P[r'DbOptions::db_path'] = lambda se, env, pc, o: lib.one(env, {'str': 'db'})
        P[r'FileNameHandler::get_current_file_path'] = lambda se, env, pc, h: lib.one(env, {'path': 'CURRENT'})
        P[r'FileNameHandler::get_manifest_file_path'] = lambda se, env, pc, h, n: lib.one(env, {'path': 'manifest', 'num': n})
        P[r'<Arc<FileNameHandler> as Deref>::deref'] = lib.ident
        P[r'<PathBuf as Deref>::deref'] = lib.ident
        P[r'<PathBuf as Clone>::clone'] = lambda se, env, pc, p: lib.one(env, P_(se, env, p))
        P[r'<Arc<dyn FileSystem> as Deref>::deref'] = lib.ident
        def open_file(se, env, pc, fs, p, current=current):
            st = ev(env, ('open', P_(se, env, p).get('path')))
            if current == 'present': return [(None, Enum('Ok', ({'abstract': True, '__ty': 'file'},)), st)]
            return [(None, Enum('Err', ({'kind': bv(0 if current == 'missing' else 1), '__ty': 'io::Error'},)), st)]      # io::ErrorKind::NotFound is discriminant 0
        P[r'<dyn FileSystem as FileSystem>::open_file'] = open_file
        P[r'std::io::Error::kind'] = lambda se, env, pc, e: lib.one(env, P_(se, env, e)['kind'])
        P[r'std::io::Error::new'] = lambda se, env, pc, k, m: lib.one(env, {'kind': k, '__ty': 'io::Error'})
        def writer_new(se, env, pc, fs, path, app):
            p = P_(se, env, path); st = ev(env, ('create_manifest', p.get('num'), app))
            return [(mk_ok, Enum('Ok', ({'abstract': True, '__ty': 'LogWriter'},)), st), (Not(mk_ok), Enum('Err', (Enum('IO', (Opaque('e'),), 'LogIOError'),)), st)]
        P[r'LogWriter::new'] = writer_new
        vcf = mir.struct_fields('VersionChangeManifest')
        P[r'<VersionChangeManifest as Default>::default'] = lambda se, env, pc: lib.one(env, mir.mk_struct('VersionChangeManifest', wal_file_number=Enum('None'), prev_wal_file_number=Enum('None'), curr_file_number=Enum('None'), prev_sequence_number=Enum('None')))
        P[r'<Vec<u8> as From<&VersionChangeManifest>>::from'] = lambda se, env, pc, m: lib.one(env, {'len': BitVec('len', 64), 'kind': 'bytes', 'edit': P_(se, env, m)})
        def append(se, env, pc, w, d):
            st = ev(env, ('append_initial_record', P_(se, env, d).get('edit')))
            return [(app_ok, Enum('Ok', ((),)), st), (Not(app_ok), Enum('Err', (Enum('IO', (Opaque('e'),), 'LogIOError'),)), st)]
        P[r'LogWriter::append'] = append
        def set_current(se, env, pc, fs, h, n):
            st = ev(env, ('switch_current', n))
            return [(cur_ok, Enum('Ok', ((),)), st), (Not(cur_ok), Enum('Err', ({'kind': Opaque('k'), '__ty': 'io::Error'},)), st)]
        P[r'DB::set_current_file'] = set_current
        P[r'<dyn FileSystem as FileSystem>::remove_file'] = lambda se, env, pc, fs, p: [(None, Enum('Ok', ((),)), ev(env, ('remove', P_(se, env, p).get('num'))))]
        def vs_recover(se, env, pc, vs):
            st = ev(env, ('version_set_recover',))
            return [(vs_ok, Enum('Ok', (reused,)), st), (Not(vs_ok), Enum('Err', (Enum('ManifestParse', ({'str': 'x'},), 'RecoverError'),)), st)]
        P[r'VersionSet::recover'] = vs_recover
        def logs(se, env, pc, db, g):
            st = ev(env, ('recover_logs',))
            return [(logs_ok, Enum('Ok', (({'abstract': True, '__ty': 'VersionChangeManifest'}, logs_need),)), st), (Not(logs_ok), Enum('Err', (Enum('IO', (Opaque('e'),), 'RainDBError'),)), st)]
        P[r'DB::recover_unrecorded_logs'] = logs
        P[r'<RainDBError as From<.*>>::from'] = lambda se, env, pc, e: lib.one(env, Enum('IO', (e,), 'RainDBError'))
        P[r'<.* as Into<RainDBError>>::into'] = lambda se, env, pc, e: lib.one(env, Enum('IO', (e,), 'RainDBError'))
        P[r'<Result<.*> as FromResidual<Result<Infallible, .*>>>::from_residual'] = lambda se, env, pc, r: lib.one(env, r)
        P[r'Option::is_some'] = lambda se, env, pc, r: lib.one(env, BoolVal(True))
        ex = Exec(mir, S, loop_bound=4, opaque_calls_ok=True)
        def k(ret, env, pc, current=current, ex=ex):
            evs = env['$state']['events']; kinds = [e[0] for e in evs]
            ok = isinstance(ret, Enum) and ret.tag == 'Ok'
            init = ('create_manifest' in kinds) or ('switch_current' in kinds) or ('append_initial_record' in kinds)
            posts = []
            if current == 'present':
                posts += [('an existing database is initialised again (its CURRENT / first manifest are overwritten)', BoolVal(not init)),
                          ('DB::recover accepts an existing database although error_if_exists is set (or refuses it without)', Or(BoolVal(not ok), Not(eie))),
                          ('recovery of an existing database fails although every step succeeded (or succeeds although one failed)', BoolVal(ok) == And(Not(eie), vs_ok, logs_ok))]
            elif current == 'missing':
                posts += [('a database is created although create_if_missing is not set', Or(cim, BoolVal(not init))),
                          ('DB::recover succeeds without a database and without create_if_missing', Or(cim, BoolVal(not ok))),
                          ('creation of a new database does not follow: create manifest 1 empty, write the initial record, then switch CURRENT',
                           Or(Not(cim), And(BoolVal([x for x in kinds if x in ('create_manifest', 'append_initial_record', 'switch_current')] == ['create_manifest', 'append_initial_record', 'switch_current'][:len([x for x in kinds if x in ('create_manifest', 'append_initial_record', 'switch_current')])]),
                                            Or(BoolVal('switch_current' not in kinds), And(mk_ok, app_ok))))),
                          ('recovery of a new database fails although every step succeeded (or succeeds although one failed)', BoolVal(ok) == And(cim, mk_ok, app_ok, cur_ok, vs_ok, logs_ok))]
                if 'create_manifest' in kinds:
                    c = evs[kinds.index('create_manifest')]
                    posts.append(('the first manifest is opened for appending', Not(c[2]) if not isinstance(c[2], bool) else BoolVal(not c[2])))
                if 'switch_current' in kinds and 'create_manifest' in kinds:
                    posts.append(('CURRENT of a new database does not name the manifest that was just written', evs[kinds.index('switch_current')][1] == evs[kinds.index('create_manifest')][1]))
                if 'append_initial_record' in kinds:
                    e = evs[kinds.index('append_initial_record')][1]
                    def some(x): return BoolVal(isinstance(x, Enum) and x.tag == 'Some')
                    posts.append(('the initial manifest record lacks the file counter, WAL number or last sequence (the new database cannot be reopened)',
                                  And(some(e[vcf.index('curr_file_number')]), some(e[vcf.index('wal_file_number')]), some(e[vcf.index('prev_sequence_number')])) if e else BoolVal(False)))
                    if e and 'create_manifest' in kinds and isinstance(e[vcf.index('curr_file_number')], Enum) and e[vcf.index('curr_file_number')].tag == 'Some':
                        # the writer-side fact O2.6 relies on: the recorded file counter covers the number of the manifest itself
                        from z3 import UGE
                        mnum = evs[kinds.index('create_manifest')][1]; cnt = e[vcf.index('curr_file_number')].fields[0]
                        posts.append(('the file counter in the initial manifest record does not cover the number of the manifest it is written to (the number is handed out again: the next manifest is written over this one while CURRENT names it)',
                                      UGE(cnt, mnum) if not isinstance(mnum, int) else UGE(cnt, bv(mnum))))
            else:
                posts += [('an unreadable CURRENT is treated as "no database": the database is initialised again', BoolVal(not init)),
                          ('DB::recover succeeds although CURRENT could not be read', BoolVal(not ok))]
            if ok:
                flag = ret.fields[0][1]
                posts.append(('a new manifest snapshot is not requested exactly when the manifest was not reused or log recovery changed the version', flag == Or(Not(reused), logs_need) if not isinstance(flag, bool) else BoolVal(False)))
                posts.append(('the logs are replayed before the manifest was read', BoolVal('version_set_recover' in kinds and 'recover_logs' in kinds and kinds.index('version_set_recover') < kinds.index('recover_logs'))))
            res.cases['CURRENT %s: %s %s' % (current, 'Ok' if ok else 'Err', ','.join(kinds))] = 1
            for label, post, m in ex.check_posts(posts, pc):
                res.violations.append({'label': label, 'events': [str(e)[:60] for e in evs], 'model': {str(x): mval(m, x) for x in (cim, eie)}, 'replay': ['fresh_open_manifests'] if 'file counter in the initial' in label else ['torn_first_manifest'] if 'opened for appending' in label else (['reopen_modes'] if current != 'io-error' else ['unreadable_current'])})
        db = mir.mk_struct('DB', options={'abstract': True, '__ty': 'DbOptions'}, db_lock=Enum('Some', ({'abstract': True},)), file_name_handler={'abstract': True, '__ty': 'FileNameHandler'})
        g = mir.mk_struct('GuardedDbFields', version_set={'abstract': True, '__ty': 'VersionSet'})
        env = {'$state': {'events': []}, '$db': db, '$g': g, '$guard': Ref('$g')}
        ex.top(fn, [Ref('$db'), Ref('$guard')], env, [], k)
        res.absorb(ex)
        for pcx, msg, where in ex.panics:
            res.panic_paths += 1; res.violations.append({'label': 'panic path: ' + msg[:80], 'replay': None, 'confirmed_by': {'reproduced': False, 'detail': 'no native scenario'}})
    res.wall_s = time.time() - t0
    if res.violations: res.status = 'violation'
    return res


def o2_8_confirm(v, out):
    """Native: open with create_if_missing=false on an empty directory must fail and create nothing; a database is created,
    written and closed; open with error_if_exists must fail; a plain reopen must still find the data."""
    if out.get('_rc') != 0: return (False, 'native run failed: %s' % out.get('_stderr', '')[-300:])
    if v['replay'][0] == 'fresh_open_manifests':
        return (out.get('created_twice') == 'true', 'native: manifests created during the first open of a new database (reuse_log_files off): %s' % out.get('manifest_creates'))
    if v['replay'][0] == 'torn_first_manifest':
        return (out.get('all_ok') != 'true', 'native: torn first manifest record (bytes present: created / reopened): %s' % out.get('results'))
    if v['replay'][0] == 'unreadable_current':
        bad = out.get('open_with_unreadable_current') != 'err' or out.get('mutating_ops_during_refused_open') != '0' or out.get('reopen_get') != 'v'
        return (bad, 'open with an unreadable CURRENT: %s, mutating file operations during it: %s, data after a later reopen: %s' % (out.get('open_with_unreadable_current'), out.get('mutating_ops_during_refused_open'), out.get('reopen_get')))
    bad = out.get('open_missing_without_create') != 'err' or out.get('files_after_refused_create') != '0' or out.get('open_with_error_if_exists') != 'err' or out.get('reopen_get') != 'v'
    return (bad, 'open without create_if_missing: %s (files created: %s); open with error_if_exists: %s; data after reopen: %s' % (out.get('open_missing_without_create'), out.get('files_after_refused_create'), out.get('open_with_error_if_exists'), out.get('reopen_get')))
