"""O8.7 DB::set_bad_database_state: every error handed in is recorded as the sticky failed state (the first one wins) and the waiters are woken."""
import time
from z3 import BoolVal
from ..exec import Exec, Enum, Ref, Opaque, Inconclusive, bv
from ..ob import Result
from .. import lib

GUARD = r'<parking_lot::lock_api::MutexGuard<.*> as Deref(?:Mut)?>::deref(?:_mut)?'
KINDS = ['Log', 'Write', 'IO', 'Compaction', 'TableBuild', 'TableRead', 'VersionRecovery', 'Other']


def o8_7_bad_state(mir, tier):
    """For every kind of error (a failed write-ahead-log append, a failed write, a failed flush / compaction, ...) and both pre-states
    (healthy, already failed): afterwards the database is in its failed state; an earlier error is kept; a newly recorded one wakes
    every thread waiting for background work (a writer parked in make_room_for_write returns with it, O9.3)."""
    fn = mir.method('DB', 'set_bad_database_state')
    res = Result('O8.7 DB::set_bad_database_state records every error', [fn.path], 'error kinds %s x state before (healthy, failed)' % KINDS)
    t0 = time.time()
    bf = mir.field('GuardedDbFields', 'maybe_bad_database_state')
    for kind in KINDS:
        for before in (False, True):
            S = lib.std_summaries(); P = S['$patterns']
            lib.combinator_summaries(P)
            P[GUARD] = lib.ptr_deref
            def notify(se, env, pc, *a):
                st = dict(env['$state']); st['notified'] = st.get('notified', 0) + 1
                return [(None, bv(0), st)]
            P[r'(?:parking_lot::)?Condvar::notify_all'] = notify
            P[r'<Arc<parking_lot::Condvar> as Deref>::deref'] = lib.ident
            P[r'Option::and'] = lambda se, env, pc, a, b: lib.one(env, b if (isinstance(a, Enum) and a.tag == 'Some') else Enum('None'))
            P[r'Option::or'] = lambda se, env, pc, a, b: lib.one(env, a if (isinstance(a, Enum) and a.tag == 'Some') else b)
            P[r'Option::xor'] = lambda se, env, pc, a, b: lib.one(env, Enum('None') if (isinstance(a, Enum) and a.tag == 'Some' and isinstance(b, Enum) and b.tag == 'Some') else (a if isinstance(a, Enum) and a.tag == 'Some' else b))
            ex = Exec(mir, S, loop_bound=3, opaque_calls_ok=True)
            first = Enum('IO', ({'str': 'earlier error'},), 'RainDBError')
            err = Enum(kind, ({'str': 'new error'},), 'RainDBError')
            g = mir.mk_struct('GuardedDbFields', maybe_bad_database_state=Enum('Some', (first,)) if before else Enum('None'))
            def k(ret, env, pc, kind=kind, before=before, ex=ex):
                st = ex.deref(env, Ref('$g'))[bf]
                is_some = isinstance(st, Enum) and st.tag == 'Some'
                posts = [('an error handed to set_bad_database_state is not recorded: the database stays writable after a failed log append / write / flush / compaction (writes acknowledged afterwards can be lost, writers waiting for failed background work are never told)',
                          is_some)]
                if is_some:
                    e = st.fields[0]; tag = e.tag if isinstance(e, Enum) else None
                    posts.append(('the recorded error is not the first error (an earlier error is replaced) / not the error handed in', tag == ('IO' if before else kind) and (not before or (isinstance(e.fields[0], dict) and e.fields[0].get('str') == 'earlier error'))))
                if not before: posts.append(('a newly recorded error does not wake the threads waiting for background work', env['$state'].get('notified', 0) >= 1))
                res.checked += len(posts); res.cases['%s, %s before' % (kind, 'failed' if before else 'healthy')] = 1
                for label, ok in posts:
                    ex.record_formula(label, pc, BoolVal(not ok))
                    if not ok and not any(v['label'] == label for v in res.violations):
                        res.violations.append({'label': label, 'error_kind': kind, 'failed_before': before, 'replay': ['write_fault', 'wal_once']})
            env = {'$state': {}, '$g': g, '$guard': Ref('$g'), '$db': {'abstract': True, '__ty': 'PortableDatabaseState'}}
            ex.top(fn, [Ref('$db'), Ref('$guard'), err], env, [], k)
            res.absorb(ex)
            for pc, msg, where in ex.panics:
                res.panic_paths += 1; res.violations.append({'label': 'panic path: ' + msg[:80], 'replay': ['write_fault', 'wal_once']})
    res.wall_s = time.time() - t0
    if res.violations: res.status = 'violation'
    return res


def o8_7_confirm(v, out):
    """Native: a put whose log append fails once; the next put (plenty of room in the memtable) must be refused: the database is in its failed state."""
    if out.get('_rc') != 0: return (False, 'native run failed: %s' % out.get('_stderr', '')[-300:])
    return (out.get('second_put_result') == 'Ok' and out.get('fault_hit') == 'true', 'native: a put issued after a failed log append (fault hit: %s; that put returned %s) returned %s' % (out.get('fault_hit'), out.get('put_result'), out.get('second_put_result')))


def o8_8_all_db_files(mir, tier):
    """DB::get_all_db_files (what recovery looks through for the logs it has to replay): the three directory listings (database, log,
    table directory) each free to fail.  Ok exactly when all three succeeded, and then every file of every listing is in the result;
    a failed listing is an error - treated as an empty directory it makes recovery skip the logs: acknowledged writes are gone."""
    from z3 import Bool, And, Not
    fn = mir.method('DB', 'get_all_db_files')
    res = Result('O8.8 DB::get_all_db_files reports a failed directory listing', [fn.path], 'three listings, each free to fail; 1 file per directory')
    t0 = time.time()
    oks = {d: Bool('list_%s_ok' % d) for d in ('db', 'wal', 'data')}
    S = lib.std_summaries(); P = S['$patterns']
    lib.combinator_summaries(P)
    P[r'DbOptions::filesystem_provider'] = lambda se, env, pc, o: lib.one(env, {'abstract': True, '__ty': 'fs'})
    P[r'<Arc<dyn FileSystem> as Deref>::deref'] = lib.ident; P[r'<PathBuf as Deref>::deref'] = lib.ident
    P[r'<Arc<FileNameHandler> as Deref>::deref'] = lib.ident
    for d, nm in (('db', 'get_db_path'), ('wal', 'get_wal_dir'), ('data', 'get_data_dir')):
        P[r'FileNameHandler::' + nm] = (lambda dd: lambda se, env, pc, h: lib.one(env, {'dir': dd}))(d)
    def list_dir(se, env, pc, fs, p):
        v = p; n = 0
        while isinstance(v, Ref) and n < 8: v = se.deref(env, v); n += 1
        d = v['dir']; st = dict(env['$state']); st['listed'] = st['listed'] + [d]
        return [(oks[d], Enum('Ok', ([{'file_in': d}],)), st), (Not(oks[d]), Enum('Err', ({'kind': 'io', '__ty': 'io::Error'},)), st)]
    P[r'<dyn FileSystem as FileSystem>::list_dir'] = list_dir
    def concat(se, env, pc, parts):
        v = parts; n = 0
        while isinstance(v, Ref) and n < 8: v = se.deref(env, v); n += 1
        out = []
        for x in v:
            y = x; n = 0
            while isinstance(y, Ref) and n < 8: y = se.deref(env, y); n += 1
            out += list(y)
        return lib.one(env, out)
    P[r'(?:std|core|alloc)::slice::<impl \[.*\]>::concat'] = concat
    P[r'Result::unwrap_or_default'] = lambda se, env, pc, r: lib.one(env, r.fields[0] if isinstance(r, Enum) and r.tag == 'Ok' else [])
    ex = Exec(mir, S, loop_bound=4, opaque_calls_ok=True)
    def k(ret, env, pc):
        ok = isinstance(ret, Enum) and ret.tag == 'Ok'
        allok = And(*oks.values())
        posts = [('get_all_db_files reports success although a directory could not be listed (recovery then finds no logs / tables there: acknowledged writes are skipped)', BoolVal(ok) == allok)]
        if ok:
            got = sorted(str(x.get('file_in')) for x in ret.fields[0] if isinstance(x, dict))
            posts.append(('a successful listing does not contain the files of all three directories', BoolVal(got == ['data', 'db', 'wal'])))
        res.cases['%s listed %s' % ('Ok' if ok else 'Err', env['$state']['listed'])] = 1
        for label, post, m in ex.check_posts(posts, pc):
            res.violations.append({'label': label, 'replay': ['reopen_listing_fault']})
    db = mir.mk_struct('DB', options={'abstract': True, '__ty': 'DbOptions'}, file_name_handler={'abstract': True, '__ty': 'FileNameHandler'}) if 'options' in mir.struct_fields('DB') else {'abstract': True, '__ty': 'DB'}
    ex.top(fn, [Ref('$db')], {'$state': {'listed': []}, '$db': db}, [], k)
    res.absorb(ex)
    res.wall_s = time.time() - t0
    if res.violations: res.status = 'violation'
    return res


def o8_8_confirm(v, out):
    """Native: a closed database with unflushed writes in its log is reopened while listing the log directory fails; the open must fail
    - or every acknowledged write must be readable."""
    if out.get('_rc') != 0: return (True, 'native run panicked / failed: %s' % out.get('_stderr', '')[-300:])
    return (out.get('open') == 'ok' and out.get('lost', '0') != '0', 'native: reopen while the log directory cannot be listed: open %s, acknowledged keys unreadable afterwards: %s of %s' % (out.get('open'), out.get('lost'), out.get('keys')))


def o9_10_manual_summary(mir, tier):
    """CompactionWorker::log_manual_compaction_summary runs on the only background thread with the bounds the caller of compact_range
    gave (arbitrary bytes) and the end key of the first pass: it must not have a panic path - for absent / present bounds, a finished
    or unfinished request (the end key is present exactly when the request is not done, as coordinate_compaction calls it), and bounds
    that are not valid UTF-8 (every byte-to-text conversion may fail)."""
    from z3 import Bool, Not
    fn = mir.method('CompactionWorker', 'log_manual_compaction_summary')
    res = Result('O9.10 the manual-compaction log line cannot panic the background thread', [fn.path], 'begin / end bound absent or present (arbitrary bytes), request done or not, end key present iff not done; every bytes -> text conversion free to fail')
    t0 = time.time()
    for has_b in (False, True):
        for has_e in (False, True):
            for done in (False, True):
                S = lib.std_summaries(); P = S['$patterns']
                lib.combinator_summaries(P)
                cnt = [0]
                def from_utf8(se, env, pc, b):
                    cnt[0] += 1; ok = Bool('bytes_%d_are_utf8' % cnt[0])
                    return [(ok, Enum('Ok', ({'str': '<text>'},)), env.get('$state')), (Not(ok), Enum('Err', ({'err': 'FromUtf8Error'},)), env.get('$state'))]
                P[r'String::from_utf8'] = from_utf8
                P[r'(?:core::|std::)?str::from_utf8'] = from_utf8
                P[r'String::from_utf8_lossy'] = lambda se, env, pc, b: lib.one(env, {'str': '<lossy text>'})
                P[r'<Vec<u8> as From<&InternalKey>>::from'] = lambda se, env, pc, k: lib.one(env, {'len': bv(9), 'kind': 'key bytes', 'off': bv(0)})
                P[r'<Vec<u8> as From<&&InternalKey>>::from'] = P[r'<Vec<u8> as From<&InternalKey>>::from']
                P[r'InternalKey::get_user_key'] = lambda se, env, pc, k: lib.one(env, {'len': bv(1), 'kind': 'user key', 'off': bv(0)})
                P[r'<\\[u8\\] as ToOwned>::to_owned'] = lib.ident; P[r'core::slice::<impl \\[u8\\]>::to_vec'] = lib.ident; P[r'<Vec<u8> as Clone>::clone'] = lib.ident
                P[r'<str as ToString>::to_string'] = lambda se, env, pc, s_: lib.one(env, {'str': '<string>'})
                ex = Exec(mir, S, loop_bound=4, opaque_calls_ok=True)
                key = lambda n: mir.mk_struct('InternalKey', user_key={'len': bv(1), 'kind': 'user key', 'off': bv(0)}, sequence_number=bv(5), operation=Enum('Put', (), 'Operation'))
                mc = mir.mk_struct('ManualCompactionConfiguration', level=bv(1), done=BoolVal(done), begin=Enum('Some', (key('b'),)) if has_b else Enum('None'), end=Enum('Some', (key('e'),)) if has_e else Enum('None'))
                endk = Enum('None') if done else Enum('Some', (Ref('$endkey'),))
                def k(ret, env, pc): res.checked += 1
                ex.top(fn, [Ref('$mc'), endk], {'$state': {}, '$mc': mc, '$endkey': key('x')}, [], k)
                res.absorb(ex); res.cases['begin=%s end=%s done=%s' % (has_b, has_e, done)] = 1
                for pcx, msg, where in ex.panics:
                    ex.solver.push(); ex.solver.add(*[c for c in pcx if not isinstance(c, bool)]); feas = str(ex.solver.check()) == 'sat'; ex.solver.pop()
                    if not feas: continue
                    res.panic_paths += 1
                    label = 'the log line of a manual compaction can panic (bounds that are not valid UTF-8, an absent key): the only background thread dies, compact_range never returns, writers and close hang'
                    ex.record_formula(label, pcx, BoolVal(True))
                    if not any(v['label'] == label for v in res.violations):
                        res.violations.append({'label': label, 'panic': msg[:80], 'case': {'begin': has_b, 'end': has_e, 'done': done}, 'replay': ['binary_range_compaction'], 'expect_hang': False})
    res.wall_s = time.time() - t0
    if res.violations: res.status = 'violation'
    return res


def o9_10_confirm(v, out):
    """Native: compact_range with bounds that are not valid UTF-8 on a database with data in two levels, under a 20 s watchdog; a put and a
    flush afterwards must still complete."""
    if out.get('_rc') != 0 and not out.get('_timeout'): return (True, 'native run panicked / failed: %s' % out.get('_stderr', '')[-300:])
    bad = out.get('compact_range') != 'returned' or out.get('later_flush') != 'ok' or bool(out.get('_timeout'))
    return (bad, 'native: compact_range with the bounds [ff fe] .. [ff ff]: %s; a later put + flush: %s' % (out.get('compact_range'), out.get('later_flush')))
