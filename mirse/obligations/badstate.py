"""O8.7 DB::set_bad_database_state: every error handed in is recorded as the sticky failed state (the first one wins) and the waiters are woken."""
import time
from z3 import BoolVal
from ..exec import Exec, Enum, Ref, Opaque, Inconclusive, bv
from ..ob import Result
from .. import lib

GUARD = r'<parking_lot::lock_api::MutexGuard<.*> as Deref(?:Mut)?>::deref(?:_mut)?'
KINDS = ['Log', 'Write', 'IO', 'Compaction', 'TableBuild', 'TableRead', 'VersionRecovery', 'Other']


def o8_7_bad_state(mir, tier):
    """For every kind of error (a failed write-ahead-log append, a failed write, a failed flush / compaction, ...) and both pre-states
    (healthy, already failed): afterwards the database is in its failed state; an earlier error is kept; a newly recorded one wakes
    every thread waiting for background work (a writer parked in make_room_for_write returns with it, O9.3)."""
    fn = mir.method('DB', 'set_bad_database_state')
    res = Result('O8.7 DB::set_bad_database_state records every error', [fn.path], 'error kinds %s x state before (healthy, failed)' % KINDS)
    t0 = time.time()
    bf = mir.field('GuardedDbFields', 'maybe_bad_database_state')
    for kind in KINDS:
        for before in (False, True):
            S = lib.std_summaries(); P = S['$patterns']
            lib.combinator_summaries(P)
            P[GUARD] = lib.ptr_deref
            def notify(se, env, pc, *a):
                st = dict(env['$state']); st['notified'] = st.get('notified', 0) + 1
                return [(None, bv(0), st)]
            P[r'(?:parking_lot::)?Condvar::notify_all'] = notify
            P[r'<Arc<parking_lot::Condvar> as Deref>::deref'] = lib.ident
            P[r'Option::and'] = lambda se, env, pc, a, b: lib.one(env, b if (isinstance(a, Enum) and a.tag == 'Some') else Enum('None'))
            P[r'Option::or'] = lambda se, env, pc, a, b: lib.one(env, a if (isinstance(a, Enum) and a.tag == 'Some') else b)
            P[r'Option::xor'] = lambda se, env, pc, a, b: lib.one(env, Enum('None') if (isinstance(a, Enum) and a.tag == 'Some' and isinstance(b, Enum) and b.tag == 'Some') else (a if isinstance(a, Enum) and a.tag == 'Some' else b))
            ex = Exec(mir, S, loop_bound=3, opaque_calls_ok=True)
            first = Enum('IO', ({'str': 'earlier error'},), 'RainDBError')
            err = Enum(kind, ({'str': 'new error'},), 'RainDBError')
            g = mir.mk_struct('GuardedDbFields', maybe_bad_database_state=Enum('Some', (first,)) if before else Enum('None'))
            def k(ret, env, pc, kind=kind, before=before, ex=ex):
                st = ex.deref(env, Ref('$g'))[bf]
                is_some = isinstance(st, Enum) and st.tag == 'Some'
                posts = [('an error handed to set_bad_database_state is not recorded: the database stays writable after a failed log append / write / flush / compaction (writes acknowledged afterwards can be lost, writers waiting for failed background work are never told)',
                          is_some)]
                if is_some:
                    e = st.fields[0]; tag = e.tag if isinstance(e, Enum) else None
                    posts.append(('the recorded error is not the first error (an earlier error is replaced) / not the error handed in', tag == ('IO' if before else kind) and (not before or (isinstance(e.fields[0], dict) and e.fields[0].get('str') == 'earlier error'))))
                if not before: posts.append(('a newly recorded error does not wake the threads waiting for background work', env['$state'].get('notified', 0) >= 1))
                res.checked += len(posts); res.cases['%s, %s before' % (kind, 'failed' if before else 'healthy')] = 1
                for label, ok in posts:
                    ex.record_formula(label, pc, BoolVal(not ok))
                    if not ok and not any(v['label'] == label for v in res.violations):
                        res.violations.append({'label': label, 'error_kind': kind, 'failed_before': before, 'replay': ['write_fault', 'wal_once']})
            env = {'$state': {}, '$g': g, '$guard': Ref('$g'), '$db': {'abstract': True, '__ty': 'PortableDatabaseState'}}
            ex.top(fn, [Ref('$db'), Ref('$guard'), err], env, [], k)
            res.absorb(ex)
            for pc, msg, where in ex.panics:
                res.panic_paths += 1; res.violations.append({'label': 'panic path: ' + msg[:80], 'replay': ['write_fault', 'wal_once']})
    res.wall_s = time.time() - t0
    if res.violations: res.status = 'violation'
    return res


def o8_7_confirm(v, out):
    """Native: a put whose log append fails once; the next put (plenty of room in the memtable) must be refused: the database is in its failed state."""
    if out.get('_rc') != 0: return (False, 'native run failed: %s' % out.get('_stderr', '')[-300:])
    return (out.get('second_put_result') == 'Ok' and out.get('fault_hit') == 'true', 'native: a put issued after a failed log append (fault hit: %s; that put returned %s) returned %s' % (out.get('fault_hit'), out.get('put_result'), out.get('second_put_result')))
