"""O11.4 VersionSet::release_version: exactly the version that lost its last outside reference is unlinked."""
import time
from z3 import BitVec, Bool, BoolVal, And, Or, Not
from ..exec import Exec, Enum, Ref, Opaque, Inconclusive, bv
from ..ob import Result, mval
from .. import lib


def o11_4_release_version(mir, tier):
    """The version list (by contract: remove_node / pop / pop_front unlink the given / last / first node) holds three versions;
    any of them is released; its strong count is free.  Reference: with exactly one outside reference left (count 2 = list +
    caller) that very version is unlinked and no other; otherwise nothing is unlinked (a version still pinned by an iterator, a
    get or a running compaction keeps its tables in the live set)."""
    fn = mir.method('VersionSet', 'release_version')
    res = Result('O11.4 VersionSet::release_version', [fn.path], 'list of 3 versions, any position released, strong count free; linked list and Arc::strong_count by contract')
    t0 = time.time()
    for pos in (0, 1, 2):
        S = lib.std_summaries(); P = S['$patterns']
        cnt = BitVec('strong_count', 64)
        P[r'Arc::strong_count'] = lambda se, env, pc, a: lib.one(env, cnt)
        P[r'Arc::<.*>::strong_count'] = P[r'Arc::strong_count']
        def unlink(which):
            def f(se, env, pc, lst, *a):
                st = dict(env['$state'])
                if which == 'node':
                    n = a[0]; n = se.deref(env, n) if isinstance(n, Ref) else n
                    st['unlinked'] = st['unlinked'] + [n.get('version_id') if isinstance(n, dict) else '?']
                else:
                    st['unlinked'] = st['unlinked'] + [{'front': 0, 'back': 2}[which]]
                return [(None, Enum('Some', (Opaque('node'),)) if which != 'node' else (), st)]
            return f
        P[r'(?:[\w:]*::)?LinkedList::remove_node'] = unlink('node')
        P[r'(?:[\w:]*::)?LinkedList::pop_front'] = unlink('front')
        P[r'(?:[\w:]*::)?LinkedList::pop'] = unlink('back')
        P[r'parking_lot::lock_api::RwLock::read'] = lib.ident
        P[r'<parking_lot::lock_api::RwLockReadGuard<.*> as Deref>::deref'] = lambda se, env, pc, g: lib.one(env, {'element': {'abstract': True, '__ty': 'Version'}, '__ty': 'Node'})
        P[r'<Arc<parking_lot::lock_api::RwLock<.*>> as Deref>::deref'] = lib.ident
        P[r'Version::last_sequence_number'] = lambda se, env, pc, v: lib.one(env, bv(1)); P[r'Version::wal_file_number'] = lambda se, env, pc, v: lib.one(env, bv(1))
        ex = Exec(mir, S, loop_bound=3, opaque_calls_ok=True)
        def k(ret, env, pc, pos=pos, ex=ex):
            un = env['$state']['unlinked']
            posts = [('a version is unlinked although it is still referenced from outside (or not unlinked with its last outside reference)', (cnt == 2) == BoolVal(len(un) == 1)),
                     ('another version than the released one is unlinked (a version pinned by a reader leaves the live set: its tables can be deleted under the reader)', BoolVal(all(u == pos for u in un)))]
            res.cases['release version %d -> unlinked %s' % (pos, un)] = 1
            for label, post, m in ex.check_posts(posts, pc):
                res.violations.append({'label': label, 'released': pos, 'unlinked': un, 'replay': ['pinned_version_files']})
        vs = mir.mk_struct('VersionSet', versions={'list': [0, 1, 2]})
        ex.top(fn, [Ref('$vs'), {'version_id': pos, '__ty': 'SharedNode'}], {'$state': {'unlinked': []}, '$vs': vs}, [], k)
        res.absorb(ex)
        for pcx, msg, where in ex.panics:
            res.panic_paths += 1; res.violations.append({'label': 'panic path: ' + msg[:80], 'replay': None, 'confirmed_by': {'reproduced': False, 'detail': 'no native scenario'}})
    res.wall_s = time.time() - t0
    if res.violations: res.status = 'violation'
    return res


def o11_4_confirm(v, out):
    """Native: an iterator pins the version holding table F; F is compacted away and several more versions are installed; while
    the iterator lives F must stay on disk and the iterator must still read its original view; after it is dropped and one more
    compaction the directory holds exactly the live tables."""
    if out.get('_rc') != 0: return (False, 'native run failed: %s' % out.get('_stderr', '')[-300:])
    bad = out.get('pinned_table_on_disk') != 'true' or out.get('iterator_view') != 'a=1'
    return (bad, 'table %s pinned by a live iterator: still on disk %s, iterator reads [%s] (expected [a=1]); tables on disk %s' % (out.get('pinned_table'), out.get('pinned_table_on_disk'), out.get('iterator_view'), out.get('tables_on_disk')))


def o11_9_release_inputs(mir, tier):
    """CompactionManifest::release_inputs: the input version pinned for the compaction is handed to VersionSet::release_version exactly
    once and the manifest keeps no reference to it afterwards (release_version unlinks a version only when the list and the caller hold
    the last two references, O11.4: a reference kept in the manifest leaves the version listed for ever and its tables are never
    reclaimed)."""
    import time
    from z3 import BoolVal
    from ..exec import Exec, Enum, Ref
    from ..ob import Result
    from .. import lib
    fn = mir.method('CompactionManifest', 'release_inputs')
    res = Result('O11.9 a finished compaction gives up its input version', [fn.path], 'input version present / absent; release_version by contract (event)')
    t0 = time.time()
    iv = mir.field('CompactionManifest', 'maybe_input_version')
    for present in (True, False):
        S = lib.std_summaries(); P = S['$patterns']
        lib.combinator_summaries(P)
        def rel(se, env, pc, vs, v):
            st = dict(env['$state']); st['released'] = st['released'] + [v]
            return [(None, (), st)]
        P[r'VersionSet::release_version'] = rel
        def clone(se, env, pc, a):
            st = dict(env['$state']); st['clones'] = st['clones'] + 1
            x = a; n = 0
            while isinstance(x, Ref) and not str(x.local).startswith('$version') and n < 8: x = se.deref(env, x); n += 1
            return [(None, x, st)]
        P[r'<Arc<.*> as Clone>::clone'] = clone; P[r'Arc::clone'] = clone
        ex = Exec(mir, S, loop_bound=3)
        cm = mir.mk_struct('CompactionManifest', maybe_input_version=Enum('Some', (Ref('$version'),)) if present else Enum('None'))
        def k(ret, env, pc, present=present, ex=ex):
            st = env['$state']; left = ex.deref(env, Ref('$cm'))[iv]
            kept = isinstance(left, Enum) and left.tag == 'Some'
            posts = [('after release_inputs the compaction manifest still holds its input version (an extra reference: release_version never unlinks the version, its table files are never reclaimed)', not kept),
                     ('release_inputs does not hand the input version to release_version exactly once', len(st['released']) == (1 if present else 0))]
            res.checked += len(posts); res.cases['input version %s' % ('present' if present else 'absent')] = 1
            for label, ok in posts:
                ex.record_formula(label, pc, BoolVal(not ok))
                if not ok and not any(v['label'] == label for v in res.violations):
                    res.violations.append({'label': label, 'replay': ['compaction_edit_files']})
        ex.top(fn, [Ref('$cm'), {'abstract': True, '__ty': 'VersionSet'}], {'$state': {'released': [], 'clones': 0}, '$cm': cm, '$version': {'abstract': True, '__ty': 'Node<Version>'}}, [], k)
        res.absorb(ex)
    res.wall_s = time.time() - t0
    if res.violations: res.status = 'violation'
    return res


def o11_9_confirm(v, out):
    """Native: three overlapping tables at three levels are compacted manually; afterwards exactly the tables of the current version are on disk."""
    if out.get('_rc') != 0: return (True, 'native run panicked / failed: %s' % out.get('_stderr', '')[-300:])
    return (out.get('files_on_disk') != out.get('tables_after'), 'native: after the manual compaction the version holds %s table(s), the data directory %s' % (out.get('tables_after'), out.get('files_on_disk')))
