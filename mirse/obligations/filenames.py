"""O11.7 FileNameHandler: every kind of file lives in the directory where the rest of the database looks for it (C11, C02)."""
import time
from z3 import BitVec, BoolVal, And, Or, Not
from ..exec import Exec, Enum, Ref, Opaque, Inconclusive, bv
from ..ob import Result, mval
from .. import lib


def o11_7_file_locations(mir, tier):
    """Paths are modelled structurally (PathBuf = list of components + extension of the last one; `push` appends a component,
    `set_extension` sets the extension; the text of a component built from a number is not interpreted).  Reference (the layout
    DB::remove_obsolete_files, recovery and destroy_database work with): CURRENT, LOCK, manifests and temporary files sit directly
    in the database directory, write-ahead logs in its wal directory, tables in its data directory; every numbered file name is
    built from the number it was asked for and carries the extension of its kind."""
    res = Result('O11.7 FileNameHandler directory layout', ['FileNameHandler::get_wal_file_path', 'get_table_file_path', 'get_manifest_file_path', 'get_temp_file_path', 'get_current_file_path', 'get_lock_file_path', 'get_wal_dir', 'get_data_dir'],
                 'file number free (64 bit); paths as component lists')
    t0 = time.time()
    C = {k: mir.consts.get('file_names::' + k) for k in ('WAL_DIR', 'DATA_DIR', 'WAL_EXT', 'TABLE_EXT', 'MANIFEST_FILE_EXT', 'TEMP_FILE_EXT', 'CURRENT_FILE_NAME', 'LOCK_FILE')} if hasattr(mir, 'consts') else {}
    n = BitVec('file_number', 64)
    def val(se, env, x):
        k = 0
        while isinstance(x, Ref) and k < 8: x = se.deref(env, x); k += 1
        return x
    S = lib.std_summaries(); P = S['$patterns']
    P[r'<PathBuf as From<&String>>::from'] = lambda se, env, pc, s: lib.one(env, {'path': [('root',)], 'ext': None})
    P[r'<.* as ToString>::to_string'] = lambda se, env, pc, x: lib.one(env, ('number', val(se, env, x)))
    P[r'(?:core|std)::fmt::rt::.*'] = lambda se, env, pc, x: lib.one(env, ('arg', val(se, env, x)))
    def args_new(se, env, pc, pieces, args):
        a = val(se, env, args)
        return lib.one(env, ('fmt', val(se, env, pieces), [val(se, env, x) for x in a] if isinstance(a, list) else a))
    P[r'(?:(?:std|core)::fmt::)?Arguments::.*'] = args_new
    P[r'(?:std|alloc)::fmt::format'] = lambda se, env, pc, a: lib.one(env, ('formatted', a)); P[r'format'] = P[r'(?:std|alloc)::fmt::format']
    P[r'(?:std|core)::hint::must_use'] = lib.ident; P[r'must_use'] = lib.ident
    def push(se, env, pc, buf, comp):
        b = dict(val(se, env, buf)); b['path'] = b['path'] + [val(se, env, comp)]; b['ext'] = None
        se.store(env, buf, b); return lib.one(env, ())
    P[r'PathBuf::push'] = push
    def set_ext(se, env, pc, buf, ext):
        b = dict(val(se, env, buf)); b['ext'] = val(se, env, ext)
        se.store(env, buf, b); return lib.one(env, BoolVal(True))
    P[r'PathBuf::set_extension'] = set_ext
    h = mir.mk_struct('FileNameHandler', db_path={'str': 'db'})
    def strof(x): return x.get('str') if isinstance(x, dict) else None
    def mentions_n(x):
        # the component is built from the requested number (directly or through format!)
        if isinstance(x, tuple) and x[0] == 'number': return x[1] is n or str(x[1]) == str(n)
        if isinstance(x, tuple) and x[0] == 'formatted':
            f = x[1]
            if isinstance(f, tuple) and f[0] == 'fmt':
                return any(isinstance(a, tuple) and a[0] == 'arg' and str(a[1]) == str(n) for a in (f[2] if isinstance(f[2], list) else [f[2]]))
        return False
    WANT = {'get_wal_file_path': ('wal', 'wal ext', True), 'get_table_file_path': ('data', 'table ext', True), 'get_manifest_file_path': (None, 'manifest ext', True), 'get_temp_file_path': (None, 'temp ext', True),
            'get_current_file_path': (None, None, False), 'get_lock_file_path': (None, None, False)}
    # directory names and extensions as the code itself defines them (the two directory getters are executed first)
    dirs = {}
    for dname, key in (('get_wal_dir', 'wal'), ('get_data_dir', 'data')):
        ex = Exec(mir, S, loop_bound=3)
        def kd(ret, env, pc, key=key): dirs[key] = val(ex, env, ret)
        ex.top(mir.method('FileNameHandler', dname), [Ref('$h')], {'$state': {}, '$h': h}, [], kd)
        res.absorb(ex)
    exts = {}
    for name, (sub, extkind, numbered) in WANT.items():
        fn = mir.method('FileNameHandler', name)
        ex = Exec(mir, S, loop_bound=3)
        def k(ret, env, pc, name=name, sub=sub, extkind=extkind, numbered=numbered, ex=ex):
            p = val(ex, env, ret)
            comps = p['path']
            want_dir = [('root',)] if sub is None else dirs[sub]['path']
            posts = [('%s does not place the file in the directory where the database looks for this kind of file (%s): it is never found again - not reclaimed, not recovered' % (name, 'the database directory' if sub is None else 'its %s directory' % sub),
                      BoolVal(comps[:-1] == want_dir and len(comps) == len(want_dir) + 1))]
            if numbered:
                posts.append(('%s does not build the file name from the number it was asked for' % name, BoolVal(mentions_n(comps[-1]))))
                posts.append(('%s does not give the file the extension of its kind' % name, BoolVal(p['ext'] is not None)))
                exts[name] = strof(p['ext']) if isinstance(p['ext'], dict) else str(p['ext'])
            res.cases['%s -> %d components, extension %s, name %s' % (name, len(comps), (strof(p['ext']) if isinstance(p['ext'], dict) else p['ext']), str(comps[-1])[:200])] = 1
            for label, post, m in ex.check_posts(posts, pc):
                res.violations.append({'label': label, 'function': name, 'replay': ['leftover_temp_file']})
        args = [Ref('$h')] + ([n] if numbered else [])
        ex.top(fn, args, {'$state': {}, '$h': h}, [], k)
        res.absorb(ex)
    # the four kinds must be told apart by their extensions
    ex = Exec(mir, S, loop_bound=2)
    vals = list(exts.values())
    if len(set(vals)) != len(vals):
        res.violations.append({'label': 'two kinds of numbered files share one extension (%s)' % exts, 'replay': None, 'confirmed_by': {'reproduced': False, 'detail': 'no native scenario'}})
    res.checked += 1
    res.wall_s = time.time() - t0
    if res.violations: res.status = 'violation'
    return res


def o11_7_confirm(v, out):
    """Native: a leftover temporary file (path from FileNameHandler::get_temp_file_path) is planted in a closed database; after a
    reopen it must be gone.  The same for a leftover table file."""
    if out.get('_rc') != 0: return (False, 'native run failed: %s' % out.get('_stderr', '')[-300:])
    return (out.get('temp_left') == 'true' or out.get('table_left') == 'true', 'native: after a reopen the planted temporary file is still there: %s (%s); the planted table file: %s' % (out.get('temp_left'), out.get('temp_path'), out.get('table_left')))
