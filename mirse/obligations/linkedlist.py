"""O11.5 utils::linked_list::LinkedList (the list of live versions): iteration, length and ends after any short operation sequence."""
import time, itertools
from z3 import BitVec, BoolVal, And, Or, Not
from ..exec import Exec, Inconclusive, Ref, Enum, Opaque
from ..ob import Result
from .. import lib
from .version import bv, mval


def _pointer_summaries(P):
    """Arc = pointer to a heap cell ($nodeN), Weak = the same pointer, RwLock transparent; clones copy the pointer."""
    heapn = [0]
    def arc_new(se, env, pc, v):
        heapn[0] += 1; cell = '$node%d' % heapn[0]; env[cell] = v
        return lib.one(env, Ref(cell))
    P[r'(?:Arc|Rc|Box)::new'] = arc_new          # replaces the transparent default: nodes are shared, aliasing matters
    P[r'parking_lot::lock_api::RwLock::new'] = lib.ident; P[r'RwLock::new'] = lib.ident
    def one_hop(se, env, pc, x, *rest):
        # clone of a pointer: the pointer itself (one dereference of the `&Arc` argument), never the pointee
        v = lib.get_at(env[x.local], x.path) if isinstance(x, Ref) else x
        n = 0
        while isinstance(v, Ref) and not str(v.local).startswith('$node') and n < 8:
            v = lib.get_at(env[v.local], v.path); n += 1
        return lib.one(env, v)
    P[r'<(?:Arc|Rc|Box)<.*> as Clone>::clone'] = one_hop; P[r'Arc::clone'] = one_hop
    P[r'Arc::downgrade'] = one_hop
    P[r'(?:std::sync::)?Weak::upgrade'] = lambda se, env, pc, w: lib.one(env, Enum('Some', (one_hop(se, env, pc, w)[0][1],)))
    P[r'<(?:std::sync::)?Weak<.*> as Clone>::clone'] = one_hop
    P[r'<Option<.*> as Clone>::clone'] = one_hop
    # reference counts are not tracked by the heap-cell model: a count read by the code is any value >= 1
    cnt = [0]
    def strong_count(se, env, pc, a):
        from z3 import UGE
        cnt[0] += 1; c = BitVec('strong_count_%d' % cnt[0], 64)
        return [(UGE(c, bv(1)), c, env.get('$state'))]
    P[r'Arc::strong_count'] = strong_count; P[r'Arc::<.*>::strong_count'] = strong_count
    return one_hop


def _sequences(maxlen):
    """Operation sequences as lists of (op, arg); op 'remove' names a position of the list at that moment."""
    def rec(prefix, size):
        yield prefix
        if len(prefix) == maxlen: return
        for op in ('push', 'push_front'):
            yield from rec(prefix + [(op, len(prefix))], size + 1)
        if size > 0:
            yield from rec(prefix + [('pop', 0)], size - 1)
            yield from rec(prefix + [('pop_front', 0)], size - 1)
            for i in range(size): yield from rec(prefix + [('remove', i)], size - 1)
    return [s for s in rec([], 0) if s]


def o11_5_linked_list(mir, tier):
    """Every sequence of <= 3 (thorough: 4) operations push / push_front / pop / pop_front / remove_node(any present node) on an empty
    list of symbolic elements, executed on the real code with nodes as heap cells (Arc = pointer to a cell, Weak = the same
    pointer, RwLock transparent).  Reference: a Python list.  Afterwards iter() yields exactly the reference elements from head to
    tail, len() is their number, head() / tail() are the first / last (VersionSet::get_live_files walks this iterator: a version that
    is skipped loses its files to remove_obsolete_files)."""
    M = lambda n: mir.method('LinkedList', n)
    fns = {n: M(n) for n in ('new', 'push', 'push_front', 'pop', 'pop_front', 'remove_node', 'iter', 'len', 'head', 'tail')}
    nxt = mir.method('NodeIter', 'next', 'Iterator')
    L = 3 if tier == 'quick' else 4
    seqs = _sequences(L)
    res = Result('O11.5 LinkedList vs a sequence', [f.path for f in fns.values()] + [nxt.path, 'LinkedList::push_node / push_node_front, Node::new (inlined)'],
                 'all %d operation sequences of length <= %d over push, push_front, pop, pop_front, remove_node(any present node); elements symbolic' % (len(seqs), L))
    t0 = time.time()
    nf = mir.struct_fields('Node')
    for seq in seqs:
        S = lib.std_summaries(); P = S['$patterns']
        lib.combinator_summaries(P)
        _pointer_summaries(P)
        ex = Exec(mir, S, loop_bound=L + 4)
        elems = [BitVec('element%d' % i, 64) for i in range(len(seq))]
        def run(i, env, pc, ref, nodes, ex=ex, seq=seq, elems=elems):
            if i == len(seq): return check(env, pc, ref, ex, seq)
            op, arg = seq[i]
            if op in ('push', 'push_front'):
                def after(r, e2, p2):
                    if not isinstance(r, Ref): raise Inconclusive('%s did not return a node pointer: %r' % (op, r))
                    if op == 'push': run(i + 1, e2, p2, ref + [elems[i]], nodes + [r])
                    else: run(i + 1, e2, p2, [elems[i]] + ref, [r] + nodes)
                return ex.run_fn(fns[op], [Ref('$list'), elems[i]], env, pc, after)
            if op == 'pop': return ex.run_fn(fns['pop'], [Ref('$list')], env, pc, lambda r, e2, p2: run(i + 1, e2, p2, ref[:-1], nodes[:-1]))
            if op == 'pop_front': return ex.run_fn(fns['pop_front'], [Ref('$list')], env, pc, lambda r, e2, p2: run(i + 1, e2, p2, ref[1:], nodes[1:]))
            return ex.run_fn(fns['remove_node'], [Ref('$list'), nodes[arg]], env, pc, lambda r, e2, p2: run(i + 1, e2, p2, ref[:arg] + ref[arg + 1:], nodes[:arg] + nodes[arg + 1:]))
        def elem_of(ex, env, node):
            v = node
            while isinstance(v, Ref): v = ex.deref(env, v)
            return v[nf.index('element')] if isinstance(v, dict) else None
        def check(env, pc, ref, ex, seq):
            def with_iter(it, e1, p1):
                e1 = dict(e1); e1['$it'] = it
                got = []
                def step(e2, p2, n):
                    if n > len(ref) + 2: return finish(e2, p2, got + ['...'])
                    def after(r, e3, p3):
                        if isinstance(r, Enum) and r.tag == 'Some':
                            got.append(elem_of(ex, e3, r.fields[0])); return step(e3, p3, n + 1)
                        return finish(e3, p3, list(got))
                    ex.run_fn(nxt, [Ref('$it')], e2, p2, after)
                step(e1, p1, 0)
            def finish(env2, pc2, got):
                def with_len(ln, e3, p3):
                    def with_head(h, e4, p4):
                        def with_tail(t, e5, p5):
                            def end_elem(x): return elem_of(ex, e5, x.fields[0]) if isinstance(x, Enum) and x.tag == 'Some' else None
                            same = BoolVal(len(got) == len(ref) and '...' not in got)
                            if len(got) == len(ref) and '...' not in got: same = And(*[g == r for g, r in zip(got, ref)]) if ref else BoolVal(True)
                            def end_ok(x, want):
                                e = end_elem(x)
                                if want is None: return BoolVal(e is None)
                                return BoolVal(False) if e is None else e == want
                            posts = [('iter() does not yield exactly the listed elements from head to tail (get_live_files would miss a live version)', same),
                                     ('len() differs from the number of listed elements', ln == bv(len(ref))),
                                     ('head() / tail() are not the first / last listed element', And(end_ok(h, ref[0] if ref else None), end_ok(t, ref[-1] if ref else None)))]
                            res.cases['%d ops' % len(seq)] = res.cases.get('%d ops' % len(seq), 0) + 1
                            for label, post, m in ex.check_posts(posts, p5):
                                res.violations.append({'label': label, 'ops': [list(o) for o in seq], 'yielded': len(got), 'expected': len(ref),
                                                       'replay': ['linked_list'] + ['%s:%d' % (o, a) for o, a in seq]})
                        ex.run_fn(fns['tail'], [Ref('$list')], e4, p4, with_tail)
                    ex.run_fn(fns['head'], [Ref('$list')], e3, p3, with_head)
                ex.run_fn(fns['len'], [Ref('$list')], env2, pc2, with_len)
            ex.run_fn(fns['iter'], [Ref('$list')], env, pc, with_iter)
        def created(lst, env, pc):
            e = dict(env); e['$list'] = lst; run(0, e, pc, [], [])
        ex.top(fns['new'], [], {'$state': {}}, [], created)
        res.absorb(ex)
        for pcx, msg, where in ex.panics:
            res.panic_paths += 1; res.violations.append({'label': 'panic path: ' + msg[:80], 'ops': [list(o) for o in seq], 'replay': ['linked_list'] + ['%s:%d' % (o, a) for o, a in seq]})
    res.wall_s = time.time() - t0
    if res.violations: res.status = 'violation'
    return res


def o11_5_confirm(v, out):
    """Native: the same operations on a real LinkedList<u64> (elements 100, 101, ...)."""
    if out.get('_rc') != 0: return (True, 'native list panicked: %s' % out.get('_stderr', '')[-200:])
    return (out.get('order') != out.get('expected') or out.get('len') != out.get('expected_len') or out.get('ends') != out.get('expected_ends'),
            'native: iter() yields [%s], expected [%s]; len %s / %s; ends %s / %s' % (out.get('order'), out.get('expected'), out.get('len'), out.get('expected_len'), out.get('ends'), out.get('expected_ends')))


def o3_4_snapshot_list(mir, tier):
    """SnapshotList (built on the linked list above, executed for real): every sequence of <= 3 (thorough: 4) operations
    new_snapshot(next sequence number, non-decreasing) / delete_snapshot(any live snapshot).  Reference: oldest() is the live
    snapshot taken first (smallest sequence number - the bound below which a compaction may drop shadowed entries, O3.2a),
    newest() the one taken last, is_empty() iff none is live."""
    M = lambda n: mir.method('SnapshotList', n)
    fns = {n: M(n) for n in ('new', 'new_snapshot', 'delete_snapshot', 'is_empty', 'oldest', 'newest')}
    L = 4 if tier == 'quick' else 5
    def seqs_of(maxlen):
        def rec(prefix, size):
            yield prefix
            if len(prefix) == maxlen: return
            yield from rec(prefix + [('new', len(prefix))], size + 1)
            for i in range(size): yield from rec(prefix + [('delete', i)], size - 1)
        return [s for s in rec([], 0) if s]
    seqs = seqs_of(L)
    res = Result('O3.4 SnapshotList: oldest / newest live snapshot', [f.path for f in fns.values()] + ['LinkedList::push / remove_node / head / tail / is_empty, Snapshot::new / inner (inlined)'],
                 'all %d sequences of length <= %d over new_snapshot (non-decreasing free sequence numbers) and delete_snapshot(any live snapshot)' % (len(seqs), L))
    t0 = time.time()
    nf = mir.struct_fields('Node')
    from z3 import ULE
    def replays(seq, m):
        # native candidates: a write between any two snapshots; no write between snapshots whose sequence numbers are equal in the
        # model; no write between any two snapshots (snapshots of one state)
        out = []
        for mode in ('writes', 'model', 'same'):
            toks = []; prev = None
            for i, (o, a) in enumerate(seq):
                if o != 'new': toks.append('%s:%d' % (o, a)); continue
                same = prev is not None and (mode == 'same' or (mode == 'model' and m is not None and mval(m, BitVec('sequence%d' % i, 64)) == mval(m, BitVec('sequence%d' % prev, 64))))
                toks.append('new:%d%s' % (a, ':same' if same else '')); prev = i
            if ['snapshot_list'] + toks not in out: out.append(['snapshot_list'] + toks)
        return out
    for seq in seqs:
        S = lib.std_summaries(); P = S['$patterns']
        lib.combinator_summaries(P)
        _pointer_summaries(P)
        ex = Exec(mir, S, loop_bound=L + 4)
        nums = [BitVec('sequence%d' % i, 64) for i in range(len(seq))]
        news = [i for i, (o, a) in enumerate(seq) if o == 'new']
        pre = [ULE(nums[news[j]], nums[news[j + 1]]) for j in range(len(news) - 1)]
        def seq_of(ex, env, node):
            v = node
            while isinstance(v, Ref): v = ex.deref(env, v)
            e = v[nf.index('element')] if isinstance(v, dict) else None
            return e[0] if isinstance(e, dict) else e
        def run(i, env, pc, live, ex=ex, seq=seq, nums=nums):
            if i == len(seq): return check(env, pc, live, ex, seq)
            op, arg = seq[i]
            if op == 'new':
                return ex.run_fn(fns['new_snapshot'], [Ref('$sl'), nums[i]], env, pc, lambda r, e2, p2: run(i + 1, e2, p2, live + [(nums[i], r)]))
            return ex.run_fn(fns['delete_snapshot'], [Ref('$sl'), live[arg][1]], env, pc, lambda r, e2, p2: run(i + 1, e2, p2, live[:arg] + live[arg + 1:]))
        def check(env, pc, live, ex, seq):
            def with_empty(em, e1, p1):
                posts = [('is_empty() is wrong about whether a snapshot is live', em == BoolVal(len(live) == 0))]
                def fin(old, new, e3, p3):
                    if live:
                        posts.append(('oldest() is not the live snapshot that was taken first (a compaction bounded by it would drop entries an older snapshot still reads)', seq_of(ex, e3, old) == live[0][0]))
                        posts.append(('newest() is not the live snapshot that was taken last', seq_of(ex, e3, new) == live[-1][0]))
                    res.cases['%d ops' % len(seq)] = res.cases.get('%d ops' % len(seq), 0) + 1
                    for label, post, m in ex.check_posts(posts, p3):
                        for rp in replays(seq, m): res.violations.append({'label': label, 'ops': [list(o) for o in seq], 'live': len(live), 'replay': rp})
                if not live: return fin(None, None, e1, p1)
                ex.run_fn(fns['oldest'], [Ref('$sl')], e1, p1, lambda old, e2, p2: ex.run_fn(fns['newest'], [Ref('$sl')], e2, p2, lambda new, e3, p3: fin(old, new, e3, p3)))
            ex.run_fn(fns['is_empty'], [Ref('$sl')], env, pc, with_empty)
        def created(sl, env, pc):
            e = dict(env); e['$sl'] = sl; run(0, e, pc, [])
        ex.top(fns['new'], [], {'$state': {}}, pre, created)
        res.absorb(ex)
        for pcx, msg, where in ex.panics:
            ex.solver.push(); ex.solver.add(*pre); ex.solver.add(*[c for c in pcx if not isinstance(c, bool)]); feas = str(ex.solver.check()) == 'sat'; ex.solver.pop()
            if feas:
                res.panic_paths += 1
                for rp in replays(seq, None): res.violations.append({'label': 'panic path: ' + msg[:80], 'ops': [list(o) for o in seq], 'replay': rp})
    res.wall_s = time.time() - t0
    if res.violations: res.status = 'violation'
    return res


def o3_4_confirm(v, out):
    """Native: the same operations through DB::get_snapshot / release_snapshot with a write between the snapshots; a manual compaction
    then runs and every live snapshot must still read the value it saw."""
    if out.get('_rc') != 0: return (True, 'native run panicked: %s' % out.get('_stderr', '')[-200:])
    return (out.get('wrong', '0') != '0', 'native: after a full compaction %s of %s live snapshots read another value than when they were taken (first: %s)' % (out.get('wrong'), out.get('live'), out.get('first_wrong')))


def o3_5_compaction_state_bound(mir, tier):
    """CompactionState::new(manifest, s) followed by get_smallest_snapshot(): the bound the keep / drop rule of the merge loop (O3.2b)
    consults is exactly the oldest-snapshot sequence number the prologue of compact_tables computed (O3.2a), for every 64-bit s;
    the manifest handed in is the one handed back and no output exists yet."""
    new = mir.method('CompactionState', 'new'); get = mir.method('CompactionState', 'get_smallest_snapshot')
    res = Result('O3.5 CompactionState carries the oldest-snapshot bound unchanged', [new.path, get.path], 'bound free (64 bit)')
    t0 = time.time()
    S = lib.std_summaries()
    ex = Exec(mir, S, loop_bound=3)
    s = BitVec('oldest_snapshot_sequence', 64)
    sf = mir.struct_fields('CompactionState')
    def made(st, env, pc):
        e = dict(env); e['$st'] = st
        def got(v, e2, p2):
            posts = [('the bound the merge loop consults is not the oldest-snapshot sequence number that was computed for this compaction (entries a live snapshot still reads can be dropped, or shadowed entries are kept for ever)', v == s),
                     ('a new compaction state does not carry the manifest it was given / already lists outputs', BoolVal(isinstance(st[sf.index('compaction_manifest')], dict) and st[sf.index('compaction_manifest')].get('marker') == 'manifest' and st[sf.index('output_files')] == []))]
            res.cases['new + get'] = 1
            for label, post, m in ex.check_posts(posts, p2):
                res.violations.append({'label': label, 'bound': mval(m, s), 'replay': ['snapshot_list', 'new:0']})
        ex.run_fn(get, [Ref('$st')], e, pc, got)
    ex.top(new, [{'marker': 'manifest', '__ty': 'CompactionManifest'}, s], {'$state': {}}, [], made)
    res.absorb(ex)
    res.wall_s = time.time() - t0
    if res.violations: res.status = 'violation'
    return res
