"""O10.6 DB::build_table_from_iterator: what a flush writes and which key range it records for the new table."""
import time
from z3 import BitVec, BitVecVal, Bool, BoolVal, And, Or, Not, ULT, ULE
from ..exec import Exec, Enum, Ref, Opaque, Inconclusive, bv
from ..ob import Result, World, mval, klt
from .. import lib, absiter
from .version import base_summaries


def o10_6_build_table(mir, tier):
    """The source iterator holds N = 0..3 entries in ascending internal-key order (RainDbIterator contract; user keys may repeat
    with descending sequence numbers).  Reference: every entry is handed to the table builder exactly once, in order; the recorded
    smallest key is the first entry's key and the largest key the last entry's key (exact internal keys); the recorded size is the
    builder's; nothing is built for an empty source; every failing step is reported and a table that cannot be opened is removed."""
    fn = mir.method('DB', 'build_table_from_iterator')
    NMAX = 3 if tier == 'quick' else 4
    res = Result('O10.6 DB::build_table_from_iterator', [fn.path], 'source of 0..%d entries; TableBuilder::new / add_entry / finalize, TableCache::find_table, remove_file succeed or fail (free)' % NMAX)
    t0 = time.time()
    mf = mir.struct_fields('FileMetadata')
    DYN = r'<dyn RainDbIterator<Error = RainDBError, Key = InternalKey> as RainDbIterator>::'
    for N in range(0, NMAX + 1):
        w = World(mir)
        ents = [(w.key('e%d' % i), {'len': BitVec('vlen%d' % i, 64), 'kind': 'value%d' % i}) for i in range(N)]
        KE = [w.K(e[0]) for e in ents]
        pre = list(w.pre) + [klt(KE[i], KE[i + 1]) for i in range(N - 1)]
        from z3 import UGE
        new_ok, fin_ok, open_ok, rm_ok = Bool('builder_new_ok'), Bool('finalize_ok'), Bool('table_opens'), Bool('remove_ok')
        add_ok = [Bool('add_ok_%d' % i) for i in range(N)]
        fsize = BitVec('built_file_size', 64)
        pre.append(UGE(fsize, bv(48)))        # a finalized table holds at least its footer
        S = base_summaries(mir); P = S['$patterns']
        S.update(absiter.summaries([DYN.replace('\\', '')], w.K))
        for k_ in list(S):
            if k_.startswith('<dyn RainDbIterator'): P[k_.replace('<', r'<').replace('(', r'\(')] = S[k_]
        def ev(env, e):
            st = dict(env['$state']); st['events'] = st['events'] + [e]; return st
        def P_(se, env, v):
            v = se.deref(env, v) if isinstance(v, Ref) else v
            while isinstance(v, Ref): v = se.deref(env, v)
            return v
        P[r'DbOptions::db_path'] = lambda se, env, pc, o: lib.one(env, {'str': 'db'})
        P[r'<str as ToString>::to_string'] = lib.ident
        P[r'FileNameHandler::new'] = lambda se, env, pc, s: lib.one(env, {'abstract': True, '__ty': 'FileNameHandler'})
        P[r'FileNameHandler::get_table_file_path'] = lambda se, env, pc, h, n: lib.one(env, {'path': 'table', 'num': n})
        P[r'<PathBuf as Deref>::deref'] = lib.ident
        P[r'<DbOptions as Clone>::clone'] = lib.ident
        P[r'DbOptions::filesystem_provider'] = lambda se, env, pc, o: lib.one(env, {'abstract': True, '__ty': 'fs'})
        P[r'FileMetadata::file_number'] = lambda se, env, pc, f: lib.one(env, P_(se, env, f)[mf.index('file_number')])
        def tb_new(se, env, pc, o, n):
            st = ev(env, ('builder.new', n))
            return [(new_ok, Enum('Ok', ({'abstract': True, '__ty': 'TableBuilder'},)), st), (Not(new_ok), Enum('Err', (Enum('IO', (Opaque('e'),), 'TableBuildError'),)), st)]
        P[r'TableBuilder::new'] = tb_new
        def tb_add(se, env, pc, tb, key, val):
            kv = P_(se, env, key); i = len([e for e in env['$state']['events'] if e[0] == 'add'])
            st = ev(env, ('add', kv, P_(se, env, val)))
            okv = add_ok[i] if i < len(add_ok) else BoolVal(True)
            return [(okv, Enum('Ok', ((),)), st), (Not(okv), Enum('Err', (Enum('IO', (Opaque('e'),), 'TableBuildError'),)), st)]
        P[r'TableBuilder::add_entry'] = tb_add
        def tb_fin(se, env, pc, tb):
            st = ev(env, ('finalize',))
            return [(fin_ok, Enum('Ok', ((),)), st), (Not(fin_ok), Enum('Err', (Enum('IO', (Opaque('e'),), 'TableBuildError'),)), st)]
        P[r'TableBuilder::finalize'] = tb_fin
        P[r'TableBuilder::file_size'] = lambda se, env, pc, tb: lib.one(env, fsize)
        def find(se, env, pc, tc, n):
            st = ev(env, ('open', n))
            return [(open_ok, Enum('Ok', ({'table_of': n},)), st), (Not(open_ok), Enum('Err', (Enum('IO', (Opaque('e'),), 'ReadError'),)), st)]
        P[r'TableCache::find_table'] = find
        P[r'(?:table::)?Table::iter_with'] = lambda se, env, pc, t, ro: lib.one(env, {'abstract': True, '__ty': 'TwoLevelIterator'})
        P[r'<ReadOptions as Default>::default'] = lambda se, env, pc: lib.one(env, {'abstract': True, '__ty': 'ReadOptions'})
        def rm(se, env, pc, fs, p):
            st = ev(env, ('remove', P_(se, env, p)))
            return [(rm_ok, Enum('Ok', ((),)), st), (Not(rm_ok), Enum('Err', ({'kind': 'Other'},)), st)]
        P[r'<dyn FileSystem as FileSystem>::remove_file'] = rm
        P[r'Rc::new'] = lib.ident
        P[r'<RainDBError as From<.*>>::from'] = lambda se, env, pc, e: lib.one(env, Enum('TableBuild', (e,), 'RainDBError'))
        P[r'<.* as Into<RainDBError>>::into'] = lambda se, env, pc, e: lib.one(env, Enum('TableRead', (e,), 'RainDBError'))
        P[r'<Result<.*> as FromResidual<Result<Infallible, .*>>>::from_residual'] = lambda se, env, pc, r: lib.one(env, Enum('Err', (Enum('TableBuild', (r.fields[0],), 'RainDBError'),)) if isinstance(r, Enum) and r.tag == 'Err' else r)
        ex = Exec(mir, S, loop_bound=NMAX + 4, opaque_calls_ok=True)
        kf = mir.struct_fields('InternalKey')
        def same(a, b):
            if not (isinstance(a, dict) and isinstance(b, dict)): return BoolVal(False)
            return And(*[a[i] == b[i] for i in range(len(kf))])
        def k(ret, env, pc, N=N, ents=ents, ex=ex):
            evs = env['$state']['events']; kinds = [e[0] for e in evs]
            md = ex.deref(env, Ref('$md'))
            ok = isinstance(ret, Enum) and ret.tag == 'Ok'
            adds = [e for e in evs if e[0] == 'add']
            all_add = And(*add_ok) if add_ok else BoolVal(True)
            posts = []
            if N == 0:
                posts.append(('a table is built (or an error reported) for an empty source', BoolVal(ok and 'builder.new' not in kinds)))
            else:
                posts.append(('build_table_from_iterator succeeds although a step failed, or fails although none did',
                              BoolVal(ok) == And(new_ok, all_add, fin_ok, open_ok, Or(BoolVal(True)))))
                if ok:
                    posts.append(('not every entry of the source is added to the table exactly once and in order', And(BoolVal(len(adds) == N), *[same(adds[i][1], ex.deref(env, Ref('$src'))['entries'][i][0]) for i in range(min(N, len(adds)))])))
                    posts.append(('the table is not finalized after the last entry / not opened for verification', BoolVal(kinds[-2:] == ['finalize', 'open'] and kinds.index('finalize') > max(i for i, x in enumerate(kinds) if x == 'add'))))
                    sm, lg = md[mf.index('smallest_key')], md[mf.index('largest_key')]
                    posts.append(('the recorded smallest key is not the key of the first entry written to the table', same(sm.fields[0], ents[0][0]) if isinstance(sm, Enum) and sm.tag == 'Some' else BoolVal(False)))
                    posts.append(('the recorded largest key is not the key of the last entry written to the table', same(lg.fields[0], ents[N - 1][0]) if isinstance(lg, Enum) and lg.tag == 'Some' else BoolVal(False)))
                    posts.append(('the recorded file size is not the size of the built table', md[mf.index('file_size')] == fsize))
                if 'open' in kinds and not ok:
                    posts.append(('a table that cannot be opened after the build is left in place', Or(open_ok, BoolVal('remove' in kinds))))
            res.cases['N=%d %s %s' % (N, 'Ok' if ok else 'Err', ','.join(kinds))[:110]] = 1
            for label, post, m in ex.check_posts(posts, pc):
                rep = 'smallest key' in label or 'largest key' in label
                res.violations.append({'label': label, 'entries': N, 'events': kinds, 'same_user_key_first_two': (mval(m, KE[0][0] == KE[1][0]) if N >= 2 else None),
                                       'replay': ['flush_bounds'] if rep else None, 'confirmed_by': None if rep else {'reproduced': False, 'detail': 'no native scenario for this label'}})
        md0 = mir.mk_struct('FileMetadata', allowed_seeks=Enum('None'), file_number=BitVec('file_number', 64), file_size=bv(0), smallest_key=Enum('None'), largest_key=Enum('None'))
        env = {'$state': {'events': []}, '$md': md0, '$src': absiter.make(ents), '$tc': {'abstract': True, '__ty': 'TableCache'}}
        ex.top(fn, [{'abstract': True, '__ty': 'DbOptions'}, Ref('$md'), Ref('$src'), Ref('$tc')], env, pre, k)
        res.absorb(ex)
        for pc, msg, where in ex.panics:
            res.panic_paths += 1; res.violations.append({'label': 'panic path: ' + msg[:80], 'entries': N, 'replay': None, 'confirmed_by': {'reproduced': False, 'detail': 'no native scenario'}})
    res.wall_s = time.time() - t0
    if res.violations: res.status = 'violation'
    return res


def o10_6_confirm(v, out):
    """Native: put a=1, put a=2, put z=3, flush; the table reported for the flush must span a @ 2 .. z @ 3."""
    if out.get('_rc') != 0: return (False, 'native run failed: %s' % out.get('_stderr', '')[-300:])
    return ('[a @ 2 : Put..z @ 3 : Put]' not in out.get('tables', ''), 'tables after the flush: %s (expected range a @ 2 .. z @ 3)' % out.get('tables'))
