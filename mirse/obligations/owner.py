"""O17.2 DB::destroy_database and O17.3 <DB as Drop>::drop: the database lock around destruction and shutdown."""
import time
from z3 import BitVec, Bool, BoolVal, And, Or, Not
from ..exec import Exec, Enum, Ref, Opaque, Inconclusive, bv
from ..ob import Result, mval
from .. import lib, lib2

GUARD = r'<parking_lot::lock_api::MutexGuard<.*> as Deref(?:Mut)?>::deref(?:_mut)?'


def o17_2_destroy(mir, tier):
    """Directory listing, lock acquisition and every removal succeed or fail (free); the database directory holds a lock file, a
    CURRENT file and an unparsable name.  Reference: nothing is removed before the database lock is held; if the lock cannot be
    taken (another handle owns the database) destroy_database fails and removes nothing; the lock file itself is removed last."""
    fn = mir.method('DB', 'destroy_database')
    res = Result('O17.2 DB::destroy_database holds the lock before it removes anything', [fn.path], 'list_dir / lock_file / remove_dir_all / remove_file / remove_dir each succeed or fail (free); three directory entries')
    t0 = time.time()
    S = lib2.install(lib.std_summaries()); P = S['$patterns']
    list_ok, lock_ok = Bool('list_ok'), Bool('lock_ok')
    rm = {n: Bool('remove_%s_ok' % n) for n in ('wal_dir', 'data_dir', 'file', 'lock_file', 'db_dir')}
    def ev(env, e):
        st = dict(env['$state']); st['events'] = st['events'] + [e]; return st
    def P_(se, env, v):
        v = se.deref(env, v) if isinstance(v, Ref) else v
        while isinstance(v, Ref): v = se.deref(env, v)
        return v
    P[r'DbOptions::filesystem_provider'] = lambda se, env, pc, o: lib.one(env, {'abstract': True, '__ty': 'fs'})
    P[r'DbOptions::db_path'] = lambda se, env, pc, o: lib.one(env, {'str': 'db'})
    P[r'<str as ToString>::to_string'] = lib.ident
    P[r'FileNameHandler::new'] = lambda se, env, pc, s: lib.one(env, {'abstract': True, '__ty': 'FileNameHandler'})
    for n in ('db_path', 'lock_file_path', 'wal_dir', 'data_dir'):
        P[r'FileNameHandler::get_%s' % n] = (lambda n: lambda se, env, pc, h: lib.one(env, {'path': n}))(n)
    P[r'<PathBuf as Deref>::deref'] = lib.ident
    entries = [{'path': 'entry-lock'}, {'path': 'entry-current'}, {'path': 'entry-junk'}]
    def list_dir(se, env, pc, fs, p):
        st = ev(env, 'list_dir')
        return [(list_ok, Enum('Ok', (list(entries),)), st), (Not(list_ok), Enum('Err', ({'kind': 'Other', '__ty': 'io::Error'},)), st)]
    P[r'<dyn FileSystem as FileSystem>::list_dir'] = list_dir
    def lock(se, env, pc, fs, p):
        st = ev(env, 'lock')
        return [(lock_ok, Enum('Ok', ({'abstract': True, '__ty': 'FileLock'},)), st), (Not(lock_ok), Enum('Err', ({'kind': 'Other', '__ty': 'io::Error'},)), st)]
    P[r'<dyn FileSystem as FileSystem>::lock_file'] = lock
    def remover(kind):
        def f(se, env, pc, fs, p):
            path = P_(se, env, p); what = path.get('path') if isinstance(path, dict) else '?'
            key = {'wal_dir': 'wal_dir', 'data_dir': 'data_dir', 'lock_file_path': 'lock_file', 'db_path': 'db_dir'}.get(what, 'file')
            st = ev(env, 'remove:' + str(what))
            return [(rm[key], Enum('Ok', ((),)), st), (Not(rm[key]), Enum('Err', ({'kind': 'Other', '__ty': 'io::Error'},)), st)]
        return f
    for n in ('remove_dir_all', 'remove_file', 'remove_dir'): P[r'<dyn FileSystem as FileSystem>::%s' % n] = remover(n)
    def ftype(se, env, pc, p):
        what = P_(se, env, p).get('path')
        if what == 'entry-lock': return lib.one(env, Enum('Ok', (Enum('DBLockFile', (), 'ParsedFileType'),)))
        if what == 'entry-current': return lib.one(env, Enum('Ok', (Enum('CurrentFile', (), 'ParsedFileType'),)))
        return lib.one(env, Enum('Err', (Opaque('parse error'),)))
    P[r'FileNameHandler::get_file_type_from_name'] = ftype
    P[r'<Vec<PathBuf> as IntoIterator>::into_iter'] = lib.into_iter_owned
    P[r'<std::vec::IntoIter<.*> as Iterator>::next'] = lib.it_next
    P[r'<Result<.*> as FromResidual<Result<Infallible, .*>>>::from_residual'] = lambda se, env, pc, r: lib.one(env, r)
    P[r'<RainDBError as From<.*>>::from'] = lambda se, env, pc, e: lib.one(env, Enum('IO', (e,), 'RainDBError'))
    def drop_lock(se, env, pc, x):
        v = P_(se, env, x)
        st = ev(env, 'release_lock') if isinstance(v, dict) and v.get('__ty') == 'FileLock' else env['$state']
        return [(None, (), st)]
    P[r'std::mem::drop'] = drop_lock; P[r'core::mem::drop'] = drop_lock
    def drop_hook(se, env, ty, val):
        # a FileLock (or the Result holding it) going out of scope releases the lock
        v = val
        if isinstance(v, Enum) and v.tag == 'Ok' and v.fields: v = v.fields[0]
        if isinstance(v, dict) and v.get('__ty') == 'FileLock' and 'release_lock' not in env['$state']['events']:
            st = dict(env['$state']); st['events'] = st['events'] + ['release_lock']; env['$state'] = st
    S['$drop'] = drop_hook
    ex = Exec(mir, S, loop_bound=8, opaque_calls_ok=True, max_paths=4000)
    def k(ret, env, pc):
        evs = env['$state']['events']; ok = isinstance(ret, Enum) and ret.tag == 'Ok'
        removes = [i for i, e in enumerate(evs) if e.startswith('remove:')]
        posts = [('destroy_database removes files although the database lock could not be taken (another handle owns the database)', Or(lock_ok, BoolVal(not removes))),
                 ('destroy_database removes something before it holds the database lock', BoolVal(not removes or ('lock' in evs and evs.index('lock') < removes[0]))),
                 ('destroy_database reports success although the lock could not be taken or the directory could not be listed', Or(BoolVal(not ok), And(lock_ok, list_ok))),
                 ('the lock file is removed while other files of the database are still to be removed', BoolVal('remove:lock_file_path' not in evs or all(evs.index('remove:lock_file_path') > i for i in removes if evs[i] not in ('remove:lock_file_path', 'remove:db_path')))),
                 ('destroy_database reports success although a removal failed', Or(BoolVal(not ok), And(*rm.values()))),
                 ('destroy_database gives the database lock up before it has removed the files of the database (it only probes the lock: another handle can open the database while it is being deleted)',
                  BoolVal('release_lock' not in evs or all(i < evs.index('release_lock') for i in removes if evs[i] not in ('remove:lock_file_path', 'remove:db_path'))))]
        res.cases[('Ok ' if ok else 'Err ') + ','.join(evs)[:100]] = 1
        for label, post, m in ex.check_posts(posts, pc):
            rep = 'although the database lock could not be taken' in label or 'before it holds the database lock' in label or 'only probes the lock' in label
            res.violations.append({'label': label, 'events': evs, 'replay': ['open_during_destroy'] if 'only probes the lock' in label else ['second_open'] if rep else None, 'confirmed_by': None if rep else {'reproduced': False, 'detail': 'no native scenario for this label'}})
    env = {'$state': {'events': []}}
    ex.top(fn, [{'abstract': True, '__ty': 'DbOptions'}], env, [], k)
    ex.bound_hits = []
    res.absorb(ex)
    for pcx, msg, where in ex.panics:
        res.panic_paths += 1; res.violations.append({'label': 'panic path: ' + msg[:80], 'replay': None, 'confirmed_by': {'reproduced': False, 'detail': 'no native scenario'}})
    res.wall_s = time.time() - t0
    if res.violations: res.status = 'violation'
    return res


def o17_3_drop(mir, tier):
    """<DB as Drop>::drop with background work pending for 0, 1 or 2 wake-ups of the condition variable (the environment clears the
    scheduled flag at the last one).  Reference: the shutdown flag is set before waiting; the database lock is given up only after
    no background work is scheduled any more (a new owner must not meet a running compaction of the old one)."""
    fn = mir.method('DB', 'drop', 'Drop')
    res = Result('O17.3 <DB as Drop>::drop releases the lock after background work has stopped', [fn.path], 'background work pending for 0..2 wake-ups; worker join succeeds')
    t0 = time.time()
    gf = mir.struct_fields('GuardedDbFields'); df = mir.struct_fields('DB')
    for pending in (0, 1, 2):
        S = lib.std_summaries(); P = S['$patterns']
        P[GUARD] = lib.ptr_deref
        def ev(env, e):
            st = dict(env['$state']); st['events'] = st['events'] + [e]; env['$state'] = st; return st
        P[r'parking_lot::lock_api::Mutex::lock'] = lambda se, env, pc, m: lib.one(env, Ref('$g'))
        P[r'<Arc<parking_lot::lock_api::Mutex<.*>> as Deref>::deref'] = lib.ident
        P[r'(?:Atomic|AtomicBool)::store'] = lambda se, env, pc, a, v, o: [(None, (), ev(env, 'set_shutting_down'))]
        def wait(se, env, pc, cv, g, pending=pending):
            st = ev(env, 'wait'); n = len([e for e in st['events'] if e == 'wait'])
            if n >= pending:
                gv = dict(se.deref(env, Ref('$g'))); gv[gf.index('background_compaction_scheduled')] = BoolVal(False); env['$g'] = gv
            return [(None, (), env['$state'])]
        P[r'(?:parking_lot::)?Condvar::wait'] = wait
        P[r'<Arc<parking_lot::Condvar> as Deref>::deref'] = lib.ident
        def take(se, env, pc, r):
            v = se.deref(env, r)
            if isinstance(v, Enum) and v.tag == 'Some' and isinstance(v.fields[0], dict) and v.fields[0].get('__ty') == 'FileLock':
                st = ev(env, 'release_lock:scheduled=%s' % se.deref(env, Ref('$g'))[gf.index('background_compaction_scheduled')])
            se.store(env, r, Enum('None')); return [(None, v, env['$state'])]
        P[r'Option::take'] = take
        P[r'(?:Atomic|AtomicPtr)::load'] = lambda se, env, pc, *a: lib.one(env, {'ptr': 'wal', 'null': BoolVal(True)})
        P[r'(?:core|std)::ptr::mut_ptr::<impl \*mut .*>::is_null'] = lambda se, env, pc, p: lib.one(env, p['null'])
        P[r'Arc::get_mut'] = lambda se, env, pc, a: lib.one(env, Enum('Some', (a,)))
        P[r'CompactionWorker::stop_worker_thread'] = lambda se, env, pc, w: [(None, Enum('Some', ({'abstract': True, '__ty': 'JoinHandle'},)), ev(env, 'stop_worker'))]
        P[r'(?:std::thread::)?JoinHandle::join'] = lambda se, env, pc, h: [(None, Enum('Ok', ((),)), ev(env, 'join_worker'))]
        P[r'std::mem::drop'] = lib.unit; P[r'core::mem::drop'] = lib.unit
        ex = Exec(mir, S, loop_bound=5, opaque_calls_ok=True)
        def k(ret, env, pc, pending=pending, ex=ex):
            evs = env['$state']['events']
            rel = [e for e in evs if e.startswith('release_lock')]
            posts = [('the database lock is not released when the database is dropped', BoolVal(len(rel) == 1)),
                     ('the database lock is released while background work of this instance is still scheduled', BoolVal(all(e.endswith('False') for e in rel))),
                     ('shutdown is not announced before waiting for the background work', BoolVal('set_shutting_down' in evs and ('wait' not in evs or evs.index('set_shutting_down') < evs.index('wait')))),
                     ('the drop does not wait for pending background work', BoolVal(evs.count('wait') == pending)),
                     ('the worker thread is not stopped and joined', BoolVal('stop_worker' in evs and 'join_worker' in evs))]
            res.cases['pending=%d %s' % (pending, ','.join(evs))] = 1
            for label, post, m in ex.check_posts(posts, pc):
                rep = 'still scheduled' in label or 'does not wait' in label
                res.violations.append({'label': label, 'events': evs, 'replay': ['close_while_background_busy'] if rep else None, 'confirmed_by': None if rep else {'reproduced': False, 'detail': 'no native scenario for this label'}})
        g = mir.mk_struct('GuardedDbFields', background_compaction_scheduled=BoolVal(pending > 0))
        db = mir.mk_struct('DB', db_lock=Enum('Some', ({'abstract': True, '__ty': 'FileLock'},)), guarded_fields='mutex', is_shutting_down='flag', background_work_finished_signal='cv',
                           wal='walptr', compaction_worker={'abstract': True, '__ty': 'CompactionWorker'})
        env = {'$state': {'events': []}, '$g': g, '$db': db}
        ex.top(fn, [Ref('$db')], env, [], k)
        ex.bound_hits = []
        res.absorb(ex)
        for pcx, msg, where in ex.panics:
            res.panic_paths += 1; res.violations.append({'label': 'panic path: ' + msg[:80], 'replay': None, 'confirmed_by': {'reproduced': False, 'detail': 'no native scenario'}})
    res.wall_s = time.time() - t0
    if res.violations: res.status = 'violation'
    return res


def o17_confirm(v, out):
    """Native scenarios on the disk file system (real flock)."""
    from .dbopen import o17_1_confirm
    if out.get('_rc') != 0 and not out.get('_timeout'): return (False, 'native run failed: %s' % out.get('_stderr', '')[-300:])
    r = v['replay'][0]
    if r == 'open_during_destroy':
        return (out.get('open_during_destroy') == 'ok', 'a DB::open attempted while destroy_database was deleting files: %s' % out.get('open_during_destroy'))
    if r == 'close_while_background_busy':
        return (out.get('open_while_closing') == 'ok', 'background work of the closing instance still scheduled, one spurious wake-up: a second open %s' % out.get('open_while_closing'))
    return o17_1_confirm(v, out)


def o17_4_disk_lock_file(mir, tier):
    """<OsFileSystem as FileSystem>::lock_file and <TmpFileSystem as FileSystem>::lock_file with the operating system by contract
    (OpenOptions::open and fs2's try_lock_exclusive free to fail; every other std::fs call is recorded).  Reference: the lock is
    requested on the file opened at the given (for the temporary file system: rooted) path; a refused lock - another handle
    holds it - or a failed open is reported as an error and NOTHING else is done to the directory (removing or replacing the lock
    file under the owner lets the next caller lock a fresh file and become a second owner); on success the returned FileLock
    keeps that very handle open."""
    fns = [f for f in mir.fns.values() if f.name == 'lock_file' and 'fs_disk' in f.path]
    if len(fns) != 2: raise Inconclusive('expected two disk lock_file implementations, found %d' % len(fns))
    res = Result('O17.4 disk file systems: lock_file', [f.path for f in fns], 'open and try_lock_exclusive free to fail; flock itself by contract')
    t0 = time.time()
    open_ok, lock_ok = Bool('open_ok'), Bool('lock_granted')
    for fn in fns:
        S = lib.std_summaries(); P = S['$patterns']
        def ev(env, e):
            st = dict(env['$state']); st['events'] = st['events'] + [e]; env['$state'] = st; return st
        def val(se, env, x):
            k = 0
            while isinstance(x, Ref) and k < 8: x = se.deref(env, x); k += 1
            return x
        P[r'OpenOptions::new'] = lambda se, env, pc: lib.one(env, {'open_options': True})
        P[r'OpenOptions::(?:read|write|create|truncate|append|create_new)'] = lambda se, env, pc, o, b: lib.one(env, o)
        P[r'TmpFileSystem::get_rooted_path'] = lambda se, env, pc, fs, p: lib.one(env, {'rooted': val(se, env, p)})
        def open_(se, env, pc, o, path):
            st = ev(env, ('open', val(se, env, path)))
            return [(open_ok, Enum('Ok', ({'file_handle_of': val(se, env, path)},)), st), (Not(open_ok), Enum('Err', ({'kind': 'io', '__ty': 'io::Error'},)), st)]
        P[r'OpenOptions::open'] = open_
        def try_lock(se, env, pc, f):
            st = ev(env, ('try_lock', val(se, env, f)))
            return [(lock_ok, Enum('Ok', ((),)), st), (Not(lock_ok), Enum('Err', ({'kind': 'WouldBlock', '__ty': 'io::Error'},)), st)]
        P[r'<File as fs2::FileExt>::try_lock_exclusive'] = try_lock
        P[r'<File as (?:fs2::)?FileExt>::(?:lock_exclusive|unlock|lock_shared|try_lock_shared)'] = lambda se, env, pc, f: [(None, Enum('Ok', ((),)), ev(env, ('other_lock_call',)))]
        P[r'(?:(?:std::)?fs::)?(?:remove_file|remove_dir|remove_dir_all|rename|write|create_dir|create_dir_all|copy|hard_link)(?:::<.*>)?'] = lambda se, env, pc, *a: [(None, Enum('Ok', ((),)), ev(env, ('directory_change', [val(se, env, x) for x in a])))]
        P[r'(?:std::fs::)?File::(?:set_len|create)'] = lambda se, env, pc, *a: [(None, Enum('Ok', ((),)), ev(env, ('directory_change', 'file')))]
        P[r'FileLock::new'] = lambda se, env, pc, b: lib.one(env, {'file_lock_over': val(se, env, b)})
        P[r'(?:std|core)::mem::drop'] = lib.unit
        P[r'<PathBuf as Deref>::deref'] = lib.ident; P[r'<PathBuf as AsRef<Path>>::as_ref'] = lib.ident; P[r'<&PathBuf as AsRef<Path>>::as_ref'] = lib.ident
        ex = Exec(mir, S, loop_bound=3)
        is_tmp = 'TmpFileSystem' in (fn.self_ty or '') or '239' in fn.path
        def k(ret, env, pc, ex=ex, is_tmp=is_tmp, fn=fn):
            evs = env['$state']['events']; kinds = [e[0] for e in evs]
            ok = isinstance(ret, Enum) and ret.tag == 'Ok'
            opens = [e for e in evs if e[0] == 'open']
            path_ok = len(opens) == 1 and (opens[0][1] == {'rooted': {'path': 'LOCK'}} if is_tmp else opens[0][1] == {'path': 'LOCK'})
            locked = [e for e in evs if e[0] == 'try_lock']
            posts = [('lock_file does not open exactly the lock file it was asked for', BoolVal(path_ok)),
                     ('lock_file reports success although the file could not be opened or the lock was refused (or fails although both succeeded)', BoolVal(ok) == And(open_ok, lock_ok)),
                     ('the exclusive lock is not requested on the handle that was just opened', Or(Not(open_ok), BoolVal(len(locked) == 1 and isinstance(locked[0][1], dict) and 'file_handle_of' in locked[0][1]))),
                     ('lock_file changes the directory (removes / replaces a file) - with a refused lock the owner is left with a lock on a file that no longer exists and the next caller becomes a second owner', BoolVal('directory_change' not in kinds and 'other_lock_call' not in kinds))]
            if ok: posts.append(('the returned lock does not keep the locked handle', BoolVal(isinstance(ret.fields[0], dict) and isinstance(ret.fields[0].get('file_lock_over'), dict) and 'file_handle_of' in ret.fields[0]['file_lock_over'])))
            res.cases['%s: %s -> %s' % ('TmpFileSystem' if is_tmp else 'OsFileSystem', kinds, 'Ok' if ok else 'Err')] = 1
            for label, post, m in ex.check_posts(posts, pc):
                res.violations.append({'label': label, 'file_system': 'TmpFileSystem' if is_tmp else 'OsFileSystem', 'events': kinds, 'replay': ['repeated_open_attempts']})
        ex.top(fn, [{'abstract': True, '__ty': 'fs'}, {'path': 'LOCK'}], {'$state': {'events': []}}, [], k)
        res.absorb(ex)
    res.wall_s = time.time() - t0
    if res.violations: res.status = 'violation'
    return res


def o12_10_disk_create_file(mir, tier):
    """<OsFileSystem as FileSystem>::create_file and the TmpFileSystem one with the operating system by contract (every OpenOptions
    setter is recorded, open free to fail): the file at the given (rooted) path is opened with create + write, in **append mode**
    exactly when the caller asked for it (every write then goes to the end of the file: LogWriter writes with write_all, a reused
    log must never be overwritten from the start) and truncated exactly when it did not; a failed open is reported."""
    fns = [f for f in mir.fns.values() if f.name == 'create_file' and 'fs_disk' in f.path]
    if len(fns) != 2: raise Inconclusive('expected two disk create_file implementations, found %d' % len(fns))
    res = Result('O12.10 disk file systems: create_file', [f.path for f in fns], 'append flag free; OpenOptions setters recorded with their (possibly symbolic) arguments; open free to fail')
    t0 = time.time()
    open_ok, app = Bool('open_ok'), Bool('append_requested')
    for fn in fns:
        S = lib.std_summaries(); P = S['$patterns']
        def val(se, env, x):
            k = 0
            while isinstance(x, Ref) and k < 8: x = se.deref(env, x); k += 1
            return x
        P[r'OpenOptions::new'] = lambda se, env, pc: lib.one(env, {'open_options': True})
        def setter(name):
            def f(se, env, pc, o, b):
                st = dict(env['$state']); st['set'] = st['set'] + [(name, b)]
                return [(None, o, st)]
            return f
        for nm in ('read', 'write', 'create', 'truncate', 'append', 'create_new'): P[r'OpenOptions::' + nm] = setter(nm)
        P[r'TmpFileSystem::get_rooted_path'] = lambda se, env, pc, fs, p: lib.one(env, {'rooted': val(se, env, p)})
        def open_(se, env, pc, o, path):
            st = dict(env['$state']); st['opened'] = st['opened'] + [val(se, env, path)]
            return [(open_ok, Enum('Ok', ({'file_handle_of': val(se, env, path)},)), st), (Not(open_ok), Enum('Err', ({'kind': 'io', '__ty': 'io::Error'},)), st)]
        P[r'OpenOptions::open(?:::<.*>)?'] = open_
        P[r'<PathBuf as Deref>::deref'] = lib.ident; P[r'<PathBuf as AsRef<Path>>::as_ref'] = lib.ident; P[r'<&PathBuf as AsRef<Path>>::as_ref'] = lib.ident
        ex = Exec(mir, S, loop_bound=3)
        is_tmp = 'TmpFileSystem' in (fn.self_ty or '') or any(x in fn.path for x in (':239:', ' 239:'))
        def k(ret, env, pc, ex=ex, fn=fn):
            st = env['$state']; ok = isinstance(ret, Enum) and ret.tag == 'Ok'
            def flag(name):
                # the value the option ends up with (last setter wins; never set = false)
                v = BoolVal(False)
                for n, b in st['set']:
                    if n == name: v = b if not isinstance(b, bool) else BoolVal(b)
                return v
            opened = st['opened']
            path_ok = len(opened) == 1 and (opened[0] == {'path': 'file'} or opened[0] == {'rooted': {'path': 'file'}})
            posts = [('create_file does not open exactly the file it was asked for', BoolVal(path_ok)),
                     ('create_file reports success although the file could not be opened (or fails although it could)', BoolVal(ok) == open_ok),
                     ('a file requested for appending is not opened in append mode (writes of a reused log or manifest start at offset 0 and overwrite the records that are already there)', flag('append') == app),
                     ('a file that was not requested for appending is not truncated (or one requested for appending is)', flag('truncate') == Not(app)),
                     ('the file is not opened for writing / not created when missing', And(flag('write') if True else BoolVal(True), flag('create')))]
            res.cases['%s: %s' % (fn.path[-40:], [n for n, _ in st['set']])] = 1
            for label, post, m in ex.check_posts(posts, pc):
                res.violations.append({'label': label, 'file_system': fn.path[-60:], 'append_requested': mval(m, app), 'replay': ['disk_log_reuse']})
                res.violations.append({'label': label, 'file_system': fn.path[-60:], 'append_requested': mval(m, app), 'replay': ['disk_create_file_modes']})
        ex.top(fn, [{'abstract': True, '__ty': 'fs'}, {'path': 'file'}, app], {'$state': {'set': [], 'opened': []}}, [], k)
        res.absorb(ex)
    res.wall_s = time.time() - t0
    if res.violations: res.status = 'violation'
    return res


def o12_10_confirm(v, out):
    """Native: a database on the disk-backed TmpFileSystem with log reuse: write, reopen, write, reopen; every acknowledged write is read back."""
    if out.get('_rc') != 0: return (True, 'native run failed / panicked: %s' % out.get('_stderr', '')[-300:])
    if v['replay'][0] == 'disk_create_file_modes':
        return (out.get('recreated_ok') != 'true' or out.get('appended_ok') != 'true', 'native (disk file system): a 100-byte file re-created without the append flag and written with 10 bytes holds %s bytes (as written: %s); a 10-byte file opened for appending and written with 5 bytes holds %s bytes (old bytes then new bytes: %s)'
                % (out.get('recreated_len'), out.get('recreated_ok'), out.get('appended_len'), out.get('appended_ok')))
    return (out.get('wrong', '1') != '0', 'native (disk file system, log reuse on): after write / reopen / write / reopen %s of %s acknowledged keys read something else (first: %s)' % (out.get('wrong'), out.get('keys'), out.get('first_wrong')))


def o17_4_confirm(v, out):
    """Native (disk file system, real flock): the owner is open; two open attempts and a destroy attempt in a row must all be refused;
    the owner keeps working."""
    if out.get('_rc') != 0: return (True, 'native run failed / panicked: %s' % out.get('_stderr', '')[-300:])
    return (out.get('attempts') != 'err,err,err,err' or out.get('owner_still_works') != 'true', 'native: open, open, destroy, open while the owner is alive: %s; owner still works: %s' % (out.get('attempts'), out.get('owner_still_works')))
