"""O11.6 DB::compact_range: which levels are compacted, and that nothing is pinned while it waits (C11, C07)."""
import time
from z3 import BitVec, Bool, BoolVal, And, Or, Not
from ..exec import Exec, Enum, Ref, Opaque, Inconclusive, bv
from ..ob import Result, mval
from .. import lib


def o11_6_db_compact_range(mir, tier):
    """DB::compact_range with has_overlap_in_level free per level, force_memtable_compaction / force_level_compaction by contract
    (events; the flush may fail).  Lock guards and the handle to the current version are tracked through their drops.
    Reference: the memtable is flushed first, then exactly the levels 0 .. L-1 are compacted in ascending order, where L is the
    deepest level (>= 1) holding a file that overlaps the range (1 if none); when the flush and the compactions are requested the
    database mutex is free AND the handle to the version that was inspected has been given up - a version that stays referenced
    cannot be unlinked when it is superseded, and every table it names stays on disk."""
    fn = mir.method('DB', 'compact_range')
    res = Result('O11.6 DB::compact_range', [fn.path], 'overlap of the range with each level 1..6 free; flush Ok / Err; lock guard and version handle tracked through their drops')
    t0 = time.time()
    S = lib.std_summaries(); P = S['$patterns']
    ov = [Bool('overlap_level_%d' % l) for l in range(7)]; flush_ok = Bool('flush_ok')
    def ev(env, e):
        st = dict(env['$state']); st['events'] = st['events'] + [e]; env['$state'] = st; return st
    P[r'parking_lot::lock_api::Mutex::lock'] = lambda se, env, pc, m: [(None, {'__guard': True}, ev(env, ('lock',)))]
    P[r'<Arc<parking_lot::lock_api::Mutex<.*>> as Deref>::deref'] = lib.ident
    P[r'<parking_lot::lock_api::MutexGuard<.*> as Deref(?:Mut)?>::deref(?:_mut)?'] = lambda se, env, pc, g: lib.one(env, {'abstract': True, '__ty': 'GuardedDbFields', 0: 'x'})
    P[r'VersionSet::get_current_version'] = lambda se, env, pc, vs: [(None, {'__version_handle': True}, ev(env, ('take_version',)))]
    P[r'<Arc<parking_lot::lock_api::RwLock<.*>> as Deref>::deref'] = lib.ident
    P[r'parking_lot::lock_api::RwLock::read'] = lambda se, env, pc, l: lib.one(env, {'__read_guard': True})
    P[r'<parking_lot::lock_api::RwLockReadGuard<.*> as Deref>::deref'] = lambda se, env, pc, g: lib.one(env, {'abstract': True, '__ty': 'Node', 0: {'abstract': True, '__ty': 'Version'}})
    def has_overlap(se, env, pc, v, level, b, e):
        c = se.concretize(level)
        if c is None: raise Inconclusive('symbolic level')
        return lib.one(env, ov[c])
    P[r'Version::has_overlap_in_level'] = has_overlap
    def drop_hook(se, env, ty, val):
        if isinstance(val, dict) and val.get('__guard'): ev(env, ('unlock',))
        if isinstance(val, dict) and val.get('__version_handle'): ev(env, ('release_version',))
    S['$drop'] = drop_hook
    def fmc(se, env, pc, db):
        st = ev(env, ('flush',))
        return [(flush_ok, Enum('Ok', ((),)), st), (Not(flush_ok), Enum('Err', (Enum('IO', ({'str': 'bg'},), 'RainDBError'),)), st)]
    P[r'DB::force_memtable_compaction'] = fmc
    def flc(se, env, pc, db, level, rng):
        c = se.concretize(level)
        return [(None, (), ev(env, ('compact', c)))]
    P[r'DB::force_level_compaction'] = flc
    ex = Exec(mir, S, loop_bound=10, opaque_calls_ok=True)
    ex.lax_mut = True
    db = mir.mk_struct('DB', guarded_fields='mutex', options={'abstract': True})
    def k(ret, env, pc):
        evs = env['$state']['events']; kinds = [e[0] for e in evs]
        deepest = BitVec('deepest', 64)
        levels = [e[1] for e in evs if e[0] == 'compact']
        # expected number of compacted levels: max(1, deepest overlapping level)
        conds = []
        for L in range(1, 7):
            is_deepest = And(ov[L], *[Not(ov[m]) for m in range(L + 1, 7)])
            conds.append(Or(Not(is_deepest), BoolVal(levels == list(range(0, L)))))
        none = And(*[Not(ov[m]) for m in range(1, 7)])
        conds.append(Or(Not(none), BoolVal(levels == [0])))
        first_work = min([i for i, x in enumerate(kinds) if x in ('flush', 'compact')] or [len(kinds)])
        held = 0; pinned = 0; bad_lock = False; bad_pin = False
        for i, x in enumerate(kinds):
            if x == 'lock': held += 1
            elif x == 'unlock': held -= 1
            elif x == 'take_version': pinned += 1
            elif x == 'release_version': pinned -= 1
            elif x in ('flush', 'compact'):
                bad_lock = bad_lock or held > 0; bad_pin = bad_pin or pinned > 0
        posts = [('the levels compacted by compact_range are not 0 .. L-1 in ascending order (L = deepest level overlapping the range, at least 1)', And(*conds)),
                 ('the memtable is not flushed before the levels are compacted', BoolVal('flush' in kinds and kinds.index('flush') == first_work)),
                 ('compact_range requests the flush / a compaction while it holds the database mutex (the background thread needs it: self-deadlock)', BoolVal(not bad_lock)),
                 ('compact_range keeps its handle to the inspected version while it waits for the flush and the compactions (the superseded version can never be unlinked: its tables stay on disk until the next reopen)', BoolVal(not bad_pin))]
        res.cases['%s' % kinds] = 1
        for label, post, m in ex.check_posts(posts, pc):
            res.violations.append({'label': label, 'events': kinds, 'replay': ['compact_range_leftovers']})
    ex.top(fn, [Ref('$db'), {0: Enum('None'), 1: Enum('None'), '__ty': 'Range'}], {'$state': {'events': []}, '$db': db}, [], k)
    res.absorb(ex)
    res.wall_s = time.time() - t0
    if res.violations: res.status = 'violation'
    return res


def o11_6_confirm(v, out):
    """Native: two overlapping tables are flushed, the whole key space is compacted, one more table is flushed and compacted; the table
    files on disk must be exactly those of the current version."""
    if out.get('_rc') != 0: return (False, 'native run failed: %s' % out.get('_stderr', '')[-300:])
    return (out.get('on_disk') != out.get('in_version'), 'native: table files on disk %s, tables of the current version %s' % (out.get('on_disk'), out.get('in_version')))
