"""O2.7 VersionSet::log_and_apply with get_new_version_from_current and persist_changes inlined: the order of file operations when
a manifest is started or extended (what a crash between any two of them leaves behind)."""
import time
from z3 import BitVec, BitVecVal, Bool, BoolVal, And, Or, Not, ULT, ULE, UGE
from ..exec import Exec, Enum, Ref, Opaque, Inconclusive, bv
from ..ob import Result, mval
from .. import lib

GUARD = r'<parking_lot::lock_api::MutexGuard<.*> as Deref(?:Mut)?>::deref(?:_mut)?'


def o2_7_manifest_switch(mir, tier):
    """Cases: no manifest open (a new one with number N has to be started) / a manifest is open.  Creation of the manifest, the
    snapshot append, the edit append and the CURRENT switch each succeed or fail (free).  Reference (crash argument): CURRENT is
    switched only after the new manifest holds both the snapshot and the edit; the manifest is created (truncated), never opened
    for appending, under exactly the number that CURRENT is then pointed at; with an open manifest nothing but the edit is
    appended; the edit carries the version set's file counter, last sequence and WAL numbers; the new version is installed only
    after every file operation succeeded, and the result is Ok iff they all did."""
    fn = mir.method('VersionSet', 'log_and_apply')
    res = Result('O2.7 order of file operations in VersionSet::log_and_apply', [fn.path, mir.method('VersionSet', 'get_new_version_from_current').path, mir.method('VersionSet', 'persist_changes').path],
                 'manifest open or not; create / snapshot append / edit append / CURRENT switch / clean-up each succeed or fail (free); counters free; version builder and write_snapshot by contract')
    t0 = time.time()
    vcf = mir.struct_fields('VersionChangeManifest')
    for has_manifest in (False, True):
        for edit_has_wal in (False, True):
            S = lib.std_summaries(); P = S['$patterns']
            P[GUARD] = lib.ptr_deref
            create_ok, snap_ok, edit_ok, cur_ok, rm_ok = [Bool(n) for n in ('manifest_create_ok', 'snapshot_append_ok', 'edit_append_ok', 'current_switch_ok', 'cleanup_ok')]
            N, cfn, cwal, pseq, ewal = BitVec('manifest_number', 64), BitVec('next_file_counter', 64), BitVec('current_wal', 64), BitVec('last_sequence', 64), BitVec('edit_wal', 64)
            pre = [ULT(cfn, bv(1 << 60)), UGE(ewal, cwal), ULE(ewal, cfn)]
            def ev(env, e):
                st = dict(env['$state']); st['events'] = st['events'] + [e]; return st
            def P_(se, env, v):
                v = se.deref(env, v) if isinstance(v, Ref) else v
                while isinstance(v, Ref): v = se.deref(env, v)
                return v
            P[r'VersionBuilder::new'] = lambda se, env, pc: lib.one(env, {'abstract': True, '__ty': 'VersionBuilder'})
            P[r'VersionBuilder::accumulate_changes'] = lib.unit
            P[r'VersionBuilder::apply_changes'] = lambda se, env, pc, *a: lib.one(env, {'abstract': True, '__ty': 'Version', 'new': True})
            P[r'Version::finalize'] = lib.unit
            P[r'VersionSet::get_current_version'] = lambda se, env, pc, vs: lib.one(env, {'abstract': True, '__ty': 'SharedNode'})
            P[r'VersionSet::release_version'] = lib.unit
            P[r'FileNameHandler::get_manifest_file_path'] = lambda se, env, pc, h, n: lib.one(env, {'path': 'manifest', 'num': n})
            P[r'<PathBuf as Clone>::clone'] = lambda se, env, pc, p: lib.one(env, P_(se, env, p))
            P[r'DbOptions::filesystem_provider'] = lambda se, env, pc, o: lib.one(env, {'abstract': True, '__ty': 'fs'})
            def writer_new(se, env, pc, fs, path, app):
                p = P_(se, env, path); st = ev(env, ('create_manifest', p.get('num') if isinstance(p, dict) else None, app))
                return [(create_ok, Enum('Ok', ({'abstract': True, '__ty': 'LogWriter', 'of': 'new manifest'},)), st), (Not(create_ok), Enum('Err', (Enum('IO', (Opaque('e'),), 'LogIOError'),)), st)]
            P[r'LogWriter::new'] = writer_new
            def snapshot(se, env, pc, vs, wr):
                st = ev(env, ('append_snapshot', P_(se, env, wr).get('of')))
                return [(snap_ok, Enum('Ok', ((),)), st), (Not(snap_ok), Enum('Err', (Enum('Log', (Opaque('e'),), 'WriteError'),)), st)]
            P[r'VersionSet::write_snapshot'] = snapshot
            P[r'(?:parking_lot::lock_api::)?Mutex::new'] = lib.ident
            P[r'parking_lot::lock_api::Mutex::lock'] = lambda se, env, pc, m: lib.one(env, m)
            P[r'<Arc<parking_lot::lock_api::Mutex<.*>> as Deref>::deref'] = lib.ident
            P[r'<Arc<FileNameHandler> as (?:Deref|AsRef<.*>)>::(?:deref|as_ref)'] = lib.ident
            P[r'parking_lot::lock_api::MutexGuard::unlocked_fair'] = lambda se, env, pc, g, clo: lib.call_closure(se, env, pc, clo, [])
            def ser(se, env, pc, m):
                mv = P_(se, env, m); return lib.one(env, {'len': BitVec('edit_len', 64), 'kind': 'edit-bytes', 'edit': {n: mv[vcf.index(n)] for n in ('wal_file_number', 'prev_wal_file_number', 'curr_file_number', 'prev_sequence_number')}})
            P[r'<Vec<u8> as From<&VersionChangeManifest>>::from'] = ser
            def append(se, env, pc, wr, data):
                d = P_(se, env, data); w_ = P_(se, env, wr)
                st = ev(env, ('append_edit', w_.get('of') if isinstance(w_, dict) else None, d.get('edit') if isinstance(d, dict) else None))
                return [(edit_ok, Enum('Ok', ((),)), st), (Not(edit_ok), Enum('Err', (Enum('IO', (Opaque('e'),), 'LogIOError'),)), st)]
            P[r'LogWriter::append'] = append
            def set_current(se, env, pc, fs, h, n):
                st = ev(env, ('switch_current', n))
                return [(cur_ok, Enum('Ok', ((),)), st), (Not(cur_ok), Enum('Err', ({'kind': 'Other', '__ty': 'io::Error'},)), st)]
            P[r'DB::set_current_file'] = set_current
            def rm(se, env, pc, fs, p):
                st = ev(env, ('remove', P_(se, env, p).get('num') if isinstance(P_(se, env, p), dict) else None))
                return [(rm_ok, Enum('Ok', ((),)), st), (Not(rm_ok), Enum('Err', ({'kind': 'Other', '__ty': 'io::Error'},)), st)]
            P[r'<dyn FileSystem as FileSystem>::remove_file'] = rm
            P[r'<Arc<dyn FileSystem> as Deref>::deref'] = lib.ident
            def install(se, env, pc, vs, v):
                st = ev(env, ('install_version',)); return [(None, (), st)]
            P[r'VersionSet::append_new_version'] = install
            P[r'<WriteError as From<.*>>::from'] = lambda se, env, pc, e: lib.one(env, Enum('Log', (e,), 'WriteError'))
            P[r'<std::io::Error as Into<DBIOError>>::into'] = lambda se, env, pc, e: lib.one(env, Opaque('dbioerr'))
            P[r'<.* as Into<.*>>::into'] = lib.ident
            P[r'<Result<.*> as FromResidual<Result<Infallible, .*>>>::from_residual'] = lambda se, env, pc, r: lib.one(env, Enum('Err', (Enum('Log', (r.fields[0],), 'WriteError'),)) if isinstance(r, Enum) and r.tag == 'Err' else r)
            ex = Exec(mir, S, loop_bound=4, opaque_calls_ok=True)
            def k(ret, env, pc, has_manifest=has_manifest, edit_has_wal=edit_has_wal, ex=ex):
                evs = env['$state']['events']; kinds = [e[0] for e in evs]
                ok = isinstance(ret, Enum) and ret.tag == 'Ok'
                steps = And(edit_ok) if has_manifest else And(create_ok, snap_ok, edit_ok, cur_ok)
                posts = [('log_and_apply returns Ok although a file operation failed, or Err although none did', BoolVal(ok) == steps),
                         ('the new version is installed although the manifest does not (completely) describe it, or not installed although it does', BoolVal('install_version' in kinds) == steps)]
                if has_manifest:
                    posts.append(('with an open manifest something other than the edit is written (a manifest is created or CURRENT is switched)', BoolVal(all(x in ('append_edit', 'install_version') for x in kinds))))
                    if 'append_edit' in kinds: posts.append(('the edit is not appended to the open manifest', BoolVal(evs[kinds.index('append_edit')][1] == 'open manifest')))
                else:
                    if 'create_manifest' in kinds:
                        c = evs[kinds.index('create_manifest')]
                        posts.append(('the new manifest is not created under the number the version set holds for it', c[1] == N if c[1] is not None else BoolVal(False)))
                        posts.append(('the new manifest is opened for appending instead of being created empty', Not(c[2]) if not isinstance(c[2], bool) else BoolVal(not c[2])))
                    if 'switch_current' in kinds:
                        i = kinds.index('switch_current')
                        posts.append(('CURRENT is switched to the new manifest before it holds the snapshot and the edit (a crash leaves CURRENT pointing at an incomplete manifest)',
                                      And(BoolVal(kinds[:i] == ['create_manifest', 'append_snapshot', 'append_edit']), create_ok, snap_ok, edit_ok)))
                        posts.append(('CURRENT is switched to another number than the manifest that was just written', evs[i][1] == N))
                    if 'append_snapshot' in kinds: posts.append(('the snapshot is not written to the new manifest', BoolVal(evs[kinds.index('append_snapshot')][1] == 'new manifest')))
                    if 'append_edit' in kinds: posts.append(('the edit is not appended to the new manifest', BoolVal(evs[kinds.index('append_edit')][1] == 'new manifest')))
                    # (a failed snapshot append leaves the file behind: the retry re-creates it under the same number, so nothing is leaked)
                    posts.append(('a new manifest whose edit could not be written or that could not be made CURRENT is not removed', Or(steps, Not(And(create_ok, snap_ok)), BoolVal('remove' in kinds))))
                if 'append_edit' in kinds:
                    e = evs[kinds.index('append_edit')][2]
                    def some(x, v): return (x.fields[0] == v) if isinstance(x, Enum) and x.tag == 'Some' else BoolVal(False)
                    posts.append(('the edit does not record the version set file counter and last sequence (a reopen would hand out used file numbers / lose the sequence)', And(some(e['curr_file_number'], cfn), some(e['prev_sequence_number'], pseq)) if e else BoolVal(False)))
                    posts.append(('the edit does not record the WAL number (the edit own one, else the current one)', some(e['wal_file_number'], ewal if edit_has_wal else cwal) if e else BoolVal(False)))
                res.cases['manifest_open=%s edit_wal=%s %s %s' % (has_manifest, edit_has_wal, 'Ok' if ok else 'Err', ','.join(kinds))] = 1
                for label, post, m in ex.check_posts(posts, pc):
                    rep = None
                    if not has_manifest and ('CURRENT is switched to the new manifest before' in label or 'opened for appending' in label): rep = ['manifest_switch_ops']
                    elif not has_manifest and 'returns Ok although' in label and not mval(m, steps):
                        rep = ['log_and_apply_fault', 'created', 'CURRENT' if not mval(m, cur_ok) else 'manifest', 'once' if mval(m, rm_ok) else 'sticky']
                    res.violations.append({'label': label, 'events': [str(e)[:80] for e in evs], 'replay': rep, 'confirmed_by': None if rep else {'reproduced': False, 'detail': 'no native scenario for this label'}})
            vs = mir.mk_struct('VersionSet', options={'abstract': True, '__ty': 'DbOptions'}, filesystem_provider={'abstract': True, '__ty': 'fs'}, file_name_handler={'abstract': True, '__ty': 'FileNameHandler'},
                               curr_file_number=cfn, manifest_file_number=N, prev_sequence_number=pseq, curr_wal_number=cwal, prev_wal_number=Enum('None'), compaction_pointers=[Enum('None')] * 7,
                               maybe_manifest_file=Enum('Some', ({'abstract': True, '__ty': 'LogWriter', 'of': 'open manifest'},)) if has_manifest else Enum('None'))
            g = mir.mk_struct('GuardedDbFields', version_set=vs)
            cm = mir.mk_struct('VersionChangeManifest', wal_file_number=Enum('Some', (ewal,)) if edit_has_wal else Enum('None'), prev_wal_file_number=Enum('None'), curr_file_number=Enum('None'), prev_sequence_number=Enum('None'))
            env = {'$state': {'events': []}, '$g': g, '$guard': Ref('$g'), '$cm': cm}
            ex.top(fn, [Ref('$guard'), Ref('$cm')], env, pre, k)
            res.absorb(ex)
            for pcx, msg, where in ex.panics:
                ex.solver.push(); ex.solver.add(*pre); ex.solver.add(*[c for c in pcx if not isinstance(c, bool)])
                feas = str(ex.solver.check()) == 'sat'; ex.solver.pop()
                if not feas: continue
                res.panic_paths += 1; res.violations.append({'label': 'panic path: ' + msg[:80], 'replay': None, 'confirmed_by': {'reproduced': False, 'detail': 'no native scenario'}})
    res.wall_s = time.time() - t0
    if res.violations: res.status = 'violation'
    return res


def o2_7_confirm(v, out):
    """Native: (a) the mutating file operations of a log_and_apply that starts a new manifest, recorded in order by the
    fault-injecting file system; (b) the same call with a failing operation."""
    if out.get('_rc') != 0: return (False, 'native run failed: %s' % out.get('_stderr', '')[-300:])
    if v['replay'][0] == 'log_and_apply_fault':
        return (out.get('result') == 'Ok' and out.get('append_failed') == 'true', 'native log_and_apply result %s with a failing %s' % (out.get('result'), v['replay'][2:]))
    ops = [o for o in out.get('ops', '').split(',') if o]
    problems = []
    if 'rename:CURRENT' in ops:
        i = ops.index('rename:CURRENT')
        if ops[:i].count('write:manifest') + ops[:i].count('append:manifest') < 2: problems.append('CURRENT renamed before snapshot and edit were written')
        if any(o.endswith(':manifest') for o in ops[i + 1:]): problems.append('manifest written after the CURRENT switch')
    else: problems.append('CURRENT never switched')
    if 'create-append:manifest' in ops: problems.append('manifest opened for appending')
    if 'create:manifest' not in ops and 'create-append:manifest' not in ops: problems.append('manifest never created')
    return (bool(problems), 'native operation order %s: %s' % (ops, '; '.join(problems) or 'as required'))
