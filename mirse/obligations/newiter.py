"""O4.4 DB::new_iterator: the sources merged into a database iterator and the sequence number it reads at."""
import time
from z3 import BitVec, Bool, BoolVal, And, Or, Not
from ..exec import Exec, Enum, Ref, Opaque, Inconclusive, bv
from ..ob import Result, mval
from .. import lib

GUARD = r'<parking_lot::lock_api::MutexGuard<.*> as Deref(?:Mut)?>::deref(?:_mut)?'


def o4_4_new_iterator(mir, tier):
    """Cases: immutable memtable present / absent x snapshot given / not given; the current version contributes V iterators
    (V = 0..2, by contract of Version::get_representative_iterators).  Reference: the merged children are exactly the active
    memtable, the immutable memtable if there is one, and the version's iterators; the iterator reads at the snapshot's sequence
    number, else at the last published one."""
    fn = mir.method('DB', 'new_iterator')
    res = Result('O4.4 DB::new_iterator sources', [fn.path], 'immutable memtable present/absent, snapshot given/not given, 0..2 version iterators; memtables, version, MergingIterator::new, DatabaseIterator::new by contract')
    t0 = time.time()
    for has_imm in (False, True):
        for has_snap in (False, True):
            for V in (0, 2):
                S = lib.std_summaries(); P = S['$patterns']
                P[GUARD] = lib.ptr_deref
                prev_seq, snap_seq = BitVec('last_published_sequence', 64), BitVec('snapshot_sequence', 64)
                P[r'parking_lot::lock_api::Mutex::lock'] = lambda se, env, pc, m: lib.one(env, Ref('$g'))
                P[r'DB::memtable'] = lambda se, env, pc, db: lib.one(env, {'source': 'memtable'})
                P[r'<.* as Deref>::deref'] = lib.ptr_deref
                def mt_iter(se, env, pc, m):
                    v = se.deref(env, m) if isinstance(m, Ref) else m
                    while isinstance(v, Ref): v = se.deref(env, v)
                    return lib.one(env, {'iter_of': v.get('source', '?') if isinstance(v, dict) else '?'})
                P[r'<dyn MemTable as MemTable>::iter'] = mt_iter
                P[r'VersionSet::get_prev_sequence_number'] = lambda se, env, pc, vs: lib.one(env, prev_seq)
                P[r'Snapshot::sequence_number'] = lambda se, env, pc, s: lib.one(env, snap_seq)
                P[r'VersionSet::get_current_version'] = lambda se, env, pc, vs: lib.one(env, {'source': 'version'})
                P[r'parking_lot::lock_api::RwLock::read'] = lib.ident
                P[r'<parking_lot::lock_api::RwLockReadGuard<.*> as Deref>::deref'] = lambda se, env, pc, g: lib.one(env, {'element': {'source': 'version'}, '__ty': 'Node'})
                P[r'Version::get_representative_iterators'] = lambda se, env, pc, v, ro, V=V: lib.one(env, Enum('Ok', ([{'iter_of': 'version-%d' % i} for i in range(V)],)))
                def vec_append(se, env, pc, a, b):
                    la, lb = lib.the_list(se, env, a), lib.the_list(se, env, b)
                    se.store(env, a, la + lb); se.store(env, b, []); return lib.one(env, ())
                P[r'Vec::append'] = vec_append
                P[r'MergingIterator::new'] = lambda se, env, pc, its: lib.one(env, {'merged': list(its) if isinstance(its, list) else its})
                P[r'MergingIterator::register_cleanup_method'] = lib.unit
                P[r'DB::generate_portable_state'] = lambda se, env, pc, db: lib.one(env, {'abstract': True, '__ty': 'PortableDatabaseState'})
                P[r'DatabaseIterator::new'] = lambda se, env, pc, st, merged, seq, seed, worker: lib.one(env, {'dbiter': merged, 'sequence': seq})
                P[r'<Result<.*> as FromResidual<Result<Infallible, .*>>>::from_residual'] = lambda se, env, pc, r: lib.one(env, r)
                P[r'<Result<.*> as Try>::branch'] = lambda se, env, pc, r: lib.one(env, Enum('Continue', (r.fields[0],)) if r.tag == 'Ok' else Enum('Break', (Enum('Err', (r.fields[0],)),)))
                ex = Exec(mir, S, loop_bound=4, opaque_calls_ok=True)
                def k(ret, env, pc, has_imm=has_imm, has_snap=has_snap, V=V, ex=ex):
                    ok = isinstance(ret, Enum) and ret.tag == 'Ok' and isinstance(ret.fields[0], dict) and 'dbiter' in ret.fields[0]
                    posts = [('new_iterator fails although every source is available', BoolVal(ok))]
                    if ok:
                        it = ret.fields[0]; kids = it['dbiter'].get('merged') if isinstance(it['dbiter'], dict) else None
                        names = sorted(c.get('iter_of', '?') if isinstance(c, dict) else '?' for c in kids) if isinstance(kids, list) else None
                        want = sorted(['memtable'] + (['immutable memtable'] if has_imm else []) + ['version-%d' % i for i in range(V)])
                        posts.append(('the database iterator does not merge exactly the active memtable, the immutable memtable (if any) and the tables of the current version', BoolVal(names == want)))
                        seq = it['sequence']
                        posts.append(('the database iterator does not read at the snapshot sequence (or, without a snapshot, the last published sequence)', (seq == (snap_seq if has_snap else prev_seq)) if hasattr(seq, 'sort') else BoolVal(False)))
                        res.cases['imm=%s snap=%s V=%d -> %s' % (has_imm, has_snap, V, names)] = 1
                    for label, post in posts:
                        ex.record_formula(label, pc, Not(post))
                        m = ex.model(Not(post))
                        if m is not None:
                            rep = 'merge exactly' in label and has_imm
                            res.violations.append({'label': label, 'case': {'immutable_memtable': has_imm, 'snapshot': has_snap, 'version_iterators': V},
                                                   'replay': ['sched_iter_during_flush'] if rep else None,
                                                   'confirmed_by': None if rep else {'reproduced': False, 'detail': 'no native scenario for this label / case'}})
                g = mir.mk_struct('GuardedDbFields', maybe_immutable_memtable=Enum('Some', ({'source': 'immutable memtable'},)) if has_imm else Enum('None'),
                                  version_set={'abstract': True, '__ty': 'VersionSet'}, read_sampling_seed=BitVec('seed', 64))
                ro = mir.mk_struct('ReadOptions', fill_cache=BoolVal(True), snapshot=Enum('Some', ({'abstract': True, '__ty': 'Snapshot'},)) if has_snap else Enum('None'))
                env = {'$state': {}, '$db': {'abstract': True, '__ty': 'DB'}, '$g': g}
                ex.top(fn, [Ref('$db'), ro], env, [], k)
                ex.bound_hits = []
                res.absorb(ex)
    res.wall_s = time.time() - t0
    if res.violations: res.status = 'violation'
    return res


def o4_4_confirm(v, out):
    """Native: an iterator is created while a flush is writing its table file (the immutable memtable holds the only copy of the
    key); it must see the key."""
    if out.get('_rc') != 0: return (False, 'native run failed: %s' % out.get('_stderr', '')[-300:])
    return (out.get('iter_during_flush') != 'k', 'iterator created while the memtable is being flushed sees [%s], expected [k]' % out.get('iter_during_flush'))
