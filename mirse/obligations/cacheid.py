"""O5.3 LRUCache::new_id: block-cache partition ids are unique although several threads draw them."""
import time
from z3 import BitVec, BitVecVal, Bool, BoolVal, And, Or, Not, ULT, ULE, UGT, UGE
from ..exec import Exec, Enum, Ref, Opaque, Inconclusive, bv
from ..ob import Result, mval
from .. import lib


def o5_3_cache_ids(mir, tier):
    """The counter is shared.  Environment: at every acquisition of the cache lock other threads may have drawn ids since this
    thread last held it: the counter is replaced by a free value >= its previous value (ids only grow).  No interleaving is
    explored - the environment step at each lock acquisition is the whole concurrency model.  Reference: the id returned is larger
    than every value the counter had at any acquisition (so no other thread was given it) and equals the counter at return (so the
    next caller gets a different one)."""
    fn = [f for f in mir.fns.values() if f.path.endswith('::new_id') and 'utils::cache' in f.path and '<impl' in f.path]
    if len(fn) != 1: raise Inconclusive('LRUCache::new_id not found uniquely')
    fn = fn[0]
    res = Result('O5.3 LRUCache::new_id draws unique ids', [fn.path], 'counter free (< 2^62); at every lock acquisition other threads may have advanced the counter (free value >= previous)')
    t0 = time.time()
    S = lib.std_summaries(); P = S['$patterns']
    c0 = BitVec('counter_at_entry', 64)
    pre = [ULT(c0, bv(1 << 62))]
    def acquire(se, env, pc, lock):
        st = dict(env['$state']); k = len(st['seen'])
        cur = se.deref(env, Ref('$inner'))
        if k == 0: val = cur[2]
        else:
            val = BitVec('counter_after_other_threads_%d' % k, 64)
            pre_k = And(UGE(val, cur[2]), ULT(val, bv(1 << 62)))
            st['assume'] = st['assume'] + [pre_k]
            new = dict(cur); new[2] = val; env['$inner'] = new
        st['seen'] = st['seen'] + [val]; st['held'] = st['held'] + 1
        return [(st['assume'][-1] if k else None, Ref('$inner'), st)]
    P[r'parking_lot::lock_api::RwLock::(?:read|write)'] = acquire
    P[r'<parking_lot::lock_api::RwLock(?:Read|Write)Guard<.*> as Deref(?:Mut)?>::deref(?:_mut)?'] = lib.ptr_deref
    ex = Exec(mir, S, loop_bound=3)
    def k(ret, env, pc):
        st = env['$state']; inner = ex.deref(env, Ref('$inner'))
        posts = [('the id returned was (or can be) given to another thread: the counter was read and advanced in two separate critical sections', And(*[UGT(ret, v) for v in st['seen']])),
                 ('the id returned is not the value the shared counter holds afterwards (the next caller can get the same id)', ret == inner[2])]
        res.cases['%d lock acquisition(s)' % len(st['seen'])] = 1
        for label, post, m in ex.check_posts(posts, pc):
            res.violations.append({'label': label, 'acquisitions': len(st['seen']), 'model': {str(d): str(m[d]) for d in m.decls()}, 'replay': ['cache_ids']})
    inner = {0: 'entries', 1: 'list', 2: c0, '__ty': 'LRUCacheInner'}
    cache = {0: bv(100), 1: 'rwlock', '__ty': 'LRUCache'}
    env = {'$state': {'seen': [], 'held': 0, 'assume': []}, '$inner': inner, '$cache': cache}
    ex.top(fn, [Ref('$cache')], env, pre, k)
    res.absorb(ex)
    for pcx, msg, where in ex.panics:
        res.panic_paths += 1; res.violations.append({'label': 'panic path: ' + msg[:80], 'replay': None, 'confirmed_by': {'reproduced': False, 'detail': 'no native scenario'}})
    res.wall_s = time.time() - t0
    if res.violations: res.status = 'violation'
    return res


def o5_3_confirm(v, out):
    """Native: eight threads draw 50000 ids each from the default block cache (a real race, not a forced schedule)."""
    if out.get('_rc') != 0: return (False, 'native run failed: %s' % out.get('_stderr', '')[-300:])
    return (out.get('duplicates', '0') != '0', '%s ids drawn by 8 threads, %s duplicates' % (out.get('drawn'), out.get('duplicates')))
