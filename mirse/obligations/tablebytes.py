"""O13.8 a table file end to end at byte level: TableBuilder (add_entry / flush_data_block / write_block / emit_block_to_disk / finalize) writes a
file of symbolic bytes, Table::open parses it (footer, index, metaindex, filter block), Table::get and the two-level iterator read it back.

Everything of the crate on that path is executed from MIR over byte lists: block builder / reader (prefix compression, restart points),
filter block builder / reader, block handles, footer, InternalKey codec, separators / successors, the CRC mask.  By contract only: the
CRC function itself (an uninterpreted function of the bytes), snappy (taken never to shrink a block: the uncompressed path; the compressed
path is O14.3 / O15.8 by contract), the filter policy (set membership), the block cache (always a miss), file I/O (a byte list)."""
import itertools, time
from z3 import BitVec, BitVecVal, Bool, BoolVal, And, Or, Not, ULT, ULE, UGT, UGE, Extract, ZeroExt, Concat, If, simplify, is_bv, is_bv_value
from ..exec import Exec, Enum, Ref, Opaque, Inconclusive, Delegate, bv
from ..ob import Result, mval
from .. import lib, lib2
from .blockcodec import byte_summaries, reader_summaries, writer_summaries, varint64_summaries, sym_key, same_key, ikey_lt, lex_eq, lex_lt, b8, _panics

FILTER_NAME = [b8(c) for c in b'filter.set']


def table_summaries(mir, block_size):
    S, V, F = byte_summaries(mir); S = reader_summaries(S, V); S = varint64_summaries(S, V); S, G = writer_summaries(S, V, mir)
    P = {}
    crc_syms = {}
    def crc_of(bytes_):
        key = '|'.join(simplify(b).sexpr() for b in bytes_)
        if key not in crc_syms: crc_syms[key] = BitVec('crc%d' % len(crc_syms), 32)
        return crc_syms[key]
    # ---- options / environment
    P[r'DbOptions::max_block_size'] = lambda se, env, pc, o: lib.one(env, bv(block_size))
    P[r'DbOptions::filter_policy'] = lambda se, env, pc, o: lib.one(env, {'policy': 'set'})
    P[r'(?:filter_policy::)?get_filter_block_name'] = lambda se, env, pc, p_: lib.one(env, {'string': list(FILTER_NAME)})
    P[r'MetaIndexKey::new'] = lambda se, env, pc, s: lib.one(env, {'metakey': list(s['string'])})
    P[r'DbOptions::block_cache'] = lambda se, env, pc, o: lib.one(env, {'abstract': True, '__ty': 'cache'})
    P[r'<Arc<dyn (?:utils::cache::)?Cache<.*>> as Deref>::deref'] = lib.ident
    P[r'<dyn (?:utils::cache::)?Cache<.*> as (?:utils::cache::)?Cache<.*>>::new_id'] = lambda se, env, pc, c: lib.one(env, bv(7))
    P[r'<dyn (?:utils::cache::)?Cache<.*> as (?:utils::cache::)?Cache<.*>>::get'] = lambda se, env, pc, c, k: lib.one(env, Enum('None'))
    P[r'(?:table::)?Table::get_block_reader_from_cache'] = lambda se, env, pc, t, h: lib.one(env, Enum('None'))
    P[r'(?:table::)?Table::cache_block_reader'] = lambda se, env, pc, t, r, h: lib.one(env, {'cache_entry': r})
    P[r'<dyn CacheEntry<.*> as CacheEntry<.*>>::get_value'] = lambda se, env, pc, e: lib.one(env, (se.deref(env, e) if isinstance(e, Ref) else e)['cache_entry'])
    P[r'<parking_lot::lock_api::MappedRwLockReadGuard<.*> as Deref>::deref'] = lib.ident
    # BlockBuilder::new lowers `vec![0]` to raw-pointer code outside the executor's subset: the fresh builder is given directly
    P[r'BlockBuilder::new'] = lambda se, env, pc, n: lib.one(env, fresh_block_builder(mir, se.concretize(n)))
    # ---- the file: a byte list in the cell $file
    def fwrite(se, env, pc, f, data):
        return [(None, Enum('Ok', ((),)), env.get('$state'), [(Ref('$file'), V(se, env, Ref('$file')) + V(se, env, data))])]
    P[r'<Box<dyn RandomAccessFile> as (?:std::io::)?Write>::write_all'] = fwrite
    P[r'<Box<dyn RandomAccessFile> as (?:std::io::)?Write>::flush'] = lambda se, env, pc, f: lib.one(env, Enum('Ok', ((),)))
    P[r'<dyn ReadonlyRandomAccessFile as ReadonlyRandomAccessFile>::len'] = lambda se, env, pc, f: lib.one(env, Enum('Ok', (bv(len(V(se, env, Ref('$file')))),)))
    def read_from(se, env, pc, f, buf, off):
        data = V(se, env, Ref('$file')); o = se.concretize(off); n = len(V(se, env, buf))
        if o is None: raise Inconclusive('read at a symbolic offset')
        got = data[o:o + n] if o <= len(data) else []
        out = got + V(se, env, buf)[len(got):]
        return [(None, Enum('Ok', (bv(len(got)),)), env.get('$state'), [(buf, out)])]
    P[r'<dyn ReadonlyRandomAccessFile as ReadonlyRandomAccessFile>::read_from'] = read_from
    P[r'<Box<dyn ReadonlyRandomAccessFile> as Deref>::deref'] = lib.ident
    # ---- snappy: never smaller than the input (the builder then stores the block uncompressed)
    P[r'snap::write::FrameEncoder::new'] = lambda se, env, pc, v: lib.one(env, {'snappy_in': []})
    def sn_write(se, env, pc, e, data):
        cur = se.deref(env, e); return [(None, Enum('Ok', ((),)), env.get('$state'), [(e, {'snappy_in': cur['snappy_in'] + V(se, env, data)})])]
    P[r'<snap::write::FrameEncoder<Vec<u8>> as (?:std::io::)?Write>::write_all'] = sn_write
    P[r'<snap::write::FrameEncoder<Vec<u8>> as (?:std::io::)?Write>::flush'] = lambda se, env, pc, e: lib.one(env, Enum('Ok', ((),)))
    P[r'snap::write::FrameEncoder::into_inner'] = lambda se, env, pc, e: lib.one(env, Enum('Ok', ([b8(0)] * (len((se.deref(env, e) if isinstance(e, Ref) else e)['snappy_in']) + 10),)))
    # ---- CRC: an uninterpreted function of the bytes (the mask / unmask arithmetic is the crate's own)
    P[r'crc::crc32::<impl Crc<u32>>::digest'] = lambda se, env, pc, c: lib.one(env, {'digest': []})
    def dig_update(se, env, pc, d, data):
        cur = se.deref(env, d); return [(None, (), env.get('$state'), [(d, {'digest': cur['digest'] + V(se, env, data)})])]
    P[r'crc::crc32::<impl Digest<.*>>::update'] = dig_update
    P[r'crc::crc32::<impl Digest<.*>>::finalize'] = lambda se, env, pc, d: lib.one(env, crc_of((se.deref(env, d) if isinstance(d, Ref) else d)['digest']))
    P[r'crc::crc32::<impl Crc<u32>>::checksum'] = lambda se, env, pc, c, data: lib.one(env, crc_of(V(se, env, data)))
    P[r'<u8 as TryInto<TableFileCompressionType>>::try_into'] = lambda se, env, pc, b: Delegate([f for f in mir.fns.values() if f.name == 'try_from' and f.self_ty == 'TableFileCompressionType'][0], [b])
    P[r'DBIOError::new'] = lambda se, env, pc, *a: lib.one(env, Opaque('dbioerr'))
    P[r'<std::io::Error as Into<DBIOError>>::into'] = lambda se, env, pc, e: lib.one(env, Opaque('dbioerr'))
    # ---- key type dispatch of the generic block code: by the value (a metaindex key is {'metakey': bytes}); the reader side by a path-local mode
    asb, tf = F['as_bytes'], F['try_from']
    def is_meta(se, env, v):
        while isinstance(v, Ref): v = se.deref(env, v)
        return isinstance(v, dict) and 'metakey' in v, v
    def k_as_bytes(se, env, pc, k):
        m, v = is_meta(se, env, k)
        return lib.one(env, list(v['metakey'])) if m else Delegate(asb, [k])
    P[r'<K as RainDbKeyType>::as_bytes'] = k_as_bytes
    def k_try_from(se, env, pc, b):
        if (env.get('$state') or {}).get('K') == 'meta': return lib.one(env, Enum('Ok', ({'metakey': V(se, env, b)},)))
        return Delegate(tf, [b])
    P[r'<K as TryFrom<Vec<u8>>>::try_from'] = k_try_from
    cmp_fn = mir.method('InternalKey', 'cmp', 'Ord'); eq_fn = mir.method('InternalKey', 'eq', 'PartialEq')
    def k_cmp(se, env, pc, a, b):
        ma, va = is_meta(se, env, a); mb, vb = is_meta(se, env, b)
        if ma and mb: return lib.one(env, lib.ord_of(lex_lt(va['metakey'], vb['metakey']), lex_eq(va['metakey'], vb['metakey'])))
        return Delegate(cmp_fn, [a, b])
    P[r'<K as Ord>::cmp'] = k_cmp
    def k_eq(se, env, pc, a, b):
        ma, va = is_meta(se, env, a); mb, vb = is_meta(se, env, b)
        if ma and mb: return lib.one(env, lex_eq(va['metakey'], vb['metakey']))
        return Delegate(eq_fn, [a, b], merge=True)
    P[r'<K as PartialEq>::eq'] = k_eq
    rb = [f for f in mir.fns.values() if f.path.endswith('::read_block_from_disk') and 'table::' in f.path]
    br = mir.method('BlockReader', 'new')
    # implemented as a CPS summary below (needs the continuation)
    @lib.cps
    def dbr(se, env, pc, vals, cont):
        file, handle = vals
        meta = '::<MetaIndexKey>' in S['$raw'][0]
        st = dict(env.get('$state') or {}); st['K'] = 'meta' if meta else 'internal'
        e2 = dict(env); e2['$state'] = st
        def got_block(r, e3, p3):
            if not (isinstance(r, Enum) and r.tag == 'Ok'):
                st3 = dict(e3['$state']); st3['K'] = 'internal'; e4 = dict(e3); e4['$state'] = st3
                return cont(r, e4, p3)
            def parsed(r2, e5, p5):
                st5 = dict(e5['$state']); st5['K'] = 'internal'; e6 = dict(e5); e6['$state'] = st5
                cont(r2, e6, p5)
            se.run_fn(br, [r.fields[0]], e3, p3, parsed)
        se.run_fn(rb[0], [file, handle], e2, pc, got_block)
    P[r'(?:table::)?Table::get_data_block_reader_from_disk'] = dbr
    P[r'<BlockHandle as TryFrom<&Vec<u8>>>::try_from'] = lambda se, env, pc, v: Delegate([f for f in mir.fns.values() if f.name == 'try_from' and 'block_handle::' in f.path and 'Vec' in (f.trait_full or '')][0], [v])
    P[r'<Vec<u8> as From<&BlockHandle>>::from'] = lambda se, env, pc, h: Delegate([f for f in mir.fns.values() if f.name == 'from' and 'block_handle::' in f.path and f.self_ty and 'Vec' in f.self_ty][0], [h])
    P[r'<Vec<u8> as TryFrom<&Footer>>::try_from'] = lambda se, env, pc, f_: Delegate([f for f in mir.fns.values() if f.name == 'try_from' and 'footer::' in f.path and f.self_ty and 'Vec' in f.self_ty][0], [f_])
    P[r'<Footer as TryFrom<&Vec<u8>>>::try_from'] = lambda se, env, pc, b: Delegate([f for f in mir.fns.values() if f.name == 'try_from' and 'footer::' in f.path and f.self_ty == 'Footer'][0], [b])
    # filter policy by contract: the filter is the list of the keys' bytes behind a length byte each; membership
    def create(se, env, pc, policy, keys):
        ks = keys
        while isinstance(ks, Ref): ks = se.deref(env, ks)
        out = []
        for k in ks:
            kb = V(se, env, k); out += [b8(len(kb) + 1)] + kb       # length + 1: no filter is ever empty
        return lib.one(env, out)
    P[r'<dyn FilterPolicy as FilterPolicy>::create_filter'] = create
    def may_match(se, env, pc, policy, key, filt):
        kb, fb = V(se, env, key), V(se, env, filt); alts = []; i = 0
        while i < len(fb):
            n = se.concretize(fb[i])
            if n is None or n == 0: break
            item = fb[i + 1:i + n]
            if len(item) == len(kb): alts.append(lex_eq(item, kb))
            i += n
        return lib.one(env, Enum('Ok', (Or(*alts) if alts else BoolVal(False),)))
    P[r'<dyn FilterPolicy as FilterPolicy>::key_may_match'] = may_match
    P[r'<Arc<dyn FilterPolicy> as Clone>::clone'] = lambda se, env, pc, p_: lib.one(env, {'policy': 'set'})
    def chunks(se, env, pc, s, n):
        l = V(se, env, s); k = se.concretize(n)
        return lib.one(env, {'it': [l[i:i + k] for i in range(0, len(l), k)]})
    P[r'core::slice::<impl \[u8\]>::chunks'] = chunks
    P[r'Vec::pop'] = lambda se, env, pc, v: (lib.one(env, Enum('None')) if not V(se, env, v) else [(None, Enum('Some', (V(se, env, v)[-1],)), env.get('$state'), [(v, V(se, env, v)[:-1])])])
    P[r'<str as ToString>::to_string'] = lambda se, env, pc, s_: lib.one(env, {'str': repr(s_)[:120]})
    P[r'<Result<.*> as FromResidual<Result<Infallible, .*>>>::from_residual'] = lambda se, env, pc, r: lib.one(env, r)
    P[r'<ReadError as From<.*>>::from'] = lambda se, env, pc, e: lib.one(env, Enum('IO', (e,), 'ReadError'))
    P[r'<BuilderError as From<.*>>::from'] = lambda se, env, pc, e: lib.one(env, Enum('IO', (e,), 'BuilderError'))
    # raw callee names (for the key type of generic instantiations)
    S['$raw'] = ['']
    prev = S.get('$on_call')
    def on_call(se, env, raw, vals):
        S['$raw'][0] = raw
        if prev: prev(se, env, raw, vals)
    S['$on_call'] = on_call
    S['$patterns'] = dict(list(P.items()) + [(k, v) for k, v in S['$patterns'].items() if k not in P])
    return S, V, F


def fresh_block_builder(mir, interval):
    return mir.mk_struct('BlockBuilder', prefix_compression_restart_interval=bv(interval), buffer=[], restart_points=[BitVecVal(0, 32)], curr_compressed_count=bv(0), block_finalized=BoolVal(False),
                         last_key_bytes=[], key_type_marker=())


def o13_8_table_bytes(mir, tier):
    """Tables of 1..3 entries (user keys of 1 symbolic byte, strictly ascending internal keys - equal user keys with descending sequence numbers
    included -, values of 0..1 symbolic bytes, both operations) with max_block_size so small that every entry starts a new data block, or so
    large that all share one: the builder writes the file, Table::open accepts it, and
    * Table::get(user key of entry i, sequence bound b) - b free - answers with the newest entry of that user key at or below b: its value, or
      None for a tombstone, or KeyNotFound when every version is newer than b; a user key that is not stored answers KeyNotFound;
    * the two-level iterator yields exactly the entries added, in order, from seek_to_first by next and from seek_to_last by prev."""
    res = Result('O13.8 table file end to end over symbolic bytes', [], '')
    t0 = time.time()
    add = mir.method('TableBuilder', 'add_entry'); fin = mir.method('TableBuilder', 'finalize')
    topen = [f for f in mir.fns.values() if f.path.endswith('::open') and 'table::' in f.path and f.self_ty == 'Table'][0]
    tget = [f for f in mir.fns.values() if f.path.endswith('::get') and 'table::' in f.path and f.self_ty == 'Table'][0]
    tl = 'TwoLevelIterator'
    it_new = mir.method(tl, 'new'); it_first = mir.method(tl, 'seek_to_first', 'RainDbIterator'); it_last = mir.method(tl, 'seek_to_last', 'RainDbIterator')
    it_seek = mir.method(tl, 'seek', 'RainDbIterator'); it_next = mir.method(tl, 'next', 'RainDbIterator'); it_prev = mir.method(tl, 'prev', 'RainDbIterator'); it_cur = mir.method(tl, 'current', 'RainDbIterator')
    res.functions = [add.path, fin.path, topen.path, tget.path, 'TableBuilder::flush_data_block / write_block / emit_block_to_disk, Table::read_block_from_disk / read_filter_meta_block / get_block_reader, TwoLevelIterator, BlockBuilder, BlockReader, BlockIter, FilterBlockBuilder, FilterBlockReader, BlockHandle, Footer, InternalKey codec, separators (all inlined)']
    shapes = [(1, 1000), (2, 1000), (2, 1)] if tier == 'quick' else [(1, 1000), (2, 1000), (3, 1000), (2, 1), (3, 1), (3, 40)]
    tbf = mir.struct_fields('TableBuilder')
    for n, bs in shapes:
        S, V, F = table_summaries(mir, bs)
        ex = Exec(mir, S, loop_bound=40, opaque_calls_ok=False, budget_s=1500)
        keys = [sym_key(mir, 'k%d' % i, 1) for i in range(n)]; K = [k[1] for k in keys]
        vals = [[BitVec('v%d' % i, 8)] if i % 2 == 0 else [] for i in range(n)]
        pre = [ULE(k[2], bv(1)) for k in K] + [ikey_lt(K[i], K[i + 1]) for i in range(n - 1)] + [ULT(k[1], bv(1 << 56)) for k in K]
        tb = mir.mk_struct('TableBuilder', options={'abstract': True, '__ty': 'DbOptions'}, file_closed=BoolVal(False), file={'file': 1}, file_number=bv(9), current_offset=bv(0),
                           data_block_builder=fresh_block_builder(mir, 16), index_block_builder=fresh_block_builder(mir, 1),
                           filter_block_builder=mir.mk_struct('FilterBlockBuilder', filter_policy={'policy': 'set'}, keys=[], filters=[]), num_entries=bv(0), maybe_last_key_added=Enum('None'))
        case = '%d entries, max_block_size %d' % (n, bs)
        def built(_r, env, pc, ex=ex, n=n, K=K, vals=vals, case=case):
            ok = isinstance(_r, Enum) and _r.tag == 'Ok'
            for label, post, m in ex.check_posts([('TableBuilder::finalize fails although every write succeeds', BoolVal(ok))], pc):
                res.violations.append({'label': label, 'case': case, 'replay': ['table_edge_keys']})
            if not ok: return
            def opened(rt, env_o, pc_o):
                ok_o = isinstance(rt, Enum) and rt.tag == 'Ok'
                for label, post, m in ex.check_posts([('a table file written by TableBuilder is rejected by Table::open', BoolVal(ok_o))], pc_o):
                    res.violations.append({'label': label, 'case': case, 'returned': repr(rt)[:300], 'file_len': len(V(ex, env_o, Ref('$file'))), 'replay': ['table_edge_keys']})
                if not ok_o: return
                e = dict(env_o); e['$table'] = rt.fields[0]
                res.cases[case + ': opened'] = res.cases.get(case + ': opened', 0) + 1
                # ---- point lookups
                ro = mir.mk_struct('ReadOptions', fill_cache=BoolVal(False), snapshot=Enum('None'))
                for i in range(n):
                    bound = BitVec('bound%d' % i, 64)
                    lk = mir.mk_struct('InternalKey', user_key=list(K[i][0]), sequence_number=bound, operation=bv(1))
                    def got(rg, env_g, pc_g, i=i, bound=bound):
                        # reference: newest entry j with user key = K[i].uk and seq <= bound
                        conds = []
                        for j in range(n):
                            first = And(lex_eq(K[j][0], K[i][0]), ULE(K[j][1], bound), *[Not(And(lex_eq(K[h][0], K[i][0]), ULE(K[h][1], bound))) for h in range(j)])
                            if isinstance(rg, Enum) and rg.tag == 'Ok':
                                o = rg.fields[0]
                                if isinstance(o, Enum) and o.tag == 'Some': okj = And(K[j][2] == bv(1), lex_eq(o.fields[0], vals[j]) if isinstance(o.fields[0], list) else BoolVal(False))
                                else: okj = K[j][2] == bv(0)
                            else: okj = BoolVal(False)
                            conds.append(Or(Not(first), okj))
                        none_visible = And(*[Not(And(lex_eq(K[j][0], K[i][0]), ULE(K[j][1], bound))) for j in range(n)])
                        is_nf = isinstance(rg, Enum) and rg.tag == 'Err' and isinstance(rg.fields[0], Enum) and rg.fields[0].tag == 'KeyNotFound'
                        conds.append(Or(Not(none_visible), BoolVal(is_nf)))
                        if isinstance(rg, Enum) and rg.tag == 'Err': conds.append(BoolVal(is_nf))          # no other error on an intact file
                        posts = [('Table::get does not answer with the newest entry of the user key at or below the sequence bound (value / tombstone / not in this file)', And(*conds))]
                        res.cases[case + ': get'] = res.cases.get(case + ': get', 0) + 1
                        for label, post, m in ex.check_posts(posts, pc_g):
                            res.violations.append({'label': label, 'case': case, 'entry': i, 'model': {str(d): str(m[d]) for d in m.decls()}, 'replay': ['table_edge_keys']})
                    ex.run_fn(tget, [Ref('$table'), ro, lk], dict(e), pc_o, got)
                other = [BitVec('other_key', 8)]
                lk = mir.mk_struct('InternalKey', user_key=other, sequence_number=BitVec('other_bound', 64), operation=bv(1))
                def got_other(rg, env_g, pc_g):
                    is_nf = isinstance(rg, Enum) and rg.tag == 'Err' and isinstance(rg.fields[0], Enum) and rg.fields[0].tag == 'KeyNotFound'
                    posts = [('Table::get for a user key that is not stored does not answer "not in this file"', Or(BoolVal(is_nf), *[lex_eq(other, k[0]) for k in K]))]
                    for label, post, m in ex.check_posts(posts, pc_g):
                        res.violations.append({'label': label, 'case': case, 'replay': ['table_edge_keys']})
                ex.run_fn(tget, [Ref('$table'), ro, lk], dict(e), pc_o, got_other)
                # ---- scans
                def scan(start_fn, step_fn, order, name):
                    def made(it, env_i, pc_i):
                        e2 = dict(env_i); e2['$it'] = it
                        def at(pos, env_p, pc_p):
                            def cur(rc, env_c, pc_c):
                                want = order[pos] if pos < len(order) else None
                                if want is None: post = BoolVal(isinstance(rc, Enum) and rc.tag == 'None')
                                else:
                                    okc = isinstance(rc, Enum) and rc.tag == 'Some'
                                    if okc:
                                        kk, vv = rc.fields[0]
                                        kk = ex.deref(env_c, kk) if isinstance(kk, Ref) else kk; vv = V(ex, env_c, vv)
                                        post = And(same_key(mir, ex, kk, K[want]), lex_eq(vv, vals[want]))
                                    else: post = BoolVal(False)
                                for label, _p, m in ex.check_posts([('the table iterator (%s) does not yield exactly the entries added, in order' % name, post)], pc_c):
                                    res.violations.append({'label': label, 'case': case, 'position': pos, 'replay': ['table_edge_keys']})
                                if want is None:
                                    res.cases[case + ': ' + name] = res.cases.get(case + ': ' + name, 0) + 1; return
                                ex.run_fn(step_fn, [Ref('$it')], env_c, pc_c, lambda _r2, e5, p5: at(pos + 1, e5, p5))
                            ex.run_fn(it_cur, [Ref('$it')], env_p, pc_p, cur)
                        ex.run_fn(start_fn, [Ref('$it')], e2, pc_i, lambda _r1, e4, p4: at(0, e4, p4))
                    ex.run_fn(it_new, [Ref('$table'), ro], dict(e), pc_o, made)
                # ---- seek to an arbitrary target (stored keys, gaps between blocks, beyond both ends): the first entry not less than it
                tgt_u, tgt_s = [BitVec('seek_key', 8)], BitVec('seek_seq', 64)
                tk = mir.mk_struct('InternalKey', user_key=list(tgt_u), sequence_number=tgt_s, operation=bv(1))
                def made_for_seek(it, env_i, pc_i):
                    e2 = dict(env_i); e2['$it'] = it
                    def sought(_r, env_s, pc_s):
                        def cur(rc, env_c, pc_c):
                            T = (tgt_u, tgt_s, bv(1))
                            ge = [Not(ikey_lt(K[j], T)) for j in range(n)]             # entry j >= target
                            conds = []
                            for j in range(n):
                                first = And(ge[j], *[Not(ge[h]) for h in range(j)])
                                if isinstance(rc, Enum) and rc.tag == 'Some':
                                    kk, vv = rc.fields[0]
                                    kk = ex.deref(env_c, kk) if isinstance(kk, Ref) else kk
                                    okj = same_key(mir, ex, kk, K[j])
                                else: okj = BoolVal(False)
                                conds.append(Or(Not(first), okj))
                            conds.append(Or(Or(*ge), BoolVal(isinstance(rc, Enum) and rc.tag == 'None')))
                            res.cases[case + ': seek'] = res.cases.get(case + ': seek', 0) + 1
                            for label, _p, m in ex.check_posts([('after seek the table iterator is not on the first entry that is not less than the target (targets between two data blocks included)', And(*conds))], pc_c):
                                res.violations.append({'label': label, 'case': case, 'model': {str(d): str(m[d]) for d in m.decls()}, 'replay': ['table_edge_keys']})
                        ex.run_fn(it_cur, [Ref('$it')], env_s, pc_s, cur)
                    ex.run_fn(it_seek, [Ref('$it'), tk], e2, pc_i, sought)
                ex.run_fn(it_new, [Ref('$table'), ro], dict(e), pc_o, made_for_seek)
                scan(it_first, it_next, list(range(n)), 'forward')
                scan(it_last, it_prev, list(reversed(range(n))), 'backward')
            ex.run_fn(topen, [{'abstract': True, '__ty': 'DbOptions'}, {'file': 1}], dict(env), pc, opened)
        def add_i(i, env, pc):
            if i == n: return ex.run_fn(fin, [Ref('$tb')], env, pc, built)
            def added(r, e2, p2):
                if not (isinstance(r, Enum) and r.tag == 'Ok'):
                    res.violations.append({'label': 'TableBuilder::add_entry fails although every write succeeds', 'case': case, 'replay': ['table_edge_keys']}); return
                add_i(i + 1, e2, p2)
            ex.run_fn(add, [Ref('$tb'), keys[i][0], list(vals[i])], env, pc, added)
        ex.solver.push()
        try:
            ex.solver.add(*pre)
            add_i(0, {'$state': {'K': 'internal'}, '$tb': tb, '$file': []}, list(pre))
        finally: ex.solver.pop()
        res.absorb(ex)
        _panics(res, ex, pre, 'key_codec')
    res.bounds = 'tables of (entries, max_block_size) in %s; user keys of 1 symbolic byte, sequence numbers < 2^56, values of 0..1 symbolic bytes; lookup bounds free; CRC uninterpreted, snappy never shrinks, set filter policy, cold block cache' % shapes
    res.wall_s = time.time() - t0
    if res.violations: res.status = 'violation'
    return res


def o13_8_confirm(v, out):
    """Native: `table_edge_keys` - real tables with the empty key, one-byte keys, repeated user keys and 0xff keys at three block sizes, every
    stored key looked up and iterated."""
    if out.get('_rc') != 0: return (True, 'native run panicked: %s' % out.get('_stderr', '')[-300:]) if 'panicked' in out.get('_stderr', '') else (False, 'native run failed: %s' % out.get('_stderr', '')[-300:])
    bad = [k for k, x in out.items() if not k.startswith('_') and ('mismatch' in k or 'missing' in k or 'rejected' in k) and x not in ('0', '')]
    return (bool(bad), 'native: %s' % {k: out[k] for k in bad} if bad else 'native table sweep agrees')
