"""O13.3 Table::get_block_reader: blocks served through the shared block cache belong to the table and offset that were asked for."""
import time
from z3 import BitVec, Bool, BoolVal, And, Or, Not, If, simplify
from ..exec import Exec, Enum, Ref, Opaque, Inconclusive, bv
from ..ob import Result, mval
from .. import lib


LABEL_KNF = 'a block that cannot be delivered (its handle points beyond the end of the file, the file lost its tail) is reported as "key not found" instead of an error: the read falls through to older tables'


def o13_3_block_cache(mir, tier):
    """Two tables with cache partition ids p1, p2 share one block cache (contract: a map from BlockCacheKey to block reader, keys
    compared field by field).  Table 1 reads the block at offset o1, then table 2 reads the block at offset o2 (fill_cache free
    for both).  Reference: each call returns the block of ITS table at ITS offset; with p1 != p2 (ids are unique, O5.3) a block of
    table 1 is never served to table 2; a second read of the same table and offset is served from the cache iff the first filled
    it."""
    fn = mir.method('Table', 'get_block_reader')
    res = Result('O13.3 Table::get_block_reader and the shared block cache', [fn.path, mir.method('Table', 'get_block_reader_from_cache').path, mir.method('Table', 'cache_block_reader').path],
                 'two tables (free partition ids), two reads (free offsets, free fill_cache flags); cache = map by contract; disk read by contract')
    t0 = time.time()
    kf = mir.struct_fields('BlockCacheKey'); tf = mir.struct_fields('Table'); hf = mir.struct_fields('BlockHandle')
    for same_table in (False, True):
        S = lib.std_summaries(); P = S['$patterns']
        p1, p2, o1, o2 = BitVec('partition_1', 64), BitVec('partition_2', 64), BitVec('offset_1', 64), BitVec('offset_2', 64)
        fill1, fill2 = Bool('fill_cache_1'), Bool('fill_cache_2')
        P[r'DbOptions::block_cache'] = lambda se, env, pc, o: lib.one(env, Ref('$cache'))
        P[r'<Arc<dyn (?:utils::cache::)?Cache<.*>> as Deref>::deref'] = lib.ptr_deref
        P[r'BlockHandle::get_offset'] = lambda se, env, pc, h: lib.one(env, se.deref(env, h)[hf.index('offset')])
        def cget(se, env, pc, c, key):
            kv = se.deref(env, key); ents = se.deref(env, Ref('$cache'))['entries']; outs = []; none = []
            for i, (ck, cv) in enumerate(ents):
                c_ = And(ck[kf.index('cache_partition_id')] == kv[kf.index('cache_partition_id')], ck[kf.index('block_offset')] == kv[kf.index('block_offset')])
                outs.append((And(c_, *none), Enum('Some', ({'cache_entry': cv},)), env['$state'])); none.append(Not(c_))
            outs.append((And(*none) if none else BoolVal(True), Enum('None'), env['$state']))
            return outs
        P[r'<dyn (?:utils::cache::)?Cache<.*> as (?:utils::cache::)?Cache<.*>>::get'] = cget
        def cins(se, env, pc, c, key, val):
            cv = dict(se.deref(env, Ref('$cache'))); cv['entries'] = cv['entries'] + [(dict(key) if isinstance(key, dict) else se.deref(env, key), val)]; env['$cache'] = cv
            return lib.one(env, {'cache_entry': val})
        P[r'<dyn (?:utils::cache::)?Cache<.*> as (?:utils::cache::)?Cache<.*>>::insert'] = cins
        P[r'<dyn CacheEntry<.*> as CacheEntry<.*>>::get_value'] = lambda se, env, pc, e: lib.one(env, (se.deref(env, e) if isinstance(e, Ref) else e)['cache_entry'])
        P[r'<Box<dyn CacheEntry<.*>> as Deref>::deref'] = lib.ident
        P[r'<.*MappedRwLockReadGuard<.*> as Deref>::deref'] = lib.ident
        def disk(se, env, pc, f, h):
            fv = se.deref(env, f) if isinstance(f, Ref) else f
            st = dict(env['$state']); st['disk_reads'] = st['disk_reads'] + 1
            return [(None, Enum('Ok', ({'block_of': fv.get('file') if isinstance(fv, dict) else '?', 'at': se.deref(env, h)[hf.index('offset')]},)), st)]
        P[r'(?:table::)?Table::get_data_block_reader_from_disk'] = disk
        P[r'<Box<dyn ReadonlyRandomAccessFile> as Deref>::deref'] = lib.ident
        from z3 import BitVec as _BV
        P[r'<dyn ReadonlyRandomAccessFile as ReadonlyRandomAccessFile>::len'] = lambda se, env, pc, f: lib.one(env, Enum('Ok', (_BV('file_length', 64),)))         # any length (a file that lost its tail included)
        P[r'BlockHandle::get_size'] = lambda se, env, pc, h: lib.one(env, se.deref(env, h)[hf.index('size')])
        P[r'<Result<.*> as FromResidual<Result<Infallible, .*>>>::from_residual'] = lambda se, env, pc, r: lib.one(env, r)
        ex = Exec(mir, S, loop_bound=4, opaque_calls_ok=True)
        def blk(r):
            v = r.fields[0] if isinstance(r, Enum) and r.tag == 'Ok' else None
            return v
        def first(r1, env1, pc1, ex=ex, same_table=same_table):
            d1 = env1['$state']['disk_reads']
            def second(r2, env2, pc2):
                b1, b2 = blk(r1), blk(r2)
                for r_ in (r1, r2):
                    if isinstance(r_, Enum) and r_.tag == 'Err' and isinstance(r_.fields[0], Enum) and r_.fields[0].tag == 'KeyNotFound':
                        ex.record_formula(LABEL_KNF, pc2, BoolVal(True))
                        if not any(v['label'] == LABEL_KNF for v in res.violations):
                            res.violations.append({'label': LABEL_KNF, 'same_table': same_table, 'replay': ['truncated_table_read']})
                        return
                if not (isinstance(b1, dict) and isinstance(b2, dict)): raise Inconclusive('block values %r %r; opaque calls: %s' % (b1, b2, sorted(ex.opaque_calls)))
                want2 = 'table1' if same_table else 'table2'
                posts = [('a block read fails although the cache and the disk read succeeded', BoolVal(b1 is not None and b2 is not None))]
                if b1 is not None and b2 is not None:
                    posts.append(('the first read does not return the block of its own table at the requested offset', And(BoolVal(b1.get('block_of') == 'table1'), b1['at'] == o1)))
                    posts.append(('a block cached for one table (or for another offset) is served to a read of a different table / offset', And(BoolVal(b2.get('block_of') == want2), b2['at'] == o2)))
                    if same_table:
                        served_from_cache = env2['$state']['disk_reads'] == d1
                        posts.append(('a block that was just cached is read from disk again, or a read is answered from the cache although the block was never cached', If(And(fill1, o1 == o2), BoolVal(served_from_cache), BoolVal(not served_from_cache))))
                res.cases['same_table=%s disk reads %d' % (same_table, env2['$state']['disk_reads'])] = 1
                for label, post, m in ex.check_posts(posts, pc2):
                    if 'served to a read of a different table' in label:
                        # a second native scenario: cache ids and block offsets of two tables mirror each other
                        res.violations.append({'label': label, 'same_table': same_table, 'model': {str(x): mval(m, x) for x in (p1, p2, o1, o2, fill1, fill2)}, 'replay': ['block_cache_collision']})
                    res.violations.append({'label': label, 'same_table': same_table, 'model': {str(x): mval(m, x) for x in (p1, p2, o1, o2, fill1, fill2)}, 'replay': ['db_scenario', 'P61=01', 'F', 'P62=02', 'F', 'G61', 'G62', 'G61', 'G62'] if 'served to a read of a different table' in label else None,
                                           'confirmed_by': None if 'served to a read of a different table' in label else {'reproduced': False, 'detail': 'no native scenario for this label'}})
            ro2 = mir.mk_struct('ReadOptions', fill_cache=fill2, snapshot=Enum('None'))
            ex.run_fn(fn, [Ref('$t1' if same_table else '$t2'), ro2, Ref('$h2')], env1, pc1, second)
        def mk_table(name, part):
            return mir.mk_struct('Table', options={'abstract': True, '__ty': 'DbOptions'}, cache_partition_id=part, file={'file': name}, footer={'abstract': True}, index_block={'abstract': True}, maybe_filter_block=Enum('None'))
        pre = [] if same_table else [p1 != p2]
        env = {'$state': {'disk_reads': 0}, '$cache': {'entries': []}, '$t1': mk_table('table1', p1), '$t2': mk_table('table2', p2),
               '$h1': mir.mk_struct('BlockHandle', offset=o1, size=bv(100)), '$h2': mir.mk_struct('BlockHandle', offset=o2, size=bv(100))}
        ro1 = mir.mk_struct('ReadOptions', fill_cache=fill1, snapshot=Enum('None'))
        ex.top(fn, [Ref('$t1'), ro1, Ref('$h1')], env, pre, first)
        res.absorb(ex)
        for pcx, msg, where in ex.panics:
            res.panic_paths += 1; res.violations.append({'label': 'panic path: ' + msg[:80], 'replay': None, 'confirmed_by': {'reproduced': False, 'detail': 'no native scenario'}})
    res.wall_s = time.time() - t0
    if res.violations: res.status = 'violation'
    return res


def o13_3_confirm(v, out):
    """Native: two tables (one key each, so both have their only data block at offset 0) in one database with the default block
    cache; both keys are read twice; compared with the reference model of the scenario."""
    if v['replay'][0] == 'truncated_table_read':
        if out.get('_rc') != 0: return (True, 'native run panicked / failed: %s' % out.get('_stderr', '')[-300:])
        return (out.get('stale', '0') != '0', 'native (disk file system): the newest table loses three quarters of its bytes while it is open; %s of %s keys then read their OLDER value or \'not found\' instead of an error (errors: %s)' % (out.get('stale'), out.get('keys'), out.get('errors')))
    if v['replay'][0] == 'block_cache_collision':
        if out.get('_rc') != 0: return (True, 'native run panicked: %s' % out.get('_stderr', '')[-200:])
        return (out.get('table1_m') != 'from-table-1' or out.get('table2_m') != 'from-table-2', 'native (%s): table 1 answers %s, table 2 answers %s' % (out.get('setup'), out.get('table1_m'), out.get('table2_m')))
    from .. import dbmodel
    return dbmodel.compare(v['replay'][1:], out)
