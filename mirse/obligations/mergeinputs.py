"""O15.6 CompactionManifest::make_merging_iterator: a compaction reads every one of its input files, or fails."""
import time
from z3 import BitVec, Bool, BoolVal, And, Or, Not, simplify
from ..exec import Exec, Enum, Ref, Opaque, Inconclusive, bv
from ..ob import Result, World, mval
from .. import lib
from .version import base_summaries


def o15_6_merging_iterator(mir, tier):
    """Compaction level 0 or 1, n0 files at the compaction level and n1 at the parent level.  Reference: the merged children are
    one table iterator per level-0 input plus one concatenating iterator per non-empty input list of a level >= 1, covering
    exactly the input files; if a level-0 input cannot be opened the call fails (the compaction must not go on without it: its
    version edit deletes every input file)."""
    fn = mir.method('CompactionManifest', 'make_merging_iterator')
    shapes = [(0, 2, 1), (0, 1, 0), (0, 3, 2), (1, 1, 1), (1, 2, 0), (1, 1, 2)]
    res = Result('O15.6 CompactionManifest::make_merging_iterator', [fn.path], '(level, inputs at the level, inputs at the parent level) in %s; TableCache::find_table succeeds or fails per level-0 input (free)' % (shapes,))
    t0 = time.time()
    numf = mir.field('FileMetadata', 'file_number')
    for level, n0, n1 in shapes:
        w = World(mir)
        ins = [[w.file('a%d' % i, number=10 + i) for i in range(n0)], [w.file('b%d' % i, number=20 + i) for i in range(n1)]]
        opens = {10 + i: Bool('open_ok_%d' % i) for i in range(n0)} if level == 0 else {}
        S = base_summaries(mir); P = S['$patterns']
        def find(se, env, pc, tc, num, opens=opens):
            n = simplify(num).as_long(); st = env.get('$state')
            c = opens.get(n, BoolVal(True))
            return [(c, Enum('Ok', ({'table_of': n},)), st), (Not(c), Enum('Err', (Enum('IO', (Opaque('e'),), 'ReadError'),)), st)]
        P[r'TableCache::find_table'] = find
        P[r'FileMetadata::file_number'] = lambda se, env, pc, f: lib.one(env, (se.deref(env, f) if isinstance(f, Ref) else f)[numf])
        P[r'(?:table::)?Table::iter_with'] = lambda se, env, pc, t, ro: lib.one(env, {'iter_of_table': t['table_of']})
        P[r'FilesEntryIterator::new'] = lambda se, env, pc, files, tc, ro: lib.one(env, {'iter_of_files': [simplify((se.deref(env, f) if isinstance(f, Ref) else f)[numf]).as_long() for f in files]})
        P[r'<ReadOptions as Clone>::clone'] = lib.ident
        P[r'MergingIterator::new'] = lambda se, env, pc, its: lib.one(env, {'merged': list(its)})
        P[r'CompactionManifest::get_compaction_level_files'] = lambda se, env, pc, cm: lib.one(env, se.deref(env, cm)[mir.field('CompactionManifest', 'input_files')][0])
        P[r'<.* as Into<RainDBError>>::into'] = lambda se, env, pc, e: lib.one(env, Enum('TableRead', (e,), 'RainDBError'))
        ex = Exec(mir, S, loop_bound=10, opaque_calls_ok=True)
        def k(ret, env, pc, level=level, n0=n0, n1=n1, opens=opens, ex=ex):
            ok = isinstance(ret, Enum) and ret.tag == 'Ok'
            all_open = And(*opens.values()) if opens else BoolVal(True)
            posts = [('the compaction goes on although one of its level-0 input tables cannot be opened (its entries would be lost when the inputs are deleted)', Or(BoolVal(not ok), all_open)),
                     ('make_merging_iterator fails although every input table can be opened', Or(BoolVal(ok), Not(all_open)))]
            if ok:
                kids = ret.fields[0].get('merged', []) if isinstance(ret.fields[0], dict) else []
                tabs = sorted(c['iter_of_table'] for c in kids if isinstance(c, dict) and 'iter_of_table' in c)
                lists = sorted(tuple(c['iter_of_files']) for c in kids if isinstance(c, dict) and 'iter_of_files' in c)
                want_tabs = [10 + i for i in range(n0)] if level == 0 else []
                want_lists = sorted(([tuple(10 + i for i in range(n0))] if level > 0 and n0 else []) + ([tuple(20 + i for i in range(n1))] if n1 else []))
                posts.append(('the merged compaction input does not cover exactly the input files of both levels', BoolVal(tabs == want_tabs and lists == want_lists and len(kids) == len(tabs) + len(lists))))
                res.cases['L%d %d+%d -> tables %s, lists %s' % (level, n0, n1, tabs, lists)] = 1
            for label, post, m in ex.check_posts(posts, pc):
                rep = 'goes on although' in label
                res.violations.append({'label': label, 'shape': [level, n0, n1], 'replay': ['compact_unopenable_newest'] if rep else None,
                                       'confirmed_by': None if rep else {'reproduced': False, 'detail': 'no native scenario for this label'}})
        cm = mir.mk_struct('CompactionManifest', level=bv(level), input_files=ins, maybe_input_version=Enum('None'), overlapping_grandparents=[],
                           change_manifest={'abstract': True, '__ty': 'VersionChangeManifest'}, max_output_file_size_bytes=bv(1 << 20), base_level_pointers=[bv(0)] * 7,
                           grandparent_index=bv(0), current_overlapping_bytes=bv(0), is_overlappping=BoolVal(False))
        env = {'$state': {}, '$cm': cm}
        ex.top(fn, [Ref('$cm'), {'abstract': True, '__ty': 'TableCache'}], env, list(w.pre), k)
        res.absorb(ex)
        for pc, msg, where in ex.panics:
            res.panic_paths += 1; res.violations.append({'label': 'panic path: ' + msg[:80], 'shape': [level, n0, n1], 'replay': None, 'confirmed_by': {'reproduced': False, 'detail': 'no native scenario'}})
    res.wall_s = time.time() - t0
    if res.violations: res.status = 'violation'
    return res


def o15_6_confirm(v, out):
    """Native: a key with versions in three tables at three levels; the newest (level-0) table cannot be opened (damaged footer);
    after reopen and a manual compaction of everything, a read of the key must not return an older value or absence."""
    if out.get('_rc') != 0: return (False, 'native run failed: %s' % out.get('_stderr', '')[-300:])
    g = out.get('get_after_compaction', '')
    return (g.startswith('Ok(') or g == 'Err(KeyNotFound)', 'after compacting with an unopenable newest table, get returns %s; tables left: %s' % (g, out.get('tables_after')))
