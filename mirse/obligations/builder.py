"""O10.5 VersionBuilder (accumulate_changes + apply_changes + maybe_add_file) and O3.3 VersionSet::get_live_files."""
import itertools, time
from z3 import BitVec, BitVecVal, Bool, BoolVal, And, Or, Not, Implies, ULT, ULE, UGT, UGE, If, simplify
from ..exec import Exec, Enum, Ref, Opaque, Inconclusive, bv
from ..ob import World, Result, klt, kle, keq, mval, key_bytes
from .. import lib, lib2
from .version import base_summaries, mk_version, sorted_disjoint, _files_argv, _levels_argv, _parse_levels, _pf


def builder_summaries(mir):
    S = lib2.install(base_summaries(mir))
    P = S['$patterns']
    P[r'<FileMetadata as Clone>::clone'] = lib.clone_deep
    P[r'Version::new_from_current'] = lambda se, env, pc, v, a, b: lib.one(env, dict(se.deref(env, v)))
    P[r'Version::num_files_at_level'] = lambda se, env, pc, v, l: lib.one(env, bv(0))
    P[r'<\[.*; 7\] as Default>::default'] = lambda se, env, pc: lib.one(env, [{'set': []} for _ in range(7)])
    return S


def o10_5_version_builder(mir, tier):
    """Applying an edit (deleted files, added files) to a well-formed version yields base - deleted + added, sorted, per level."""
    acc = mir.method('VersionBuilder', 'accumulate_changes'); app = mir.method('VersionBuilder', 'apply_changes')
    # scenarios: (base files per level, deleted (level, base index), added (level, count), touching user keys allowed)
    scen = [
        ('flush adds one level-0 file', {0: 1, 1: 2}, [], [(0, 1)]),
        ('compaction replaces two level-1 files by one and deletes a level-0 file', {0: 1, 1: 2}, [(0, 0), (1, 0), (1, 1)], [(1, 1)]),
        ('trivial move: the same file is deleted at level 1 and added at level 2', {1: 2, 2: 1}, [(1, 0)], 'move'),
        ('two added files around a surviving file', {2: 1}, [], [(2, 2)]),
        ('compaction into the deepest level: a level-5 file is deleted, its output is added at level 6 next to a survivor', {5: 1, 6: 1}, [(5, 0)], [(6, 1)]),
    ]
    if tier == 'thorough':
        scen += [('compaction output of two files replaces one file between two survivors', {1: 3}, [(1, 1)], [(1, 2)]),
                 ('file added to an empty level', {0: 1}, [], [(3, 1)])]
    res = Result('O10.5 VersionBuilder: new version = base - deleted + added, every level >= 1 sorted and disjoint',
                 [acc.path, app.path, 'VersionBuilder::maybe_add_file (inlined)', 'FileMetadataBySmallestKey::compare (inlined)'],
                 '%d edit scenarios on versions with <= 3 files per level; file metadata symbolic; the resulting file set is assumed disjoint per level >= 1 in internal-key order (user keys of neighbours may be equal); hash sets as duplicate-free lists' % len(scen))
    t0 = time.time()
    numf = mir.field('FileMetadata', 'file_number')
    for title, base, deleted, added in scen:
        w = World(mir)
        lv = {l: [w.file('b%d_%d' % (l, i), number=100 * l + i + 1) for i in range(n)] for l, n in base.items()}
        new_files = []
        if added == 'move':
            moved = lv[1][0]
            new_files = [(2, moved)]
        else:
            for l, n in added:
                for i in range(n): new_files.append((l, w.file('n%d_%d' % (l, i), number=900 + 10 * l + i)))
        dels = [(l, lv[l][i]) for l, i in deleted]
        # expected result per level
        expect = {}
        for l in range(7):
            keep = [f for i, f in enumerate(lv.get(l, [])) if (l, i) not in deleted]
            expect[l] = keep + [f for (ll, f) in new_files if ll == l]
        pre = list(w.pre)
        for l in range(7):
            fs = [w.F(f) for f in lv.get(l, [])]
            pre += [kle(f['sm'], f['lg']) for f in fs]
            if l > 0: pre += sorted_disjoint(fs)
            pre += [kle(w.F(f)['sm'], w.F(f)['lg']) for (ll, f) in new_files if ll == l]
            if l > 0:      # the resulting set is pairwise disjoint in internal-key order
                ex_f = [w.F(f) for f in expect[l]]
                for a, b in itertools.combinations(ex_f, 2): pre.append(Or(klt(a['lg'], b['sm']), klt(b['lg'], a['sm'])))
        manifest = mir.mk_struct('VersionChangeManifest', compaction_pointers=[], deleted_files={'set': [mir.mk_struct('DeletedFile', level=bv(l), file_number=f[numf]) for l, f in dels]},
                                 new_files=[(bv(l), f) for l, f in new_files], wal_file_number=Enum('None'), prev_wal_file_number=Enum('None'))
        builder = mir.mk_struct('VersionBuilder', deleted_files=[{'set': []} for _ in range(7)], added_files=[{'set': []} for _ in range(7)],
                                compaction_pointers=[Enum('None')] * 7, already_invoked=BoolVal(False))
        node = mir.mk_struct('Node', element=mk_version(mir, lv))
        ex = Exec(mir, builder_summaries(mir), loop_bound=12)
        filesf = mir.field('Version', 'files')
        def after_acc(ret, env, pc, ex=ex, expect=expect, title=title, lv=lv, new_files=new_files, dels=dels):
            def after_app(newv, env2, pc2):
                posts = []
                for l in range(7):
                    got = [f[numf] for f in newv[filesf][l]]
                    want = [f[numf] for f in expect[l]]
                    gs = sorted(simplify(x).as_long() for x in got); ws = sorted(simplify(x).as_long() for x in want)
                    posts.append(('the new version does not hold exactly base - deleted + added at some level', BoolVal(gs == ws)))
                    if l > 0 and len(newv[filesf][l]) > 1:
                        fs = [w.F(f) for f in newv[filesf][l]]
                        posts.append(('a level >= 1 of the new version is not sorted by smallest key / not disjoint', And(*[klt(fs[i]['lg'], fs[i + 1]['sm']) for i in range(len(fs) - 1)])))
                def argv(m):
                    a = ['version_builder']
                    for l in sorted(lv): a += ['@%d' % l] + _files_argv(m, [w.F(f) for f in lv[l]])
                    a.append('--delete'); a += ['%d:%d' % (l, simplify(f[numf]).as_long()) for l, f in dels]
                    a.append('--add')
                    for l, f in new_files: a += ['@%d' % l] + _files_argv(m, [w.F(f)])
                    return a
                bad = False
                for label, post in posts:
                    ex.record_formula(label, pc2, Not(post))
                    m = ex.model(Not(post))
                    if m is not None:
                        bad = True; res.violations.append({'label': label, 'scenario': title, 'replay': argv(m)})
                if not bad and len(res.witnesses) < 4 and not any(wi.get('scenario') == title for wi in res.witnesses):
                    m = ex.model()
                    if m is not None: res.witnesses.append({'scenario': title, 'executor_result': [[simplify(f[numf]).as_long() for f in newv[filesf][l]] for l in range(7)], 'replay': argv(m)})
                ex.paths += 1
            ex.run_fn(app, [Ref('$b'), Ref('$node'), bv(5), bv(9), Ref('$ptrs')], env, pc, after_app)
        env = {'$state': {}, '$b': builder, '$m': manifest, '$node': node, '$ptrs': [Enum('None')] * 7}
        ex.top(acc, [Ref('$b'), Ref('$m')], env, pre, after_acc)
        res.absorb(ex); res.cases[title] = ex.paths
        for pc, msg, where in ex.panics:
            res.panic_paths += 1
            ex.solver.push(); ex.solver.add(*pre); ex.solver.add(*[c for c in pc if not isinstance(c, bool)])
            m = ex.solver.model() if str(ex.solver.check()) == 'sat' else None; ex.solver.pop()
            a = None
            if m is not None:
                a = ['version_builder']
                for l in sorted(lv): a += ['@%d' % l] + _files_argv(m, [w.F(f) for f in lv[l]])
                a.append('--delete'); a += ['%d:%d' % (l, simplify(f[numf]).as_long()) for l, f in dels]
                a.append('--add')
                for l, f in new_files: a += ['@%d' % l] + _files_argv(m, [w.F(f)])
            res.violations.append({'label': 'applying a well-formed edit panics: ' + msg[:70], 'scenario': title, 'replay': a})
    res.wall_s = time.time() - t0
    if res.violations: res.status = 'violation'
    return res


def o10_13_manifest_replay(mir, tier):
    """Several edits accumulated on ONE builder before it is applied - what VersionSet::recover does with the records of a manifest:
    reference = the edits applied one after the other as set operations per level (delete, then add)."""
    acc = mir.method('VersionBuilder', 'accumulate_changes'); app = mir.method('VersionBuilder', 'apply_changes')
    # (title, base files per level, edits); an edit = (deleted [(level, file ref)], added [(level, file ref)]); file refs: ('b', level, i) base file, ('n', k) new file k
    N0, N1, N2 = ('n', 0), ('n', 1), ('n', 2)
    scen = [
        ('a flushed table is moved down as is by a later edit (trivial move of a file added earlier in the replay)', {2: 1}, [([], [(0, N0)]), ([(0, N0)], [(1, N0)])]),
        ('a flushed table is compacted into the next level by a later edit', {1: 1}, [([], [(0, N0)]), ([(0, N0), (1, ('b', 1, 0))], [(1, N1)])]),
        ('a table is moved down twice', {}, [([], [(1, N0)]), ([(1, N0)], [(2, N0)]), ([(2, N0)], [(3, N0)])]),
        ('a base table is moved down and the move target is compacted away', {1: 1, 3: 1}, [([(1, ('b', 1, 0))], [(2, ('b', 1, 0))]), ([(2, ('b', 1, 0))], [(3, N0)])]),
    ]
    if tier == 'thorough':
        scen += [('two flushes, then a compaction of both into level 1', {}, [([], [(0, N0)]), ([], [(0, N1)]), ([(0, N0), (0, N1)], [(1, N2)])]),
                 ('moved down, then moved down again while another table is flushed', {}, [([], [(0, N0)]), ([(0, N0)], [(1, N0)]), ([(1, N0)], [(2, N0), (0, N1)])])]
    res = Result('O10.13 VersionBuilder over several accumulated edits (manifest replay)',
                 [acc.path, app.path, 'VersionBuilder::maybe_add_file (inlined)', 'FileMetadataBySmallestKey::compare (inlined)'],
                 '%d replay scenarios of 2..3 edits on versions with <= 1 file per level; file metadata symbolic; hash sets as duplicate-free lists' % len(scen))
    t0 = time.time()
    numf = mir.field('FileMetadata', 'file_number'); filesf = mir.field('Version', 'files')
    for title, base, edits in scen:
        w = World(mir)
        lv = {l: [w.file('b%d_%d' % (l, i), number=100 * l + i + 1) for i in range(n)] for l, n in base.items()}
        newf = {}
        def F(ref):
            if ref[0] == 'b': return lv[ref[1]][ref[2]]
            if ref not in newf: newf[ref] = w.file('n%d' % ref[1], number=900 + ref[1])
            return newf[ref]
        cur = {l: list(lv.get(l, [])) for l in range(7)}
        manifests = []
        for dels, adds in edits:
            dl = [(l, F(r)) for l, r in dels]; ad = [(l, F(r)) for l, r in adds]
            for l, f in dl: cur[l] = [x for x in cur[l] if x is not f]
            for l, f in ad: cur[l] = cur[l] + [f]
            manifests.append((dl, ad))
        expect = cur
        pre = list(w.pre)
        allf = [f for l in lv for f in lv[l]] + list(newf.values())
        pre += [kle(w.F(f)['sm'], w.F(f)['lg']) for f in allf]
        for l in range(1, 7):
            pre += sorted_disjoint([w.F(f) for f in lv.get(l, [])])
            for a, b in itertools.combinations([w.F(f) for f in expect[l]], 2): pre.append(Or(klt(a['lg'], b['sm']), klt(b['lg'], a['sm'])))
        builder = mir.mk_struct('VersionBuilder', deleted_files=[{'set': []} for _ in range(7)], added_files=[{'set': []} for _ in range(7)],
                                compaction_pointers=[Enum('None')] * 7, already_invoked=BoolVal(False))
        node = mir.mk_struct('Node', element=mk_version(mir, lv))
        ex = Exec(mir, builder_summaries(mir), loop_bound=12)
        env = {'$state': {}, '$b': builder, '$node': node, '$ptrs': [Enum('None')] * 7}
        for i, (dl, ad) in enumerate(manifests):
            env['$m%d' % i] = mir.mk_struct('VersionChangeManifest', compaction_pointers=[], deleted_files={'set': [mir.mk_struct('DeletedFile', level=bv(l), file_number=f[numf]) for l, f in dl]},
                                            new_files=[(bv(l), f) for l, f in ad], wal_file_number=Enum('None'), prev_wal_file_number=Enum('None'))
        def argv(m, lv=lv, manifests=manifests, w=w):
            a = ['version_builder_edits']
            for l in sorted(lv): a += ['@%d' % l] + _files_argv(m, [w.F(f) for f in lv[l]])
            for dl, ad in manifests:
                a += ['--edit', '--delete'] + ['%d:%d' % (l, simplify(f[numf]).as_long()) for l, f in dl] + ['--add']
                for l, f in ad: a += ['@%d' % l] + _files_argv(m, [w.F(f)])
            return a
        def step(i, env, pc, ex=ex, manifests=manifests, expect=expect, title=title, argv=argv, w=w):
            if i < len(manifests):
                return ex.run_fn(acc, [Ref('$b'), Ref('$m%d' % i)], env, pc, lambda r, e2, p2: step(i + 1, e2, p2))
            def after_app(newv, env2, pc2):
                posts = []
                for l in range(7):
                    gs = sorted(simplify(f[numf]).as_long() for f in newv[filesf][l]); ws = sorted(simplify(f[numf]).as_long() for f in expect[l])
                    posts.append(('after several accumulated edits the new version does not hold what the edits, applied in order, leave at some level (a table listed at two levels, a deleted table kept, an added table lost)', BoolVal(gs == ws)))
                    if l > 0 and len(newv[filesf][l]) > 1:
                        fs = [w.F(f) for f in newv[filesf][l]]
                        posts.append(('a level >= 1 of the new version is not sorted by smallest key / not disjoint', And(*[klt(fs[k]['lg'], fs[k + 1]['sm']) for k in range(len(fs) - 1)])))
                bad = False
                for label, post, m in ex.check_posts(posts, pc2):
                    bad = True; res.violations.append({'label': label, 'scenario': title, 'replay': argv(m)})
                if not bad and not any(wi.get('scenario') == title for wi in res.witnesses) and len(res.witnesses) < 4:
                    m = ex.model()
                    if m is not None: res.witnesses.append({'scenario': title, 'executor_result': [[simplify(f[numf]).as_long() for f in newv[filesf][l]] for l in range(7)], 'replay': argv(m)})
                ex.paths += 1
            ex.run_fn(app, [Ref('$b'), Ref('$node'), bv(5), bv(9), Ref('$ptrs')], env, pc, after_app)
        ex.top(acc, [Ref('$b'), Ref('$m0')], env, pre, lambda r, e, p: step(1, e, p))
        res.absorb(ex); res.cases[title] = ex.paths
        for pc, msg, where in ex.panics:
            res.panic_paths += 1
            ex.solver.push(); ex.solver.add(*pre); ex.solver.add(*[c for c in pc if not isinstance(c, bool)])
            m = ex.solver.model() if str(ex.solver.check()) == 'sat' else None; ex.solver.pop()
            res.violations.append({'label': 'applying well-formed accumulated edits panics: ' + msg[:70], 'scenario': title, 'replay': argv(m) if m is not None else None})
    res.wall_s = time.time() - t0
    if res.violations: res.status = 'violation'
    return res


def _vbe_expected(argv):
    """reference for a version_builder_edits command line: file numbers per level after the edits"""
    cur = {l: [] for l in range(7)}; mode = 'base'; lvl = None
    for t in argv[1:]:
        if t == '--edit': mode = 'edit'; continue
        if t == '--delete': mode = 'del'; continue
        if t == '--add': mode = 'add'; continue
        if mode == 'del': l, n = t.split(':'); cur[int(l)] = [x for x in cur[int(l)] if x != int(n)]; continue
        if t.startswith('@'): lvl = int(t[1:]); continue
        cur[lvl].append(_pf(t)['num'])
    return cur


def o10_13_confirm(v, out):
    if out.get('_timeout'): return (False, 'native run timed out')
    if out.get('_rc') != 0 or out.get('panicked') == 'true':
        return (True, 'native VersionBuilder panicked: %s' % (out.get('panic_message') or out.get('_stderr', '')[-200:]))
    want = _vbe_expected(v['replay']); bad = []
    for l in range(7):
        got = sorted(int(x) for x in out.get('l%d' % l, '').split(',') if x)
        if sorted(want[l]) != got: bad.append('level %d: native %s, expected %s' % (l, got, sorted(want[l])))
    return (bool(bad), '; '.join(bad) or 'native result equals the edits applied in order')


def o10_13_witness_ok(w, out):
    if out.get('_rc') != 0 or out.get('panicked') == 'true': return False
    return all(sorted(int(x) for x in out.get('l%d' % l, '').split(',') if x) == sorted(w['executor_result'][l]) for l in range(7))


def _vb_parse(argv):
    base, dele, add, mode, cur = {}, [], {}, 'base', None
    for t in argv[1:]:
        if t == '--delete': mode = 'del'; continue
        if t == '--add': mode = 'add'; continue
        if mode == 'del': l, n = t.split(':'); dele.append((int(l), int(n))); continue
        tgt = base if mode == 'base' else add
        if t.startswith('@'): cur = int(t[1:]); tgt.setdefault(cur, [])
        else: tgt[cur].append(_pf(t))
    return base, dele, add


def o10_5_confirm(v, out):
    if out.get('_timeout'): return (False, 'native run timed out')
    base, dele, add = _vb_parse(v['replay'])
    if out.get('_rc') != 0 or out.get('panicked') == 'true':
        return (True, 'native VersionBuilder panicked: %s' % (out.get('panic_message') or out.get('_stderr', '')[-200:]))
    bad = []
    for l in range(7):
        want = sorted([f['num'] for f in base.get(l, []) if (l, f['num']) not in dele] + [f['num'] for f in add.get(l, [])])
        got = sorted(int(x) for x in out.get('l%d' % l, '').split(',') if x)
        if want != got: bad.append('level %d: native %s, expected %s' % (l, got, want))
    return (bool(bad), '; '.join(bad) or 'native result equals base - deleted + added')


def o10_5_witness_ok(w, out):
    if out.get('_rc') != 0 or out.get('panicked') == 'true': return False
    return all(sorted(int(x) for x in out.get('l%d' % l, '').split(',') if x) == sorted(w['executor_result'][l]) for l in range(7))


# ---------------------------------------------------------------- O3.3 / O11.2 get_live_files
def o3_3_live_files(mir, tier):
    fn = mir.method('VersionSet', 'get_live_files')
    res = Result('O3.3 VersionSet::get_live_files covers every file of every live version', [fn.path],
                 'three live versions (oldest, a pinned middle one, current) with one file at each of the levels {0, 3, 6} / {1, 6} / {0, 2, 5}; the linked list by contract (iter / head / tail / len)')
    t0 = time.time()
    w = World(mir)
    v1 = {0: [w.file('a0', number=10)], 3: [w.file('a3', number=13)], 6: [w.file('a6', number=16)]}
    v2 = {1: [w.file('b1', number=21)], 6: [w.file('b6', number=26)]}
    v3 = {0: [w.file('c0', number=30)], 2: [w.file('c2', number=32)], 5: [w.file('c5', number=35)]}
    S = builder_summaries(mir)
    nodes = [mir.mk_struct('Node', element=mk_version(mir, v)) for v in (v1, v2, v3)]
    refs = [Ref('$n0'), Ref('$n1'), Ref('$n2')]
    # the list of live versions by contract (the list itself is executed for real in O11.5): iter() = every node from head to tail,
    # head() / tail() = the two ends, len() = 3
    S['$patterns'][r'(?:\w+::)*LinkedList::iter'] = lambda se, env, pc, l: lib.one(env, {'it': list(refs)})
    S['$patterns'][r'(?:\w+::)*LinkedList::head'] = lambda se, env, pc, l: lib.one(env, Enum('Some', (refs[0],)))
    S['$patterns'][r'(?:\w+::)*LinkedList::tail'] = lambda se, env, pc, l: lib.one(env, Enum('Some', (refs[-1],)))
    S['$patterns'][r'(?:\w+::)*LinkedList::len'] = lambda se, env, pc, l: lib.one(env, bv(3, 64))
    S['$patterns'][r'(?:\w+::)*LinkedList::is_empty'] = lambda se, env, pc, l: lib.one(env, BoolVal(False))
    S['$patterns'][r'<NodeIter<.*> as Iterator>::next'] = lib.it_next
    S['$patterns'][r'<NodeIter<.*> as IntoIterator>::into_iter'] = lib.ident
    ex = Exec(mir, S, loop_bound=60)
    def k(ret, env, pc):
        got = sorted(simplify(x).as_long() for x in lib2.set_values(ex, env, ret) if True)
        want = [10, 13, 16, 21, 26, 30, 32, 35]
        post = BoolVal(got == want)
        label = 'a table file of a live version is missing from the live set'
        ex.record_formula(label, pc, Not(post))
        if got != want:
            res.violations.append({'label': label, 'missing': sorted(set(want) - set(got)), 'extra': sorted(set(got) - set(want)), 'replay': ['live_files']})
            res.violations.append({'label': label, 'missing': sorted(set(want) - set(got)), 'extra': sorted(set(got) - set(want)), 'replay': ['pinned_middle_version']})
        res.cases['live set'] = got
    env = {'$state': {}, '$vs': mir.mk_struct('VersionSet', versions={'abstract': True, '__ty': 'LinkedList'}, current_version=Ref('$n2')), '$n0': nodes[0], '$n1': nodes[1], '$n2': nodes[2]}
    ex.top(fn, [Ref('$vs')], env, list(w.pre), k)
    res.absorb(ex)
    res.wall_s = time.time() - t0
    if res.violations: res.status = 'violation'
    return res


def o3_3_confirm(v, out):
    if out.get('_rc') != 0: return (False, 'native run failed: %s' % out.get('_stderr', '')[-300:])
    if v['replay'][0] == 'pinned_middle_version':
        bad = out.get('pinned_tables_on_disk') != 'true' or out.get('views_ok') != 'true'
        return (bad, 'three iterators pin three successive versions, compactions and obsolete-file sweeps follow: pinned tables %s, on disk %s, iterator views %s'
                % (out.get('pinned_tables'), out.get('tables_on_disk'), out.get('views')))
    want = sorted(int(x) for x in out.get('installed', '').split(',') if x); got = sorted(int(x) for x in out.get('live', '').split(',') if x)
    return (not set(want) <= set(got), 'native get_live_files %s, files of the current version %s' % (got, want))
