"""Log format obligations over abstract byte streams: O12.1 (writer geometry), O12.3 / O2.1 / O16.x / O15 (reader reassembly)."""
import itertools, time
from z3 import BitVec, BitVecVal, Bool, BoolVal, And, Or, Not, Implies, ULT, ULE, UGT, UGE, If, URem, Extract, ZeroExt, simplify, is_true
from ..exec import Exec, Enum, Ref, Opaque, Inconclusive, bv
from ..ob import Result, mval
from .. import lib

BLOCK, HDR = 32768, 7
TYPES = {'Full': 0, 'First': 1, 'Middle': 2, 'Last': 3}


def log_summaries(mir):
    S = lib.std_summaries()
    P = S['$patterns']
    P[r'<u16 as TryFrom<usize>>::try_from'] = lambda se, env, pc, n: [(ULE(n, bv(0xffff)), Enum('Ok', (Extract(15, 0, n),)), env.get('$state')),
                                                                     (UGT(n, bv(0xffff)), Enum('Err', (Opaque('TryFromIntError'),)), env.get('$state'))]
    P[r'crc::crc32::<impl Crc<u32>>::checksum'] = lambda se, env, pc, c, d: lib.one(env, Opaque('crc'))
    P[r'<Result<.*> as FromResidual<Result<Infallible, .*>>>::from_residual'] = lambda se, env, pc, r: lib.one(env, r)
    return S


def o12_1_writer(mir, tier):
    fn = mir.method('LogWriter', 'append')
    blocks = 3 if tier == 'quick' else 4
    res = Result('O12.1 LogWriter::append geometry', [fn.path, 'LogWriter::emit_block (inlined)', 'BlockRecord::new (inlined)'],
                 'every start offset 0..=32768 in the block and every record length 0..=%d (both symbolic); file writes by contract (recorded as events)' % (blocks * BLOCK))
    t0 = time.time()
    P0, N = BitVec('start_offset', 64), BitVec('record_len', 64)
    S = log_summaries(mir)
    def write_all(se, env, pc, f, data):
        st = dict(env['$state']); d = se.deref(env, data) if isinstance(data, Ref) else data
        st['events'] = st['events'] + [d]; return [(None, Enum('Ok', ((),)), st)]
    S['$patterns'][r'<Box<dyn RandomAccessFile> as std::io::Write>::write_all'] = write_all
    S['$patterns'][r'<Box<dyn RandomAccessFile> as std::io::Write>::flush'] = lambda se, env, pc, f: lib.one(env, Enum('Ok', ((),)))
    recf = mir.struct_fields('BlockRecord')
    def ser(se, env, pc, r):
        rec = se.deref(env, r)
        return lib.one(env, {'kind': 'frag', 'len': bv(HDR) + rec[recf.index('data')]['len'], 'hdr_len': rec[recf.index('length')], 'type': rec[recf.index('block_type')], 'data': rec[recf.index('data')]})
    S['<Vec<u8> as From<&BlockRecord>>::from'] = ser
    ex = Exec(mir, S, loop_bound=blocks + 3)
    pre = [ULE(P0, bv(BLOCK)), ULE(N, bv(blocks * BLOCK))]
    wf = mir.struct_fields('LogWriter')
    def k(ret, env, pc):
        evs = env['$state']['events']
        writer = env['$w']
        posts = [('append reports an error although every file write succeeded', BoolVal(isinstance(ret, Enum) and ret.tag == 'Ok'))]
        avail0 = bv(BLOCK) - P0
        frags = [e for e in evs if e.get('kind') == 'frag']
        zeros = [e for e in evs if e.get('kind') == 'zeros']
        need_trailer = And(ULT(avail0, bv(HDR)), UGT(avail0, bv(0)))
        posts.append(('zero trailer is written iff fewer than 7 (and more than 0) bytes remain in the block', need_trailer == BoolVal(len(zeros) == 1 and evs[0].get('kind') == 'zeros') if len(zeros) <= 1 else BoolVal(False)))
        if zeros: posts.append(('trailer length is not the remainder of the block', zeros[0]['len'] == avail0))
        posts.append(('no fragment written', BoolVal(len(frags) >= 1)))
        pos = If(ULT(avail0, bv(HDR)), bv(0), P0)
        off = bv(0)
        for i, f in enumerate(frags):
            last = i == len(frags) - 1
            L = f['data']['len']
            want_t = 'Full' if len(frags) == 1 else ('First' if i == 0 else ('Last' if last else 'Middle'))
            t = f['type']
            posts.append(('fragment type sequence is not Full | First Middle* Last', BoolVal(isinstance(t, Enum) and t.tag == want_t)))
            posts.append(('header length field differs from the payload length', ZeroExt(48, f['hdr_len']) == L))
            posts.append(('fragment payloads are not contiguous slices of the record', f['data']['off'] == off))
            posts.append(('a fragment crosses the end of its block', ULE(pos + bv(HDR) + L, bv(BLOCK))))
            if not last: posts.append(('a non-final fragment does not fill its block', pos + bv(HDR) + L == bv(BLOCK)))
            off = off + L
            endpos = pos + bv(HDR) + L
            pos = If(ULT(bv(BLOCK) - endpos, bv(HDR)), bv(0), endpos) if not last else endpos
        posts.append(('fragment payloads do not add up to the record', off == N))
        posts.append(('current_block_offset after the append is not the end of the last fragment', writer[wf.index('current_block_offset')] == pos))
        shape = '%s%d' % ('T+' if zeros else '', len(frags))
        res.cases[shape] = res.cases.get(shape, 0) + 1
        for label, post in posts:
            ex.record_formula(label, pc, Not(post))
            m = ex.model(Not(post))
            if m is not None:
                res.violations.append({'label': label, 'start_offset': mval(m, P0), 'record_len': mval(m, N), 'replay': ['log_write', str(mval(m, P0) % BLOCK), str(mval(m, N))]})
        if len(res.witnesses) < 5 and res.cases[shape] == 1:
            m = ex.model(ULT(P0, bv(BLOCK)))
            if m is not None:
                fr = ','.join('%s:%d' % (TYPES.get(f['type'].tag, '?') if isinstance(f['type'], Enum) else '?', mval(m, f['data']['len'])) for f in frags)
                res.witnesses.append({'executor_result': fr, 'trailer': mval(m, zeros[0]['len']) if zeros else 0, 'replay': ['log_write', str(mval(m, P0)), str(mval(m, N))]})
    writer = mir.mk_struct('LogWriter', log_file_path='path', log_file='file', current_block_offset=P0)
    env = {'$state': {'events': []}, '$w': writer}
    ex.top(fn, [Ref('$w'), {'len': N, 'off': bv(0), 'kind': 'data'}], env, pre, k)
    res.absorb(ex)
    for pc, msg, where in ex.panics:
        res.panic_paths += 1
        m = None
        ex.solver.push(); ex.solver.add(*pre); ex.solver.add(*[c for c in pc if not isinstance(c, bool)])
        if str(ex.solver.check()) == 'sat': m = ex.solver.model()
        ex.solver.pop()
        res.violations.append({'label': 'panic path: ' + msg[:80], 'replay': ['log_write', str(mval(m, P0) % BLOCK), str(mval(m, N))] if m is not None else None})
    res.wall_s = time.time() - t0
    if res.violations: res.status = 'violation'
    return res


def ref_fragments(p, n):
    """Reference fragmentation of an n-byte record appended at in-block offset p: (trailer length, [(type, len)])."""
    trailer = 0
    if BLOCK - p < HDR:
        trailer = BLOCK - p; p = 0
    out, first, left = [], True, n
    while True:
        if BLOCK - p < HDR: p = 0
        space = BLOCK - p - HDR
        chunk = min(left, space); left -= chunk
        lastc = left == 0
        t = 'Full' if first and lastc else ('First' if first else ('Last' if lastc else 'Middle'))
        out.append((t, chunk)); p += HDR + chunk; first = False
        if lastc: break
    return trailer, out


def o12_1_confirm(v, out):
    if out.get('_rc') != 0: return (True, 'native append failed or panicked: %s' % out.get('_stderr', '')[-300:]) if 'panic' in v['label'] else (False, 'native run failed: %s' % out.get('_stderr', '')[-300:])
    p, n = int(v['replay'][1]), int(v['replay'][2])
    trailer, frs = ref_fragments(p, n)
    exp = ','.join('%s:%d' % (TYPES[t], l) for t, l in frs)
    bad = out.get('fragments') != exp or int(out.get('trailer', '0')) != trailer or out.get('parse_ok') != 'true'
    return (bad, 'native trailer=%s fragments=%s parse_ok=%s; reference trailer=%d fragments=%s' % (out.get('trailer'), out.get('fragments'), out.get('parse_ok'), trailer, exp))


def o12_1_witness_ok(w, out):
    if out.get('_rc') != 0: return False
    return out.get('fragments') == w['executor_result'] and int(out.get('trailer', '0')) == w['trailer']


# =============================================================== reader
def eof_discriminant(mir, fn):
    """Numeric discriminant of std::io::ErrorKind::UnexpectedEof, read off the match in read_record's own MIR."""
    import re
    fn.parse()
    kinds = [l for l, t in fn.locals.items() if t.strip() == 'std::io::ErrorKind']
    for bb, sts in fn.blocks.items():
        for i, st in enumerate(sts):
            m = re.match(r'(_\d+) = discriminant\((_\d+)\);', st)
            if m and m.group(2) in kinds:
                for st2 in sts[i + 1:]:
                    m2 = re.match(r'switchInt\(move %s\) -> \[(\d+): ' % m.group(1), st2)
                    if m2: return int(m2.group(1))
    raise Inconclusive('cannot find the ErrorKind::UnexpectedEof match in read_record')


class Stream:
    """An abstract log file: fragments with symbolic payload length, type, checksum-ok flag and number of bytes actually
    present (a torn fragment has fewer than 7+len bytes); trailers are implied by the block arithmetic; `cut` = file length."""
    def __init__(self, m, types=None, torn=None, name='s', trailers=None):
        self.m = m
        self.T = [BitVec('%s_t%d' % (name, i), 64) if types is None else bv(TYPES[types[i]]) for i in range(m)]
        self.types = types
        self.L = [BitVec('%s_n%d' % (name, i), 64) for i in range(m)]
        self.ok = [Bool('%s_ok%d' % (name, i)) for i in range(m)]
        torn = torn or {}
        self.present = [torn.get(i, bv(HDR) + self.L[i]) for i in range(m)]   # bytes of fragment i in the file
        self.pre = [ULE(t, bv(3)) for t in self.T] + [ULE(l, bv(BLOCK - HDR)) for l in self.L]
        self.pre += [ULT(q, bv(HDR) + self.L[i]) for i, q in torn.items()]
        self.b, self.pos, self.gap, self.endpos = [], [], [], []
        b, pos = bv(0), bv(0)
        for i in range(m):
            self.b.append(b); self.pos.append(pos)
            e = b + self.present[i]
            self.pre.append(ULE(b + bv(HDR) + self.L[i], bv(BLOCK)))         # a fragment never crosses a block end (O12.1)
            g = bv(BLOCK) - e
            if trailers is not None:                                       # case split chosen by the caller (keeps the formulas free of if-then-else)
                self.pre.append(ULT(g, bv(HDR)) if trailers[i] else UGE(g, bv(HDR)))
                tr = g if trailers[i] else bv(0)
            else: tr = If(ULT(g, bv(HDR)), g, bv(0))                         # implied trailer
            self.gap.append(tr)
            self.endpos.append(pos + self.present[i])
            pos = pos + self.present[i] + tr
            b = URem(e + tr, bv(BLOCK))
        self.end = self.endpos[-1] if m else bv(0)         # the file ends with its last fragment (a trailer is written by the next append)
        self.cut = self.end
        if types is not None:
            for i, t in enumerate(types):
                if t in ('First', 'Middle') and i not in torn:
                    self.pre.append(self.b[i] + bv(HDR) + self.L[i] == bv(BLOCK))     # non-final fragments fill their block (O12.1)


def reader_summaries(mir, st_, eofd):
    S = log_summaries(mir)
    P = S['$patterns']
    P[r'Vec::new'] = lambda se, env, pc: lib.one(env, {'segs': [], 'len': bv(0)})
    P[r'<Vec<u8> as DerefMut>::deref_mut'] = lib.ident
    recf = mir.struct_fields('BlockRecord')

    def serve(se, env, pc, bufref, exact):
        st = env['$state']; buf = se.deref(env, bufref); want = buf['len']
        i, phase = st['cur']
        outs = []
        def out(cond, ret, **upd):
            nst = dict(st); nb = upd.pop('buf', None); nst.update(upd); nst['reads'] = st['reads'] + 1
            outs.append((cond, ret, nst, [(bufref, nb)] if nb is not None else []))
        s = st_
        if phase == 'gap':
            # after the payload of fragment i: an implied trailer of gap[i] bytes, then fragment i+1
            g = s.gap[i]
            if exact:
                avail = s.cut - (s.pos[i] + s.present[i])
                okc = And(g != bv(0), want == g)
                out(And(okc, UGE(avail, g)), Enum('Ok', ((),)), cur=(i + 1, 'hdr'), buf=dict(buf, kind='trailer'))
                out(And(okc, ULT(avail, g)), Enum('Err', ({'kind': Enum('UnexpectedEof', (), 'ErrorKind'), '__ty': 'io::Error'},)), cur=(i + 1, 'hdr'), ended=True)
                out(Not(okc), Enum('Ok', ((),)), desync='read_exact(%s) does not match the trailer after fragment %d' % ('?', i), cur=(i + 1, 'hdr'))
                return outs
            # plain read while a trailer is pending -> the reader is not block-aligned
            nst = dict(st); nst['cur'] = (i + 1, 'hdr')
            sub = serve_hdr(se, env, pc, bufref, buf, want, i + 1, nst)
            for c, r, s2, wr in sub: outs.append((And(g == bv(0), c) if c is not None else g == bv(0), r, s2, wr))
            out(g != bv(0), Enum('Ok', (bv(0),)), desync='read of a header while %s trailer bytes are pending after fragment %d' % ('gap', i), cur=(i + 1, 'hdr'))
            return outs
        if exact:
            out(None, Enum('Ok', ((),)), desync='read_exact at fragment %d phase %s' % (i, phase)); return outs
        if phase == 'hdr': return serve_hdr(se, env, pc, bufref, buf, want, i, st)
        # payload of fragment i
        have = s.present[i] - bv(HDR)                     # payload bytes of this fragment that are in the file
        later = i + 1 < s.m                               # bytes of later fragments follow a torn one
        avail = s.cut - (s.pos[i] + bv(HDR))
        full = And(want == s.L[i], have == s.L[i], UGE(avail, s.L[i]))
        out(full, Enum('Ok', (s.L[i],)), cur=(i, 'gap'), buf=dict(buf, kind='pay', frag=i))
        short_cut = And(want == s.L[i], have == s.L[i], ULT(avail, s.L[i]))
        p = BitVec('short%d_%d' % (i, st['reads']), 64)
        out(And(short_cut, p == avail), Enum('Ok', (p,)), cur=(i, 'gap'), buf=dict(buf, kind='partial'), ended=True)
        torn = And(want == s.L[i], ULT(have, s.L[i]))
        if later:
            # the read runs into the bytes appended later; it is harmless for alignment iff it ends exactly where a later fragment starts
            realigned = []
            for j in range(i + 1, s.m):
                cj = And(torn, s.pos[i] + bv(HDR) + s.L[i] == s.pos[j], UGE(s.cut, s.pos[j]))
                realigned.append(cj)
                out(cj, Enum('Ok', (s.L[i],)), cur=(j, 'hdr'), buf=dict(buf, kind='garbage'))
            out(And(torn, Not(Or(*realigned))), Enum('Ok', (s.L[i],)), cur=(i, 'gap'), buf=dict(buf, kind='garbage'),
                desync='payload read of torn fragment %d consumes bytes of the records appended after it' % i)
        else:
            out(And(torn, p == have), Enum('Ok', (p,)), cur=(i, 'gap'), buf=dict(buf, kind='partial'), ended=True)
        out(want != s.L[i], Enum('Ok', (bv(0),)), desync='payload read length differs from the fragment length (fragment %d)' % i)
        return outs

    def serve_hdr(se, env, pc, bufref, buf, want, i, st):
        outs = []
        def out(cond, ret, **upd):
            nst = dict(st); nb = upd.pop('buf', None); nst.update(upd); nst['reads'] = st['reads'] + 1
            outs.append((cond, ret, nst, [(bufref, nb)] if nb is not None else []))
        s = st_
        if i >= s.m:
            out(None, Enum('Ok', (bv(0),)), cur=(i, 'hdr'), ended=True); return outs
        avail = s.cut - s.pos[i]
        hp = If(ULT(s.present[i], bv(HDR)), s.present[i], bv(HDR))       # header bytes present
        full = And(want == bv(HDR), hp == bv(HDR), UGE(avail, bv(HDR)))
        out(full, Enum('Ok', (bv(HDR),)), cur=(i, 'pay'), buf=dict(buf, kind='hdr', frag=i))
        h = BitVec('hshort%d_%d' % (i, st['reads']), 64)
        if i + 1 < s.m:
            out(And(want == bv(HDR), hp != bv(HDR)), Enum('Ok', (bv(HDR),)), cur=(i, 'pay'), buf=dict(buf, kind='garbage'),
                desync='header read of torn fragment %d consumes bytes of the records appended after it' % i)
            out(And(want == bv(HDR), hp == bv(HDR), ULT(avail, bv(HDR)), h == avail), Enum('Ok', (h,)), cur=(i, 'pay'), buf=dict(buf, kind='partial'), ended=True)
        else:
            out(And(want == bv(HDR), Or(hp != bv(HDR), ULT(avail, bv(HDR))), h == If(ULT(avail, hp), avail, hp)), Enum('Ok', (h,)), cur=(i, 'pay'), buf=dict(buf, kind='partial'), ended=True)
        out(want != bv(HDR), Enum('Ok', (bv(0),)), desync='header read of %s bytes' % 'n')
        return outs

    P[r'<dyn ReadonlyRandomAccessFile as std::io::Read>::read'] = lambda se, env, pc, f, b: serve(se, env, pc, b, False)
    P[r'<dyn ReadonlyRandomAccessFile as std::io::Read>::read_exact'] = lambda se, env, pc, f, b: serve(se, env, pc, b, True)
    P[r'<dyn ReadonlyRandomAccessFile as ReadonlyRandomAccessFile>::len'] = lambda se, env, pc, f: lib.one(env, Enum('Ok', (st_.cut,)))
    P[r'<Box<dyn ReadonlyRandomAccessFile> as Deref(?:Mut)?>::deref(?:_mut)?'] = lib.ident
    def decode(se, env, pc, t):
        t = se.deref(env, t) if isinstance(t, Ref) else t
        if t.get('kind') == 'hdr': return lib.one(env, Extract(15, 0, st_.L[t['frag']]))
        return lib.one(env, BitVec('garbage_len_%d' % env['$state']['reads'], 16))
    P[r'<u16 as FixedInt>::decode_fixed'] = decode
    P[r'std::slice::<impl \[Vec<u8>\]>::concat'] = lambda se, env, pc, r: lib.one(env, {'kind': 'block', 'parts': list(se.deref(env, r) if isinstance(r, Ref) else r)})
    def try_from(se, env, pc, r):
        blk = se.deref(env, r); parts = blk['parts']
        hdr = parts[0]; pay = parts[1]
        if hdr.get('kind') == 'hdr' and pay.get('kind') == 'pay' and hdr['frag'] == pay['frag']:
            i = hdr['frag']
            rec = {recf.index('checksum'): Opaque('crc'), recf.index('length'): Extract(15, 0, st_.L[i]), recf.index('block_type'): st_.T[i],
                   recf.index('data'): {'segs': [i], 'len': st_.L[i]}, '__ty': 'BlockRecord'}
            return [(st_.ok[i], Enum('Ok', (rec,)), env['$state']), (Not(st_.ok[i]), Enum('Err', (Enum('Seralization', (Opaque('msg'),), 'LogIOError'),)), env['$state'])]
        # garbage: with a real CRC this fails (up to a 2^-32 collision, outside the model)
        return [(None, Enum('Err', (Enum('Seralization', (Opaque('msg'),), 'LogIOError'),)), env['$state'])]
    P[r'<BlockRecord as TryFrom<&Vec<u8>>>::try_from'] = try_from
    def extend(se, env, pc, r, data):
        cur = se.deref(env, r)
        if isinstance(cur, list) and not cur: cur = {'segs': [], 'len': bv(0)}          # an emptied buffer
        if isinstance(data, list) and not data: data = {'segs': [], 'len': bv(0)}
        se.store(env, r, {'segs': cur['segs'] + data['segs'], 'len': cur['len'] + data['len']}); return lib.one(env, ())
    P[r'<Vec<u8> as Extend<u8>>::extend'] = extend
    P[r'Vec::clear'] = lambda se, env, pc, r: (se.store(env, r, {'segs': [], 'len': bv(0)}), lib.one(env, ()))[1]
    P[r'must_use'] = lib.ident
    P[r'format'] = lambda se, env, pc, *a: lib.one(env, {'str': '<formatted>'})
    return S


def run_reader(mir, s, pre, max_calls, budget=None, on_path=None, via_new=None):
    """Call read_record repeatedly on the abstract stream; returns (executor, list of (pc, outputs, final state))
    where outputs = list of ('rec', [fragment indexes]) | ('err',) | ('eof',)."""
    fn = mir.method('LogReader', 'read_record')
    from ..exec import STD_DISCR
    STD_DISCR['UnexpectedEof'] = eof_discriminant(mir, fn)
    S = reader_summaries(mir, s, STD_DISCR['UnexpectedEof'])
    ex = Exec(mir, S, loop_bound=s.m + 4, budget_s=budget)
    reader = mir.mk_struct('LogReader', log_file='file', log_file_path='path', initial_offset=bv(0), current_cursor_position=bv(0), current_block_offset=bv(0))
    finished = []
    def fin(pc, outs, st, rd):
        finished.append((pc, outs, st, rd))
        if on_path: on_path(ex, pc, outs, st, rd)
    def again(env, pc, outs, n):
        if n == 0:
            fin(pc, outs + [('more',)], env['$state'], env['$reader']); return
        def k(ret, env2, pc2):
            if env2['$state'].get('desync'):
                fin(pc2, outs + [('desync', env2['$state']['desync'])], env2['$state'], env2['$reader']); return
            if isinstance(ret, Enum) and ret.tag == 'Ok':
                data, eof = ret.fields[0]
                if is_true(simplify(eof)):
                    fin(pc2, outs + [('eof',)], env2['$state'], env2['$reader']); return
                again(env2, pc2, outs + [('rec', list(data['segs']))], n - 1)
            else:
                fin(pc2, outs + [('err',)], env2['$state'], env2['$reader'])
        ex.run_fn(fn, [Ref('$reader')], env, pc, k)
    env = {'$state': {'cur': (0, 'hdr'), 'reads': 0}, '$reader': reader}
    ex.solver.push()
    try:
        ex.solver.add(*pre)
        if str(ex.solver.check()) != 'sat': raise Inconclusive('stream precondition unsatisfiable (vacuous)')
        if via_new is None: again(env, list(pre), [], max_calls)
        else:
            # the reader object is produced by LogReader::new while the file has `via_new` bytes; the stream `s` is what the file
            # holds when the records are read (the writer kept appending in between)
            newfn = mir.method('LogReader', 'new')
            P = S['$patterns']; at_open = [True]
            P[r'<Arc<dyn FileSystem> as Deref>::deref'] = lib.ident
            P[r'<dyn FileSystem as FileSystem>::open_file'] = lambda se, env, pc, fs, path: lib.one(env, Enum('Ok', ('file',)))
            P[r'<P as AsRef<Path>>::as_ref'] = lib.ident; P[r'<.* as AsRef<Path>>::as_ref'] = lib.ident; P[r'Path::to_path_buf'] = lib.ident
            len_late = P[r'<dyn ReadonlyRandomAccessFile as ReadonlyRandomAccessFile>::len']
            P[r'<dyn ReadonlyRandomAccessFile as ReadonlyRandomAccessFile>::len'] = lambda se, env, pc, f: (lib.one(env, Enum('Ok', (via_new,))) if at_open[0] else len_late(se, env, pc, f))
            P[r'<Box<dyn ReadonlyRandomAccessFile> as Deref>::deref'] = lib.ident
            def made(ret, env2, pc2):
                at_open[0] = False
                if not (isinstance(ret, Enum) and ret.tag == 'Ok'): raise Inconclusive('LogReader::new failed: %r' % (ret,))
                e = dict(env2); e['$reader'] = ret.fields[0]
                again(e, pc2, [], max_calls)
            ex.run_fn(newfn, ['fs', {'path': 'log'}, bv(0)], env, list(pre), made)
    finally:
        ex.solver.pop()
    ex.paths = len(finished)
    return ex, finished


def groups_of(types):
    """types: concrete list of 'Full'/'First'/'Middle'/'Last' -> list of records (lists of fragment indexes) per writer grammar, or None."""
    out, cur = [], None
    for i, t in enumerate(types):
        if t == 'Full':
            if cur is not None: return None
            out.append([i])
        elif t == 'First':
            if cur is not None: return None
            cur = [i]
        elif t == 'Middle':
            if cur is None: return None
            cur.append(i)
        else:
            if cur is None: return None
            cur.append(i); out.append(cur); cur = None
    return out if cur is None else None


def trailer_splits(types):
    """Case split over 'fewer than 7 bytes remain in the block after fragment i' (always true for block-filling fragments)."""
    free = [i for i, t in enumerate(types) if t in ('Full', 'Last')]
    for bits in itertools.product((False, True), repeat=len(free)):
        tr = [True] * len(types)
        for i, b in zip(free, bits): tr[i] = b
        yield tr


def type_patterns(m, allow_abandoned=False):
    """All concrete type sequences of m fragments that a sequence of writers can produce: complete records, optionally
    (allow_abandoned) one abandoned record prefix First Middle* followed by complete records of a reopened writer."""
    names = ['Full', 'First', 'Middle', 'Last']
    for ts in itertools.product(names, repeat=m):
        g = groups_of(list(ts))
        if g is not None: yield list(ts), g, None
        elif allow_abandoned:
            # find one abandoned prefix
            for a in range(m):
                if ts[a] != 'First': continue
                for e in range(a, m):
                    if all(ts[x] == 'Middle' for x in range(a + 1, e + 1)):
                        rest = list(ts[:a]) + list(ts[e + 1:])
                        g2 = groups_of(rest)
                        if g2 is not None and e + 1 < m and groups_of(list(ts[:a])) is not None and groups_of(list(ts[e + 1:])) is not None:
                            idx = list(range(a)) + list(range(e + 1, m))
                            yield list(ts), [[idx[j] for j in grp] for grp in g2], (a, e)


def _script(m, s, groups_all, appended_order, extra):
    """Render a model as a native scenario: record lengths in append order plus truncation / reopen / corruption steps."""
    return None


def _rec_len(m, s, grp): return sum(mval(m, s.L[i]) for i in grp)


def _checker(res, expected_fn, label_prefix, argv_fn, witness_sink=None):
    """Returns on_path(ex, pc, outs, st, reader): a path is fine iff under its path condition one of the conditions of
    expected_fn() holds whose expected outputs equal the path's outputs. Runs inside the solver context of the path."""
    import re as _re
    def on_path(ex, pc, outs, st, reader):
        alts = expected_fn()
        ok_conds = [c for c, exp in alts if exp == outs]
        post = Or(*ok_conds) if ok_conds else BoolVal(False)
        kind = outs[-1][0]
        if kind == 'desync': label = label_prefix + 'reader loses alignment with the fragment structure (a read spans a fragment boundary)'
        elif kind == 'err': label = label_prefix + 'reader reports an error'
        elif kind == 'more': label = label_prefix + 'reader does not reach end-of-file after the expected number of records'
        else: label = label_prefix + 'returned records differ from the appended records'
        ex.record_formula(label, pc, Not(post))
        mdl = ex.model(Not(post))
        if mdl is not None:
            argv = argv_fn(mdl)
            for rp in (argv if argv and isinstance(argv[0], list) else [argv]):
                res.violations.append({'label': label, 'outputs': [list(o) for o in outs], 'replay': rp})
                if len([v for v in res.violations if v['label'] == label]) > 40: res.violations.pop()
        elif witness_sink is not None and len(witness_sink) < 1 and len(outs) >= 2:
            mdl = ex.model()
            if mdl is not None: witness_sink.append({'executor_result': [list(o) for o in outs], 'replay': argv_fn(mdl)})
    return on_path


def _argv_scenario(m, s, types, records_in_append_order, steps_after=None, cut=None, bad=None, abandoned=None, torn=None, bad_byte=None):
    """Scenario for the native replay: a list of steps.
    A<len>: append a record; K<bytes>: keep only the first <bytes> bytes of the file and reopen the writer; X<offset>: flip the byte at <offset>."""
    steps = []
    for grp, kind in records_in_append_order:
        ln = sum(mval(m, s.L[i]) for i in grp)
        if kind == 'complete': steps.append('A%d' % ln)
        elif kind == 'abandoned':
            # the writer dies between two fragments: append a record that is one byte longer than the fragments written, then cut the file back
            steps.append('A%d' % (ln + 1)); steps.append('K%d' % mval(m, s.endpos[grp[-1]]))
        elif kind == 'torn':
            steps.append('A%d' % ln); steps.append('K%d' % (mval(m, s.pos[grp[-1]]) + mval(m, s.present[grp[-1]])))
    if bad is not None:
        i = bad
        off = mval(m, s.pos[i]) + (HDR if mval(m, s.L[i]) > 0 else 0)
        if bad_byte == 'type': off = mval(m, s.pos[i]) + 6        # the fragment type byte (altered to a value that is no fragment type)
        steps.append('X%d' % off)
    if cut is not None: steps.append('K%d' % mval(m, cut))
    return ['log_scenario'] + steps


def o12_3_reader(mir, tier): return _reader_obligation(mir, tier, 'cut', 'O12.3 LogReader::read_record: complete records, file intact or cut at any byte')
def o12_4_reader(mir, tier): return _reader_obligation(mir, tier, 'abandoned', 'O12.4 LogReader::read_record: writer stopped between two fragments, later writer appended')
def o15_5_reader(mir, tier): return _reader_obligation(mir, tier, 'bad', 'O15.5 LogReader::read_record: one fragment with a bad checksum')


def _reader_obligation(mir, tier, sub, title):
    """Reader reassembly over writer-producible streams: complete records (uncut and cut at a symbolic byte), one abandoned
    record prefix followed by the records of a reopened writer, one fragment with a bad checksum."""
    M = 3 if tier == 'quick' else 4
    res = Result(title, ['LogReader::read_record', 'LogReader::read_physical_record (inlined)', 'DBIOError::new/kind, error conversions (inlined)'],
                 'streams of 1..%d fragments with symbolic payload lengths 0..32761 at block-accurate offsets (trailers implied), every writer-producible type sequence; '
                 'file reads, decode_fixed, BlockRecord::try_from by contract; sub-cases: intact, cut at any byte, abandoned record prefix + reopen, one bad-checksum fragment' % M)
    t0 = time.time()
    BUDGET_M4_CUT = 2400        # seconds; the cut sub-case with 4 fragments did not finish in 2 hours when run exhaustively
    for m in range(0, M + 1):
        pats = list(type_patterns(m, allow_abandoned=True)) if m else [([], [], None)]
        t_m = time.time()
        for types, groups, aband, trs in [(t, g, a, tr) for (t, g, a) in pats for tr in trailer_splits(t)]:
            if sub == 'cut' and m == 4 and aband is None and time.time() - t_m > BUDGET_M4_CUT:
                res.cases['cut m=4: type sequences not explored (time budget of %d s)' % BUDGET_M4_CUT] = res.cases.get('cut m=4: type sequences not explored (time budget of %d s)' % BUDGET_M4_CUT, 0) + 1
                continue
            # ---- intact and cut
            s = Stream(m, types, trailers=trs)
            cut = BitVec('cut', 64)
            s.cut = cut
            if aband is None and sub == 'cut':
                pre = s.pre + s.ok + [ULE(cut, s.end)]
                def expected(groups=groups, s=s):
                    alts = []
                    for r in range(len(groups) + 1):
                        c = []
                        if r > 0: c.append(ULE(s.endpos[groups[r - 1][-1]], s.cut))
                        if r < len(groups): c.append(ULT(s.cut, s.endpos[groups[r][-1]]))
                        alts.append((And(*c) if c else BoolVal(True), [('rec', g) for g in groups[:r]] + [('eof',)]))
                    return alts
                recs = [(g, 'complete') for g in groups]
                wit = []
                ex, fin = run_reader(mir, s, pre, len(groups) + 1, on_path=_checker(res, expected, 'complete records, file cut at any byte: ',
                                     lambda mdl, s=s, recs=recs: _argv_scenario(mdl, s, types, recs, cut=s.cut), wit if (m >= 2 and len(res.witnesses) < 4) else None))
                res.absorb(ex); res.cases['cut m=%d' % m] = res.cases.get('cut m=%d' % m, 0) + len(fin); res.cases['t cut %s' % ','.join(types)] = round(ex.solver_s, 1)
                res.witnesses += wit
            if aband is None and sub == 'bad':
                recs = [(g, 'complete') for g in groups]
                # ---- one bad fragment
                if m >= 1:
                    s = Stream(m, types, trailers=trs)
                    which = BitVec('bad', 64)
                    pre = s.pre + [ULT(which, bv(m))] + [s.ok[i] == (which != bv(i)) for i in range(m)]
                    def expected2(groups=groups, s=s, which=which, m=m):
                        alts = []
                        for bi in range(m):
                            keep = [g for g in groups if bi not in g]
                            alts.append((which == bv(bi), [('rec', g) for g in keep] + [('eof',)]))
                        return alts
                    ex, fin = run_reader(mir, s, pre, len(groups) + 1, on_path=_checker(res, expected2, 'one fragment with a bad checksum: ',
                                         lambda mdl, s=s, recs=recs, which=which: [_argv_scenario(mdl, s, types, recs, bad=mval(mdl, which)),
                                                                                    _argv_scenario(mdl, s, types, recs, bad=mval(mdl, which), bad_byte='type')]))
                    res.absorb(ex); res.cases['bad m=%d' % m] = res.cases.get('bad m=%d' % m, 0) + len(fin); res.cases['t bad %s' % ','.join(types)] = round(ex.solver_s, 1)
            if aband is not None and sub == 'abandoned':
                # ---- abandoned record prefix, then the records of a reopened writer
                a, e = aband
                s = Stream(m, types, trailers=trs)
                pre = s.pre + s.ok
                exp = [('rec', g) for g in groups] + [('eof',)]
                recs = []
                for g in sorted(groups + [list(range(a, e + 1))], key=lambda g: g[0]):
                    recs.append((g, 'abandoned' if g[0] == a else 'complete'))
                ex, fin = run_reader(mir, s, pre, len(groups) + 1, on_path=_checker(res, lambda exp=exp: [(BoolVal(True), exp)],
                                     'writer stopped between two fragments, a later writer appended more records: ', lambda mdl, s=s, recs=recs: _argv_scenario(mdl, s, types, recs)))
                res.absorb(ex); res.cases['abandoned m=%d' % m] = res.cases.get('abandoned m=%d' % m, 0) + len(fin); res.cases['t ab %s' % ','.join(types)] = round(ex.solver_s, 1)
    res.wall_s = time.time() - t0
    if res.violations: res.status = 'violation'
    return res


def _native_expect(argv):
    """Reference semantics of a scenario, computed on the steps: which appended records must be returned."""
    return None


def o12_3_confirm(v, out):
    """Native: the scenario is executed with the real LogWriter on an in-memory file (truncations emulate a writer that died /
    a cut file), then the real LogReader reads until EOF. `expected` is computed natively from the file layout: the ids of
    the appended records that are completely present and undamaged, in order."""
    if out.get('_rc') != 0: return (True, 'native reader panicked or failed: %s' % out.get('_stderr', '')[-300:])
    bad = out.get('returned') != out.get('expected') or out.get('end') != 'eof'
    return (bad, 'native returned records %s then %s; expected %s then eof' % (out.get('returned'), out.get('end'), out.get('expected')))


def o12_3_witness_ok(w, out):
    if out.get('_rc') != 0: return False
    n = len([o for o in w['executor_result'] if o[0] == 'rec'])
    got = [x for x in out.get('returned', '').split(',') if x]
    return len(got) == n and out.get('end') == ('eof' if w['executor_result'][-1][0] == 'eof' else out.get('end'))


def o16_2_torn_append(mir, tier):
    """A torn fragment (only q of its 7+len bytes reached the file), then a reopened writer appends records: the complete
    records before and after the torn one must be returned."""
    shapes = [(0, 1), (1, 1)] if tier == 'quick' else [(0, 1), (1, 1), (1, 2), (2, 1), (0, 2), (2, 2)]
    res = Result('O16.2 torn tail, then appended records', ['LogReader::read_record', 'LogReader::read_physical_record (inlined)'],
                 'a Full records, one torn Full fragment (q < 7+len bytes present, q symbolic), b Full records appended by a reopened writer; (a, b) in %s; lengths symbolic' % (shapes,))
    t0 = time.time()
    for a, b in shapes:
        m = a + 1 + b
        types = ['Full'] * m
        q = BitVec('q', 64)
        for trs in trailer_splits(types):
            if tier != 'quick' and time.time() - t0 > 2400:        # the six thorough shapes did not finish in 2 hours when run exhaustively
                res.cases['not explored (time budget of 2400 s): a=%d b=%d' % (a, b)] = res.cases.get('not explored (time budget of 2400 s): a=%d b=%d' % (a, b), 0) + 1
                continue
            s = Stream(m, types, torn={a: q}, trailers=trs)
            pre = s.pre + s.ok + [UGE(q, bv(1))]
            groups = [[i] for i in range(m) if i != a]
            exp = [('rec', g) for g in groups] + [('eof',)]
            recs = [([i], 'torn' if i == a else 'complete') for i in range(m)]
            try:
                ex, fin = run_reader(mir, s, pre, len(groups) + 1, on_path=_checker(res, lambda exp=exp: [(BoolVal(True), exp)],
                                     'torn final write followed by appended records: ', lambda mdl, s=s, recs=recs: _argv_scenario(mdl, s, types, recs)))
            except Inconclusive as e:
                if 'vacuous' in str(e): continue
                raise
            res.absorb(ex); res.cases['a=%d b=%d' % (a, b)] = res.cases.get('a=%d b=%d' % (a, b), 0) + len(fin)
    res.wall_s = time.time() - t0
    if res.violations: res.status = 'violation'
    return res


# ---------------------------------------------------------------- O12.8 LogWriter::emit_block under failing writes
def o12_8_emit_block(mir, tier):
    """LogWriter::emit_block with the file by contract: every write_all / flush is recorded and free to fail.  Reference: one
    fragment = ONE write call carrying header and payload together (a failure between two calls would leave a header without
    its payload at the tail; a later writer appends behind it and the reader takes those records for the missing payload);
    the writer's block offset advances by 7 + len exactly when write and flush succeeded, and is unchanged when the call fails (so
    that after a write that failed without writing the fragments still line up with the 32 KiB blocks); the result is Ok iff
    both succeeded."""
    fn = mir.method('LogWriter', 'emit_block')
    res = Result('O12.8 LogWriter::emit_block under failing writes', [fn.path, 'BlockRecord::new (inlined)'], 'fragment type free, payload length 0..65535, block offset free (< 32768); write_all and flush free to fail')
    t0 = time.time()
    S = log_summaries(mir); P = S['$patterns']
    off0, n = BitVec('block_offset', 64), BitVec('payload_len', 64)
    wok, fok = Bool('write_ok'), Bool('flush_ok')
    def write_all(se, env, pc, f, data):
        st = dict(env['$state']); d = se.deref(env, data) if isinstance(data, Ref) else data
        i = len(st['writes']); st['writes'] = st['writes'] + [d]
        ok = wok if i == 0 else Bool('write%d_ok' % i)
        return [(ok, Enum('Ok', ((),)), st), (Not(ok), Enum('Err', ({'kind': 'io', '__ty': 'io::Error'},)), st)]
    P[r'<Box<dyn RandomAccessFile> as std::io::Write>::write_all'] = write_all
    def flush(se, env, pc, f):
        st = dict(env['$state']); st['flushes'] = st['flushes'] + 1
        return [(fok, Enum('Ok', ((),)), st), (Not(fok), Enum('Err', ({'kind': 'io', '__ty': 'io::Error'},)), st)]
    P[r'<Box<dyn RandomAccessFile> as std::io::Write>::flush'] = flush
    recf = mir.struct_fields('BlockRecord')
    def ser(se, env, pc, r):
        rec = se.deref(env, r)
        return lib.one(env, {'kind': 'frag', 'len': bv(HDR) + rec[recf.index('data')]['len'], 'hdr_len': rec[recf.index('length')], 'type': rec[recf.index('block_type')], 'data': rec[recf.index('data')], 'off': bv(0)})
    S['<Vec<u8> as From<&BlockRecord>>::from'] = ser
    P[r'Vec::as_slice'] = lib.ident; P[r'<Vec<u8> as Deref>::deref'] = lib.ident
    P[r'<LogIOError as From<.*>>::from'] = lambda se, env, pc, e: lib.one(env, Enum('IO', (e,), 'LogIOError'))
    wf = mir.struct_fields('LogWriter')
    for t in ('Full', 'First', 'Middle', 'Last'):
        ex = Exec(mir, S, loop_bound=4)
        w = mir.mk_struct('LogWriter', log_file_path={'path': 'log'}, log_file='file', current_block_offset=off0)
        def k(ret, env, pc, ex=ex, t=t):
            st = env['$state']; ws = st['writes']
            ok = isinstance(ret, Enum) and ret.tag == 'Ok'
            wv = ex.deref(env, Ref('$w'))
            whole = len(ws) >= 1 and isinstance(ws[0], dict) and ws[0].get('kind') == 'frag'
            posts = [('a log fragment is not handed to the file in one write call carrying header and payload (a failure between the calls leaves a header without payload at the tail of the log)',
                      And(BoolVal(len(ws) == 1 and whole), (ws[0]['len'] == bv(HDR) + n) if whole and 'len' in ws[0] else BoolVal(False))),
                     ('emit_block reports success although the write or the flush failed (or fails although both succeeded)', (BoolVal(ok) == And(wok, fok)) if len(ws) == 1 else BoolVal(True)),
                     ('the writer\'s block offset does not advance by 7 + payload length exactly when the fragment was written (after a failed write the following fragments no longer line up with the blocks)',
                      wv[wf.index('current_block_offset')] == (off0 + bv(HDR) + n if ok else off0))]
            res.cases['%s -> %s, %d writes' % (t, 'Ok' if ok else 'Err', len(ws))] = 1
            for label, post, m in ex.check_posts(posts, pc):
                res.violations.append({'label': label, 'type': t, 'write_ok': bool(mval(m, wok)), 'flush_ok': bool(mval(m, fok)), 'replay': ['log_write_faults']})
        data = {'len': n, 'kind': 'payload', 'off': bv(0)}
        ex.top(fn, [Ref('$w'), Enum(t, (), 'BlockType'), data], {'$state': {'writes': [], 'flushes': 0}, '$w': w}, [ULE(n, bv(0xffff)), ULT(off0, bv(BLOCK))], k)
        res.absorb(ex)
        for pcx, msg, where in ex.panics:
            res.panic_paths += 1; res.violations.append({'label': 'panic path: ' + msg[:80], 'replay': None, 'confirmed_by': {'reproduced': False, 'detail': 'no native scenario'}})
    res.wall_s = time.time() - t0
    if res.violations: res.status = 'violation'
    return res


def o12_8_confirm(v, out):
    """Native: a log writer on a fault-injecting file; the k-th write call fails without writing (k = 1..8), the same writer (and,
    separately, a reopened writer) goes on appending records up to a block boundary; the reader must return every record whose
    append returned Ok, in order."""
    if out.get('_rc') != 0: return (True, 'native run failed / panicked: %s' % out.get('_stderr', '')[-300:])
    return (out.get('lost', '0') != '0', 'native: %s acknowledged log records are not read back (first: %s)' % (out.get('lost'), out.get('first_lost')))


# ---------------------------------------------------------------- O12.9 a reader opened before the last appends
def o12_9_reader_opened_early(mir, tier):
    """LogReader::new is executed while the file holds L0 bytes (free); by the time records are read the file holds a complete
    stream of 1..2 (3) fragments (the writer - the same or a reopened one - kept appending).  Reference: exactly the complete
    records of the file as it is NOW are returned, then end-of-file: how long the file was when the reader was created does not
    matter."""
    M = 2 if tier == 'quick' else 3
    res = Result('O12.9 LogReader created before the last appends', ['LogReader::new', 'LogReader::read_record', 'LogReader::read_physical_record (inlined)'],
                 'file length when the reader is created free (0..current length); current contents: every writer-producible stream of 1..%d fragments with symbolic payload lengths' % M)
    t0 = time.time()
    for m in range(1, M + 1):
        for types, groups, aband in type_patterns(m):
            if aband is not None: continue
            for trs in trailer_splits(types):
                s = Stream(m, types, trailers=trs)
                s.cut = s.end
                L0 = BitVec('length_when_reader_was_created', 64)
                pre = s.pre + s.ok + [ULE(L0, s.end)]
                exp = [('rec', g) for g in groups] + [('eof',)]
                recs = [(g, 'complete') for g in groups]
                ex, fin = run_reader(mir, s, pre, len(groups) + 1, via_new=L0, on_path=_checker(res, lambda exp=exp: [(BoolVal(True), exp)],
                                     'reader created before the last appends: ', lambda mdl, s=s, recs=recs, L0=L0: ['log_reader_opened_early', str(mval(mdl, L0))] + _argv_scenario(mdl, s, types, recs)[1:]))
                res.absorb(ex); res.cases['m=%d' % m] = res.cases.get('m=%d' % m, 0) + len(fin)
    res.wall_s = time.time() - t0
    if res.violations: res.status = 'violation'
    return res


def o12_9_confirm(v, out):
    """Native (disk-backed temporary file system: one cursor per handle): records are appended, a reader is opened, more records are
    appended by the same / a reopened writer, then the reader reads to the end."""
    if out.get('_rc') != 0: return (True, 'native run failed / panicked: %s' % out.get('_stderr', '')[-300:])
    return (out.get('returned') != out.get('expected'), 'native: reader opened after %s of %s appends returned records %s, expected %s' % (out.get('opened_after'), out.get('appends'), out.get('returned'), out.get('expected')))
