"""Log format obligations over abstract byte streams: O12.1 (writer geometry), O12.3 / O2.1 / O16.x / O15 (reader reassembly)."""
import itertools, time
from z3 import BitVec, BitVecVal, Bool, BoolVal, And, Or, Not, Implies, ULT, ULE, UGT, UGE, If, URem, Extract, ZeroExt, simplify, is_true
from ..exec import Exec, Enum, Ref, Opaque, Inconclusive, bv
from ..ob import Result, mval
from .. import lib

BLOCK, HDR = 32768, 7
TYPES = {'Full': 0, 'First': 1, 'Middle': 2, 'Last': 3}


def log_summaries(mir):
    S = lib.std_summaries()
    P = S['$patterns']
    P[r'<u16 as TryFrom<usize>>::try_from'] = lambda se, env, pc, n: [(ULE(n, bv(0xffff)), Enum('Ok', (Extract(15, 0, n),)), env.get('$state')),
                                                                     (UGT(n, bv(0xffff)), Enum('Err', (Opaque('TryFromIntError'),)), env.get('$state'))]
    P[r'crc::crc32::<impl Crc<u32>>::checksum'] = lambda se, env, pc, c, d: lib.one(env, Opaque('crc'))
    P[r'<Result<.*> as FromResidual<Result<Infallible, .*>>>::from_residual'] = lambda se, env, pc, r: lib.one(env, r)
    return S


def o12_1_writer(mir, tier):
    fn = mir.method('LogWriter', 'append')
    blocks = 3 if tier == 'quick' else 4
    res = Result('O12.1 LogWriter::append geometry', [fn.path, 'LogWriter::emit_block (inlined)', 'BlockRecord::new (inlined)'],
                 'every start offset 0..=32768 in the block and every record length 0..=%d (both symbolic); file writes by contract (recorded as events)' % (blocks * BLOCK))
    t0 = time.time()
    P0, N = BitVec('start_offset', 64), BitVec('record_len', 64)
    S = log_summaries(mir)
    def write_all(se, env, pc, f, data):
        st = dict(env['$state']); d = se.deref(env, data) if isinstance(data, Ref) else data
        st['events'] = st['events'] + [d]; return [(None, Enum('Ok', ((),)), st)]
    S['$patterns'][r'<Box<dyn RandomAccessFile> as std::io::Write>::write_all'] = write_all
    S['$patterns'][r'<Box<dyn RandomAccessFile> as std::io::Write>::flush'] = lambda se, env, pc, f: lib.one(env, Enum('Ok', ((),)))
    recf = mir.struct_fields('BlockRecord')
    def ser(se, env, pc, r):
        rec = se.deref(env, r)
        return lib.one(env, {'kind': 'frag', 'len': bv(HDR) + rec[recf.index('data')]['len'], 'hdr_len': rec[recf.index('length')], 'type': rec[recf.index('block_type')], 'data': rec[recf.index('data')]})
    S['<Vec<u8> as From<&BlockRecord>>::from'] = ser
    ex = Exec(mir, S, loop_bound=blocks + 3)
    pre = [ULE(P0, bv(BLOCK)), ULE(N, bv(blocks * BLOCK))]
    wf = mir.struct_fields('LogWriter')
    def k(ret, env, pc):
        evs = env['$state']['events']
        writer = env['$w']
        posts = [('append reports an error although every file write succeeded', BoolVal(isinstance(ret, Enum) and ret.tag == 'Ok'))]
        avail0 = bv(BLOCK) - P0
        frags = [e for e in evs if e.get('kind') == 'frag']
        zeros = [e for e in evs if e.get('kind') == 'zeros']
        need_trailer = And(ULT(avail0, bv(HDR)), UGT(avail0, bv(0)))
        posts.append(('zero trailer is written iff fewer than 7 (and more than 0) bytes remain in the block', need_trailer == BoolVal(len(zeros) == 1 and evs[0].get('kind') == 'zeros') if len(zeros) <= 1 else BoolVal(False)))
        if zeros: posts.append(('trailer length is not the remainder of the block', zeros[0]['len'] == avail0))
        posts.append(('no fragment written', BoolVal(len(frags) >= 1)))
        pos = If(ULT(avail0, bv(HDR)), bv(0), P0)
        off = bv(0)
        for i, f in enumerate(frags):
            last = i == len(frags) - 1
            L = f['data']['len']
            want_t = 'Full' if len(frags) == 1 else ('First' if i == 0 else ('Last' if last else 'Middle'))
            t = f['type']
            posts.append(('fragment type sequence is not Full | First Middle* Last', BoolVal(isinstance(t, Enum) and t.tag == want_t)))
            posts.append(('header length field differs from the payload length', ZeroExt(48, f['hdr_len']) == L))
            posts.append(('fragment payloads are not contiguous slices of the record', f['data']['off'] == off))
            posts.append(('a fragment crosses the end of its block', ULE(pos + bv(HDR) + L, bv(BLOCK))))
            if not last: posts.append(('a non-final fragment does not fill its block', pos + bv(HDR) + L == bv(BLOCK)))
            off = off + L
            endpos = pos + bv(HDR) + L
            pos = If(ULT(bv(BLOCK) - endpos, bv(HDR)), bv(0), endpos) if not last else endpos
        posts.append(('fragment payloads do not add up to the record', off == N))
        posts.append(('current_block_offset after the append is not the end of the last fragment', writer[wf.index('current_block_offset')] == pos))
        shape = '%s%d' % ('T+' if zeros else '', len(frags))
        res.cases[shape] = res.cases.get(shape, 0) + 1
        for label, post in posts:
            ex.record_formula(label, pc, Not(post))
            m = ex.model(Not(post))
            if m is not None:
                res.violations.append({'label': label, 'start_offset': mval(m, P0), 'record_len': mval(m, N), 'replay': ['log_write', str(mval(m, P0) % BLOCK), str(mval(m, N))]})
        if len(res.witnesses) < 5 and res.cases[shape] == 1:
            m = ex.model(ULT(P0, bv(BLOCK)))
            if m is not None:
                fr = ','.join('%s:%d' % (TYPES.get(f['type'].tag, '?') if isinstance(f['type'], Enum) else '?', mval(m, f['data']['len'])) for f in frags)
                res.witnesses.append({'executor_result': fr, 'trailer': mval(m, zeros[0]['len']) if zeros else 0, 'replay': ['log_write', str(mval(m, P0)), str(mval(m, N))]})
    writer = mir.mk_struct('LogWriter', log_file_path='path', log_file='file', current_block_offset=P0)
    env = {'$state': {'events': []}, '$w': writer}
    ex.top(fn, [Ref('$w'), {'len': N, 'off': bv(0), 'kind': 'data'}], env, pre, k)
    res.absorb(ex)
    for pc, msg, where in ex.panics:
        res.panic_paths += 1
        m = None
        ex.solver.push(); ex.solver.add(*pre); ex.solver.add(*[c for c in pc if not isinstance(c, bool)])
        if str(ex.solver.check()) == 'sat': m = ex.solver.model()
        ex.solver.pop()
        res.violations.append({'label': 'panic path: ' + msg[:80], 'replay': ['log_write', str(mval(m, P0) % BLOCK), str(mval(m, N))] if m is not None else None})
    res.wall_s = time.time() - t0
    if res.violations: res.status = 'violation'
    return res


def ref_fragments(p, n):
    """Reference fragmentation of an n-byte record appended at in-block offset p: (trailer length, [(type, len)])."""
    trailer = 0
    if BLOCK - p < HDR:
        trailer = BLOCK - p; p = 0
    out, first, left = [], True, n
    while True:
        if BLOCK - p < HDR: p = 0
        space = BLOCK - p - HDR
        chunk = min(left, space); left -= chunk
        lastc = left == 0
        t = 'Full' if first and lastc else ('First' if first else ('Last' if lastc else 'Middle'))
        out.append((t, chunk)); p += HDR + chunk; first = False
        if lastc: break
    return trailer, out


def o12_1_confirm(v, out):
    if out.get('_rc') != 0: return (True, 'native append failed or panicked: %s' % out.get('_stderr', '')[-300:]) if 'panic' in v['label'] else (False, 'native run failed: %s' % out.get('_stderr', '')[-300:])
    p, n = int(v['replay'][1]), int(v['replay'][2])
    trailer, frs = ref_fragments(p, n)
    exp = ','.join('%s:%d' % (TYPES[t], l) for t, l in frs)
    bad = out.get('fragments') != exp or int(out.get('trailer', '0')) != trailer or out.get('parse_ok') != 'true'
    return (bad, 'native trailer=%s fragments=%s parse_ok=%s; reference trailer=%d fragments=%s' % (out.get('trailer'), out.get('fragments'), out.get('parse_ok'), trailer, exp))


def o12_1_witness_ok(w, out):
    if out.get('_rc') != 0: return False
    return out.get('fragments') == w['executor_result'] and int(out.get('trailer', '0')) == w['trailer']
