"""O7.5 CompactionManifest::finalize_compaction_inputs: the final input sets of a compaction."""
import time
from z3 import BitVec, Bool, BoolVal, And, Or, Not, Implies, ULT, ULE, UGT, UGE, If, simplify
from ..exec import Exec, Enum, Ref, Opaque, Inconclusive, bv
from ..ob import Result, World, mval, klt, kle, key_bytes
from .. import lib
from .version import base_summaries, mk_version, sorted_disjoint, _levels_argv, _parse_levels, _kcmp_key


def _hull_summary(mir, flat):
    """get_key_range_for_files / get_key_range_for_multiple_levels by contract - what O7.1 establishes for the real functions: the start is
    the smallest of the smallest keys; the end is ONE OF the files' largest keys and carries the largest user key (which of several
    bounds with that user key is left open: a fresh symbolic key)."""
    ff = mir.struct_fields('FileMetadata'); kf = mir.struct_fields('InternalKey')
    iu, iq, io = kf.index('user_key'), kf.index('sequence_number'), kf.index('operation')
    counter = [0]
    def pick(c, a, b):
        out = dict(a)
        for i in (iu, iq, io): out[i] = If(c, a[i], b[i])
        return out
    def lt(a, b): return klt((a[iu], a[iq], a[io]), (b[iu], b[iq], b[io]))
    def f(se, env, pc, arg):
        v = se.deref(env, arg) if isinstance(arg, Ref) else arg
        files = []
        if flat: files = [se.deref(env, x) if isinstance(x, Ref) else x for x in v]
        else:
            for lst in v:
                lst = se.deref(env, lst) if isinstance(lst, Ref) else lst
                files += [se.deref(env, x) if isinstance(x, Ref) else x for x in lst]
        if not files: raise Inconclusive('key range of no files')
        sm = [x[ff.index('smallest_key')].fields[0] for x in files]; lg = [x[ff.index('largest_key')].fields[0] for x in files]
        lo = sm[0]
        for k in sm[1:]: lo = pick(lt(k, lo), k, lo)
        counter[0] += 1; n = counter[0]
        hi = dict(lg[0]); hi[iu] = BitVec('range_end%d_u' % n, 16); hi[iq] = BitVec('range_end%d_s' % n, 64); hi[io] = BitVec('range_end%d_o' % n, 64)
        cond = And(Or(*[And(hi[iu] == k[iu], hi[iq] == k[iq], hi[io] == k[io]) for k in lg]), *[UGE(hi[iu], k[iu]) for k in lg])
        return [(cond, {0: lo, 1: hi, '__ty': 'Range'}, env.get('$state'))]
    return f


def o7_5_finalize_inputs(mir, tier):
    """Compaction of level 1 starting from one file; level 1 holds 3 files, level 2 (parent) 3 files, level 3 (grandparent) 1 file,
    all with free ranges and sizes.  Reference for the final inputs I0 (level 1) and I1 (level 2):
    I0 contains the starting file and is boundary-closed in level 1; I1 contains every level-2 file whose user-key range meets the
    user-key hull of I0, and is boundary-closed in level 2; the grandparents are the level-3 files meeting the hull of I0 u I1."""
    fn = mir.method('CompactionManifest', 'finalize_compaction_inputs')
    res = Result('O7.5 CompactionManifest::finalize_compaction_inputs', [fn.path, 'CompactionManifest::add_boundary_inputs (inlined)', 'Version::get_overlapping_compaction_inputs_strong (inlined)'],
                 'level 1: %d files, level 2: 3 files, level 3: 1 file (free ranges, sizes); start file = each level-1 file; key-range hull by contract (O7.1); size limit free' % (2 if tier == 'quick' else 3))
    t0 = time.time()
    numf = mir.field('FileMetadata', 'file_number')
    NA = 2 if tier == 'quick' else 3
    starts = tuple(range(NA))
    for start in starts:
        w = World(mir)
        lv = {1: [w.file('a%d' % i, number=10 + i) for i in range(NA)], 2: [w.file('b%d' % i, number=20 + i) for i in range(3)], 3: [w.file('c0', number=30)]}
        LF = {l: [w.F(f) for f in fs] for l, fs in lv.items()}
        pre = list(w.pre) + sorted_disjoint(LF[1]) + sorted_disjoint(LF[2]) + sorted_disjoint(LF[3]) + [ULT(f['size'], bv(1 << 40)) for l in LF for f in LF[l]]
        S = base_summaries(mir); P = S['$patterns']
        if tier == 'quick':          # thorough: both functions are executed from their own MIR (350 s); quick: by the contract O7.1 establishes
            P[r'FileMetadata::get_key_range_for_files'] = _hull_summary(mir, True)
            P[r'FileMetadata::get_key_range_for_multiple_levels'] = _hull_summary(mir, False)
        P[r'parking_lot::lock_api::RwLock::(?:read|write)'] = lib.ident
        P[r'CompactionManifest::expanded_compaction_byte_size_limit'] = lambda se, env, pc, c: lib.one(env, BitVec('expanded_limit', 64))
        P[r'VersionChangeManifest::add_compaction_pointer'] = lib.unit
        P[r'<InternalKey as Clone>::clone'] = lib.clone_deep
        def extend(se, env, pc, a, b):
            lb = b if isinstance(b, list) else lib.the_list(se, env, b)
            se.store(env, a, lib.the_list(se, env, a) + list(lb)); return lib.one(env, ())
        P[r'<Vec<.*> as Extend<.*>>::extend'] = extend
        P[r'FileMetadata::get_file_size'] = lambda se, env, pc, f: lib.one(env, (se.deref(env, f) if isinstance(f, Ref) else f)[mir.field('FileMetadata', 'file_size')])
        ex = Exec(mir, S, loop_bound=16, max_paths=20000)
        cmf = mir.struct_fields('CompactionManifest')
        def k(ret, env, pc, LF=LF, start=start, ex=ex):
            cm = ex.deref(env, Ref('$cm'))
            I = [[simplify(f[numf]).as_long() for f in cm[cmf.index('input_files')][i]] for i in (0, 1)]
            gp = [simplify(f[numf]).as_long() for f in cm[cmf.index('overlapping_grandparents')]]
            A = {f['num'].as_long(): f for f in LF[1]}; Bf = {f['num'].as_long(): f for f in LF[2]}; C = {f['num'].as_long(): f for f in LF[3]}
            stray = [x for x in I[0] if x not in A] + [x for x in I[1] if x not in Bf]
            if stray:
                res.cases['start=%d stray files %s' % (start, stray)] = 1
                ex.record_formula('the compaction inputs of a level contain a file of another level', pc, BoolVal(True))
                m = ex.model()
                res.violations.append({'label': 'the compaction inputs of a level contain a file of another level', 'start': start, 'executor_result': I, 'replay': ['finalize_inputs', '1', str(1 << 30), str(start)] + _levels_argv(m, LF)})
                return
            posts = [('the file the compaction started from is not among its inputs', BoolVal(10 + start in I[0])),
                     ('an input file is listed twice', BoolVal(len(set(I[0])) == len(I[0]) and len(set(I[1])) == len(I[1])))]
            def closed(level_files, got, what):
                out = []
                for j, fj in level_files.items():
                    if j in got or not got: continue
                    # the inputs of a level are a contiguous run: no remaining file may continue the last user key of ANY input
                    split = Or(*[And(level_files[i]['lg'][0] == fj['sm'][0], klt(level_files[i]['lg'], fj['sm'])) for i in got])
                    out.append(('a user key is split between the %s inputs and a remaining file of that level (an older version of the key stays behind)' % what, Not(split)))
                return out
            posts += closed(A, I[0], 'compaction-level')
            posts += closed(Bf, I[1], 'parent-level')
            if I[0]:
                lo = A[I[0][0]]['sm'][0]; hi = A[I[0][0]]['lg'][0]
                for i in I[0][1:]:
                    lo = If(ULT(A[i]['sm'][0], lo), A[i]['sm'][0], lo); hi = If(UGT(A[i]['lg'][0], hi), A[i]['lg'][0], hi)
                for j, fj in Bf.items():
                    if j in I[1]: continue
                    posts.append(('a parent-level file overlapping the compaction inputs is not an input (its older entries would end up above newer ones)', Not(And(ULE(fj['sm'][0], hi), UGE(fj['lg'][0], lo)))))
                lo2, hi2 = lo, hi
                for j in I[1]:
                    lo2 = If(ULT(Bf[j]['sm'][0], lo2), Bf[j]['sm'][0], lo2); hi2 = If(UGT(Bf[j]['lg'][0], hi2), Bf[j]['lg'][0], hi2)
                for j, fj in C.items():
                    ov = And(ULE(fj['sm'][0], hi2), UGE(fj['lg'][0], lo2))
                    posts.append(('the grandparent files are not the level+2 files overlapping the compaction', ov == BoolVal(j in gp)))
            res.cases['start=%d I0=%s I1=%s' % (start, I[0], I[1])] = 1
            def argv(m): return ['finalize_inputs', '1', str(1 << 30), str(start)] + _levels_argv(m, LF)
            hint = [ULE(f['size'], bv(1000)) for l in LF for f in LF[l]] + [ULT(f[k][1], bv(1 << 40)) for l in LF for f in LF[l] for k in ('sm', 'lg')]
            for label, post, m in ex.check_posts(posts, pc):
                m = ex.model(Not(post), *hint) or m
                res.violations.append({'label': label, 'start': start, 'executor_result': I, 'replay': argv(m)})
        cm = mir.mk_struct('CompactionManifest', level=bv(1), max_output_file_size_bytes=BitVec('max_out', 64),
                           maybe_input_version=Enum('Some', (Ref('$node'),)), input_files=[[lv[1][start]], []], overlapping_grandparents=[],
                           change_manifest={'abstract': True, '__ty': 'VersionChangeManifest'}, base_level_pointers=[bv(0)] * 7, grandparent_index=bv(0), current_overlapping_bytes=bv(0), is_overlappping=BoolVal(False))
        env = {'$state': {}, '$cm': cm, '$node': mir.mk_struct('Node', element=mk_version(mir, lv))}
        try:
            ex.top(fn, [Ref('$cm')], env, pre, k)
        except Inconclusive as e:
            res.status = 'inconclusive'; res.reason = str(e)[:300]
        res.absorb(ex)
        for pc, msg, where in ex.panics:
            res.panic_paths += 1; res.violations.append({'label': 'panic path: ' + msg[:80], 'start': start, 'replay': None, 'confirmed_by': {'reproduced': False, 'detail': 'no native scenario'}})
    res.wall_s = time.time() - t0
    if res.violations: res.status = 'violation'
    return res


def o7_5_confirm(v, out):
    """Native: the real finalize_compaction_inputs on the model's files; the result is compared with the reference closure
    computed from the concrete files."""
    if out.get('_rc') != 0: return (False, 'native run failed: %s' % out.get('_stderr', '')[-300:])
    a = v['replay']; lv = _parse_levels(a[4:]); start = int(a[3])
    I0 = [int(x) for x in out.get('inputs0', '').split(',') if x]; I1 = [int(x) for x in out.get('inputs1', '').split(',') if x]
    A = {f['num']: f for f in lv.get(1, [])}; B = {f['num']: f for f in lv.get(2, [])}
    def kl(a, b): return a[0] < b[0] or (a[0] == b[0] and a[1] > b[1])
    def split(files, got):
        if not got: return None
        top = max((files[i] for i in got), key=lambda f: _kcmp_key(f['lg']))
        for j, f in files.items():
            if j not in got and f['sm'][0] == top['lg'][0] and kl(top['lg'], f['sm']): return j
        return None
    problems = []
    if [x for x in I0 if x not in A] or [x for x in I1 if x not in B]: problems.append('inputs contain files of another level')
    I0 = [x for x in I0 if x in A]; I1 = [x for x in I1 if x in B]
    if lv[1][start]['num'] not in I0: problems.append('start file missing')
    s0, s1 = split(A, I0), split(B, I1)
    if s0 is not None: problems.append('level-1 file %d continues the last user key of the inputs' % s0)
    if s1 is not None: problems.append('level-2 file %d continues the last user key of the parent inputs' % s1)
    if I0:
        lo = min(A[i]['sm'][0] for i in I0); hi = max(A[i]['lg'][0] for i in I0)
        for j, f in B.items():
            if j not in I1 and f['sm'][0] <= hi and f['lg'][0] >= lo: problems.append('level-2 file %d overlaps the inputs but is not an input' % j)
    return (bool(problems), 'native inputs %s + %s: %s' % (I0, I1, '; '.join(problems) or 'closed'))
