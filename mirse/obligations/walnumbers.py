"""O2.10 which write-ahead-log number a version edit records, and how file numbers are marked used.

The manifest's WAL number tells recovery which logs may be ignored (everything older) and tells obsolete-file removal which logs may
be deleted.  Only a memtable flush may advance it - to the log that was current when the flushed memtable was rotated out."""
import time
from z3 import BitVec, BitVecVal, Bool, BoolVal, And, Or, Not, ULT, ULE, UGT, UGE, If
from ..exec import Exec, Enum, Ref, Opaque, Inconclusive, bv
from ..ob import Result, mval
from .. import lib

GUARD = r'<parking_lot::lock_api::MutexGuard<.*> as Deref(?:Mut)?>::deref(?:_mut)?'


def o2_10_wal_numbers(mir, tier):
    res = Result('O2.10 WAL numbers in version edits; file numbers marked used', [], 'see cases')
    t0 = time.time()
    vcf = mir.struct_fields('VersionChangeManifest'); gf = mir.struct_fields('GuardedDbFields')
    def opt(x): return x
    # ---------------- (a) compact_memtable
    fn = mir.method('CompactionWorker', 'compact_memtable'); res.functions.append(fn.path)
    S = lib.std_summaries(); P = S['$patterns']; P[GUARD] = lib.ptr_deref
    cur = BitVec('guarded_curr_wal_file_number', 64)
    def upd(env, **kw):
        s = dict(env['$state']); s.update(kw); env['$state'] = s; return s
    P[r'<VersionChangeManifest as Default>::default'] = lambda se, env, pc: lib.one(env, mir.mk_struct('VersionChangeManifest', wal_file_number=Enum('None'), prev_wal_file_number=Enum('Some', (bv(77),)), curr_file_number=Enum('None'), prev_sequence_number=Enum('None')))
    P[r'VersionSet::get_current_version'] = lambda se, env, pc, vs: lib.one(env, {'abstract': True, '__ty': 'SharedNode'})
    P[r'VersionSet::release_version'] = lib.unit
    P[r'DB::convert_memtable_to_file'] = lambda se, env, pc, *a: lib.one(env, Enum('Ok', ((),)))
    P[r'(?:Atomic|AtomicBool)::load'] = lambda se, env, pc, *a: lib.one(env, BoolVal(False))
    P[r'(?:Atomic|AtomicBool)::store'] = lib.unit
    P[r'<Option<Arc<Box<dyn MemTable>>> as Clone>::clone'] = lambda se, env, pc, o: lib.one(env, se.deref(env, o))
    def laa(se, env, pc, g, m):
        s = upd(env, edit=dict(se.deref(env, m))); return [(None, Enum('Ok', ((),)), s)]
    P[r'VersionSet::log_and_apply'] = laa
    P[r'DB::remove_obsolete_files'] = lib.unit; P[r'DB::set_bad_database_state'] = lib.unit
    ex = Exec(mir, S, loop_bound=4, opaque_calls_ok=True)
    def k_a(ret, env, pc):
        e = env['$state'].get('edit')
        posts = [('a memtable flush does not log its edit', BoolVal(e is not None))]
        if e is not None:
            wn, pw = e[vcf.index('wal_file_number')], e[vcf.index('prev_wal_file_number')]
            posts.append(('the edit of a memtable flush does not name the log that is current for the new memtable (older logs could not be released / a needed log would be released)',
                          wn.fields[0] == cur if isinstance(wn, Enum) and wn.tag == 'Some' else BoolVal(False)))
            posts.append(('the edit of a memtable flush keeps a previous-log number', BoolVal(isinstance(pw, Enum) and pw.tag == 'None')))
        res.cases['compact_memtable'] = 1
        for label, post, m in ex.check_posts(posts, pc):
            res.violations.append({'label': label, 'replay': None, 'confirmed_by': {'reproduced': False, 'detail': 'no native scenario for this label'}})
    g = mir.mk_struct('GuardedDbFields', curr_wal_file_number=cur, maybe_immutable_memtable=Enum('Some', ({'abstract': True, '__ty': 'MemTable'},)), version_set={'abstract': True, '__ty': 'VersionSet'})
    dbs = mir.mk_struct('PortableDatabaseState', options={'abstract': True, '__ty': 'DbOptions'}, is_shutting_down='flag', has_immutable_memtable='flag2', file_name_handler='fnh', table_cache='tc')
    ex.top(fn, [Ref('$dbs'), Ref('$guard')], {'$state': {}, '$g': g, '$guard': Ref('$g'), '$dbs': dbs}, [], k_a)
    ex.bound_hits = []; res.absorb(ex)
    # ---------------- (b) install_compaction_results
    fn = mir.method('CompactionWorker', 'install_compaction_results'); res.functions.append(fn.path)
    S = lib.std_summaries(); P = S['$patterns']; P[GUARD] = lib.ptr_deref
    apply_ok = Bool('log_and_apply_ok')
    P[r'CompactionState::compaction_manifest(?:_mut)?'] = lambda se, env, pc, s: lib.one(env, Ref('$cm'))
    P[r'CompactionManifest::get_change_manifest_mut'] = lambda se, env, pc, m: lib.one(env, Ref('$edit'))
    P[r'CompactionManifest::get_compaction_level_files'] = lambda se, env, pc, m: lib.one(env, []); P[r'CompactionManifest::get_parent_level_files'] = lambda se, env, pc, m: lib.one(env, [])
    P[r'CompactionManifest::level'] = lambda se, env, pc, m: lib.one(env, bv(1))
    def fin(se, env, pc, cs):
        s = upd(env, finalized=True); return [(None, (), s)]
    P[r'CompactionState::finalize_version_manifest'] = fin
    def laa2(se, env, pc, g, m):
        s = upd(env, edit=dict(se.deref(env, m)), finalized_before=env['$state'].get('finalized', False))
        return [(apply_ok, Enum('Ok', ((),)), s), (Not(apply_ok), Enum('Err', (Enum('ManifestWrite', (Opaque('e'),), 'WriteError'),)), s)]
    P[r'VersionSet::log_and_apply'] = laa2
    P[r'<CompactionWorkerError as From<.*>>::from'] = lambda se, env, pc, e: lib.one(env, Enum('VersionManifestError', (e,), 'CompactionWorkerError'))
    P[r'<Result<.*> as FromResidual<Result<Infallible, .*>>>::from_residual'] = lambda se, env, pc, r: lib.one(env, r)
    ex = Exec(mir, S, loop_bound=4, opaque_calls_ok=True)
    def k_b(ret, env, pc):
        s = env['$state']; e = s.get('edit'); ok = isinstance(ret, Enum) and ret.tag == 'Ok'
        posts = [('installing a compaction reports success although the manifest edit failed (or the reverse)', BoolVal(ok) == apply_ok),
                 ('the edit of a table compaction is logged before the inputs / outputs were entered into it', BoolVal(bool(s.get('finalized_before'))))]
        if e is not None:
            wn, pw = e[vcf.index('wal_file_number')], e[vcf.index('prev_wal_file_number')]
            posts.append(('the edit of a table compaction names a write-ahead log (only a memtable flush may advance the log number: a log that still backs an unflushed memtable would be released)',
                          BoolVal(isinstance(wn, Enum) and wn.tag == 'None' and isinstance(pw, Enum) and pw.tag == 'None')))
        res.cases['install_compaction_results ' + ('Ok' if ok else 'Err')] = 1
        for label, post, m in ex.check_posts(posts, pc):
            rep = 'names a write-ahead log' in label
            res.violations.append({'label': label, 'replay': ['compaction_wal_number'] if rep else None, 'confirmed_by': None if rep else {'reproduced': False, 'detail': 'no native scenario for this label'}})
    edit = mir.mk_struct('VersionChangeManifest', wal_file_number=Enum('None'), prev_wal_file_number=Enum('None'), curr_file_number=Enum('None'), prev_sequence_number=Enum('None'))
    g = mir.mk_struct('GuardedDbFields', curr_wal_file_number=BitVec('guarded_curr_wal_file_number', 64), version_set={'abstract': True, '__ty': 'VersionSet'})
    cs = mir.mk_struct('CompactionState', output_files=[], compaction_manifest={'abstract': True}, smallest_snapshot=bv(0), total_size_bytes=bv(0), table_builder=Enum('None'))
    ex.top(fn, [Ref('$guard'), Ref('$cs')], {'$state': {}, '$g': g, '$guard': Ref('$g'), '$cs': cs, '$cm': {'abstract': True, '__ty': 'CompactionManifest'}, '$edit': edit}, [], k_b)
    ex.bound_hits = []; res.absorb(ex)
    # ---------------- (c) mark_file_number_used / get_new_file_number
    mark = mir.method('VersionSet', 'mark_file_number_used'); new = mir.method('VersionSet', 'get_new_file_number'); res.functions += [mark.path, new.path]
    S = lib.std_summaries()
    ex = Exec(mir, S, loop_bound=3)
    c0, n = BitVec('file_counter', 64), BitVec('marked_number', 64)
    pre = [ULT(c0, bv(1 << 60)), ULT(n, bv(1 << 60))]
    vsf = mir.struct_fields('VersionSet')
    def after_mark(r, env, pc):
        def after_new(r2, env2, pc2):
            posts = [('after a file number was marked as used the next new file number is not larger than it (a live file - e.g. a recovered log - is created again and truncated)', UGT(r2, n)),
                     ('marking a file number as used lowers the counter (an earlier number is handed out twice)', UGT(r2, c0))]
            res.cases['mark_file_number_used'] = 1
            for label, post, m in ex.check_posts(posts, pc2):
                res.violations.append({'label': label, 'model': {'counter': mval(m, c0), 'marked': mval(m, n), 'next': mval(m, r2)}, 'replay': ['fresh_db_wal_rotation']})
        ex.run_fn(new, [Ref('$vs')], env, pc, after_new)
    ex.top(mark, [Ref('$vs'), n], {'$state': {}, '$vs': mir.mk_struct('VersionSet', curr_file_number=c0)}, pre, after_mark)
    res.absorb(ex)
    res.bounds = 'compact_memtable (table written, not shutting down), install_compaction_results (log_and_apply ok / failing), mark_file_number_used + get_new_file_number for every counter and number < 2^60'
    res.wall_s = time.time() - t0
    if res.violations: res.status = 'violation'
    return res


def o2_10_confirm(v, out):
    """Native: a fresh database (never flushed) is closed and reopened with log reuse; the memtable is filled until the log is
    rotated while the background thread is held; the directory is copied at that moment ('crash'); the copy is opened and every
    acknowledged key is read."""
    if out.get('_rc') != 0: return (False, 'native run failed: %s' % out.get('_stderr', '')[-300:])
    if v['replay'][0] == 'compaction_wal_number':
        return (out.get('manifest_wal_before') != out.get('manifest_wal_after'), 'memtable rotated but not flushed (logs %s, current log %s): installing a table compaction moved the WAL number of the version set from %s to %s' % (out.get('logs'), out.get('current_wal'), out.get('manifest_wal_before'), out.get('manifest_wal_after')))
    return (out.get('lost', '0') != '0', 'after a crash right after the log rotation of a reopened fresh database %s of %s acknowledged keys are unreadable (log numbers: %s)' % (out.get('lost'), out.get('written'), out.get('wals_at_crash')))
