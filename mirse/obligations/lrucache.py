"""O13.9 utils::cache::LRUCache (block cache and table cache of every database) executed for real on heap-cell nodes: it behaves as a
bounded map with least-recently-used eviction and handles that keep their value."""
import time, itertools
from z3 import BitVec, BoolVal, And, Or, Not
from ..exec import Exec, Inconclusive, Ref, Enum, Opaque
from ..ob import Result
from .. import lib
from .version import bv, mval
from .linkedlist import _pointer_summaries


def _partitions(n):
    """set partitions of range(n) as lists of class ids (restricted growth strings)"""
    def rec(prefix, mx):
        if len(prefix) == n: yield list(prefix); return
        for c in range(mx + 2):
            yield from rec(prefix + [c], max(mx, c))
    return list(rec([], -1))


def _map_summaries(P, se_holder):
    """HashMap<K, V> as an association list [(key, value)]; key equality is decided by the solver on the current path (the
    obligation fixes the equality pattern of its keys as a precondition, so every comparison is decided)."""
    def entries(se, env, r):
        v = se.deref(env, r) if isinstance(r, Ref) else r
        if not (isinstance(v, dict) and 'map' in v): raise Inconclusive('expected a map, got %r' % (v,))
        return v['map']
    def val(se, env, x):
        n = 0
        while isinstance(x, Ref) and not str(x.local).startswith('$node') and n < 8:
            x = se.deref(env, x); n += 1
        return x
    def keyval(se, env, x):
        n = 0
        while isinstance(x, Ref) and n < 10:
            x = se.deref(env, x); n += 1
        return x
    def same(se, a, b):
        if not se.check(a != b): return True
        if not se.check(a == b): return False
        raise Inconclusive('map key equality depends on the model (%s == %s)' % (a, b))
    def m_new(se, env, pc, *a): return lib.one(env, {'map': []})
    def m_get(se, env, pc, r, k):
        k = keyval(se, env, k); es = entries(se, env, r)
        b = lib.base_ref(se, env, r)
        for i, (ek, ev) in enumerate(es):
            if same(se, ek, k): return lib.one(env, Enum('Some', (Ref(b.local, b.path + ('map', i, 1)),)))
        return lib.one(env, Enum('None'))
    def m_insert(se, env, pc, r, k, v):
        k = keyval(se, env, k); v = val(se, env, v); es = list(entries(se, env, r))
        for i, (ek, ev) in enumerate(es):
            if same(se, ek, k):
                es[i] = (ek, v); se.store(env, r, {'map': es}); return lib.one(env, Enum('Some', (ev,)))
        se.store(env, r, {'map': es + [(k, v)]}); return lib.one(env, Enum('None'))
    def m_remove(se, env, pc, r, k):
        k = keyval(se, env, k); es = list(entries(se, env, r))
        for i, (ek, ev) in enumerate(es):
            if same(se, ek, k):
                se.store(env, r, {'map': es[:i] + es[i + 1:]}); return lib.one(env, Enum('Some', (ev,)))
        return lib.one(env, Enum('None'))
    P[r'HashMap::with_capacity'] = m_new; P[r'HashMap::new'] = m_new
    P[r'HashMap::get'] = m_get; P[r'HashMap::insert'] = m_insert; P[r'HashMap::remove'] = m_remove
    P[r'HashMap::len'] = lambda se, env, pc, r: lib.one(env, bv(len(entries(se, env, r))))
    P[r'HashMap::is_empty'] = lambda se, env, pc, r: lib.one(env, BoolVal(len(entries(se, env, r)) == 0))
    P[r'HashMap::contains_key'] = lambda se, env, pc, r, k: lib.one(env, BoolVal(any(same(se, ek, keyval(se, env, k)) for ek, _ in entries(se, env, r))))
    P[r'<K as Clone>::clone'] = lambda se, env, pc, x: lib.one(env, keyval(se, env, x))


def _sequences(maxlen, nkeys):
    ops = [(o, k) for o in ('insert', 'get', 'remove') for k in range(nkeys)]
    out = []
    for n in range(1, maxlen + 1):
        for seq in itertools.product(ops, repeat=n):
            used = [k for _, k in seq]
            # keys are introduced in order (k0 first, then k1, ...): symmetric sequences are covered by the equality patterns
            first = []
            for k in used:
                if k not in first: first.append(k)
            if first != list(range(len(first))): continue
            if seq[0][0] != 'insert': continue      # a sequence starting on the empty cache with get / remove is covered by shorter ones
            out.append(list(seq))
    return out


def o13_9_lru_cache(mir, tier):
    """Every sequence of <= 4 (thorough: 5) operations insert(k, v) / get(k) / remove(k) over up to 3 keys with every equality pattern
    of the keys, values free, capacity 2, on the real LRUCache (nodes are heap cells, the hash map an association list whose key
    comparisons the solver decides).  Reference: an ordered list of (key, value), most recently used first.  After every sequence:
    each get / insert observed the reference's answer (the value stored for *that* key, None when absent or evicted), len() agrees,
    a final get of every key agrees, and every handle handed out earlier still reads the value it was handed out with."""
    C = lambda n: mir.method('LRUCache', n)
    fns = {'new': C('new'), 'len': C('len')}
    for n in ('insert', 'get', 'remove'): fns[n] = mir.method('LRUCache', n, 'Cache')
    L = 4 if tier == 'quick' else 5
    CAP = 2
    NK = 3
    seqs = _sequences(L, NK)
    res = Result('O13.9 LRUCache vs an ordered map with LRU eviction', [f.path for f in fns.values()] + ['LinkedList::push_front / push_node_front / remove_node / pop (inlined)'],
                 '%d operation sequences of length <= %d over insert / get / remove with up to %d keys under every equality pattern, values free, capacity %d' % (len(seqs), L, NK, CAP))
    t0 = time.time()
    nf = mir.struct_fields('Node')
    keys = [BitVec('key%d' % i, 64) for i in range(NK)]
    for seq in seqs:
        nk = max(k for _, k in seq) + 1
        for part in _partitions(nk):
            pre = []
            for i in range(nk):
                for j in range(i + 1, nk):
                    pre.append(keys[i] == keys[j] if part[i] == part[j] else keys[i] != keys[j])
            S = lib.std_summaries(); P = S['$patterns']
            lib.combinator_summaries(P)
            _pointer_summaries(P)
            _map_summaries(P, None)
            ex = Exec(mir, S, loop_bound=L + 6)
            vals = [BitVec('value%d' % i, 64) for i in range(len(seq))]
            def node_value(ex, env, h):
                v = h; n = 0
                while isinstance(v, Ref) and n < 10:
                    v = ex.deref(env, v); n += 1
                if isinstance(v, Enum): return None
                e = v[nf.index('element')] if isinstance(v, dict) and nf.index('element') in v else None
                if isinstance(e, tuple): return e[1]
                if isinstance(e, dict): return e[1]
                return None
            def ref_get(ref, cls):
                for i, (c, v) in enumerate(ref):
                    if c == cls: return i
                return None
            def run(i, env, pc, ref, obs, handles, ex=ex, seq=seq, part=part, vals=vals):
                if i == len(seq): return final(0, env, pc, ref, obs, handles, ex, seq, part)
                op, k = seq[i]; cls = part[k]
                if op == 'insert':
                    pos = ref_get(ref, cls)
                    nref = [(cls, vals[i])] + [e for j, e in enumerate(ref) if j != pos]
                    nref = nref[:CAP]
                    def after(r, e2, p2):
                        return run(i + 1, e2, p2, nref, obs + [('insert', i, r, vals[i])], handles + [(r, vals[i])])
                    return ex.run_fn(fns['insert'], [Ref('$cache'), keys[k], vals[i]], env, pc, after)
                if op == 'get':
                    pos = ref_get(ref, cls)
                    want = ref[pos][1] if pos is not None else None
                    nref = ([ref[pos]] + [e for j, e in enumerate(ref) if j != pos]) if pos is not None else ref
                    e1 = dict(env); e1['$k%d' % i] = keys[k]
                    def after(r, e2, p2):
                        hs = handles + ([(r.fields[0], want)] if isinstance(r, Enum) and r.tag == 'Some' and want is not None else [])
                        return run(i + 1, e2, p2, nref, obs + [('get', i, r, want)], hs)
                    return ex.run_fn(fns['get'], [Ref('$cache'), Ref('$k%d' % i)], e1, pc, after)
                pos = ref_get(ref, cls)
                nref = [e for j, e in enumerate(ref) if j != pos]
                e1 = dict(env); e1['$k%d' % i] = keys[k]
                return ex.run_fn(fns['remove'], [Ref('$cache'), Ref('$k%d' % i)], e1, pc, lambda r, e2, p2: run(i + 1, e2, p2, nref, obs, handles))
            def final(j, env, pc, ref, obs, handles, ex, seq, part):
                # a final get of every key class (in key order), then len()
                classes = sorted(set(part))
                if j < len(classes):
                    cls = classes[j]; k = part.index(cls)
                    pos = ref_get(ref, cls); want = ref[pos][1] if pos is not None else None
                    nref = ([ref[pos]] + [e for jj, e in enumerate(ref) if jj != pos]) if pos is not None else ref
                    e1 = dict(env); e1['$fk%d' % j] = keys[k]
                    return ex.run_fn(fns['get'], [Ref('$cache'), Ref('$fk%d' % j)], e1, pc, lambda r, e2, p2: final(j + 1, e2, p2, nref, obs + [('final get', k, r, want)], handles, ex, seq, part))
                def with_len(ln, e3, p3):
                    posts = [('len() differs from the number of cached entries (more entries than the capacity stay cached, or an entry is lost)', ln == bv(len(ref)))]
                    for kind, i, r, want in obs:
                        if kind == 'insert':
                            got = node_value(ex, e3, r)
                            posts.append(('the handle returned by insert does not read the inserted value', BoolVal(False) if got is None else got == want))
                        else:
                            some = isinstance(r, Enum) and r.tag == 'Some'
                            if want is None:
                                posts.append(('get returns an entry for a key that is not cached (never inserted, removed, or evicted as least recently used)', BoolVal(not some)))
                            else:
                                got = node_value(ex, e3, r.fields[0]) if some else None
                                posts.append(('get does not return the value last inserted for this key (the entry of another key, a stale value, or nothing although the key is cached and was not the least recently used one)',
                                              BoolVal(False) if got is None else got == want))
                    for h, want in handles:
                        got = node_value(ex, e3, h)
                        posts.append(('a handle handed out earlier no longer reads the value it was handed out with', BoolVal(False) if got is None else got == want))
                    res.cases['%d ops' % len(seq)] = res.cases.get('%d ops' % len(seq), 0) + 1
                    for label, post, m in ex.check_posts(posts, p3):
                        kv = [mval(m, x) for x in keys[:max(kk for _, kk in seq) + 1]]
                        finals = ['get:%d:0' % kv[part.index(c)] for c in sorted(set(part))]
                        res.violations.append({'label': label, 'ops': [list(o) for o in seq], 'keys': kv,
                                               'replay': ['lru_cache', CAP] + ['%s:%d:%d' % (o, kv[kk], 100 + n) for n, (o, kk) in enumerate(seq)] + finals})
                ex.run_fn(fns['len'], [Ref('$cache')], env, pc, with_len)
            def created(c, env, pc):
                e = dict(env); e['$cache'] = c; run(0, e, pc, [], [], [])
            ex.top(fns['new'], [bv(CAP)], {'$state': {}}, pre, created)
            res.absorb(ex)
            for pcx, msg, where in ex.panics:
                ex.solver.push(); ex.solver.add(*pre); ex.solver.add(*[c for c in pcx if not isinstance(c, bool)]); feas = str(ex.solver.check()) == 'sat'
                m = ex.solver.model() if feas else None; ex.solver.pop()
                if feas:
                    kv = [mval(m, x) for x in keys[:nk]]
                    res.panic_paths += 1
                    res.violations.append({'label': 'panic path: ' + msg[:80], 'ops': [list(o) for o in seq], 'replay': ['lru_cache', CAP] + ['%s:%d:%d' % (o, kv[kk], 100 + n) for n, (o, kk) in enumerate(seq)]})
    res.wall_s = time.time() - t0
    if res.violations: res.status = 'violation'
    return res


def o13_9_confirm(v, out):
    """Native: the same operations on a real LRUCache<u64, u64>, compared inside the replay binary with an ordered list."""
    if out.get('_rc') != 0: return (True, 'native cache panicked: %s' % out.get('_stderr', '')[-200:])
    return (out.get('agree') != 'true', 'native: %s; reference: %s' % (out.get('observed'), out.get('expected')))
