"""O9.7 DB::force_level_compaction (the wait loop behind compact_range): the requester comes back (C09)."""
import time
from z3 import BitVec, Bool, BoolVal, And, Or, Not
from ..exec import Exec, Inconclusive, Ref, Enum, Opaque
from ..ob import Result
from .. import lib
from .version import bv, mval

LABEL_STUCK = 'the requester of a manual compaction never leaves its wait loop although the background thread finished or failed the request (compact_range hangs; that thread can never close the database)'


def o9_7_manual_compaction_wait(mir, tier):
    """Environment: another manual compaction may be installed at entry (free); the shutdown flag and a background error recorded at
    entry are free.  Whenever the requester waits on the condition variable the background thread acts before it wakes, as
    CompactionWorker::coordinate_compaction does: it takes the installed request and either completes it (done), compacts a part
    of the range (not done; at most twice), or fails (a background error is recorded, the request is not done) - and once an
    error is recorded it does nothing any more.  Reference: the call returns within 8 loop iterations; it returns only when its
    request is done, the database shuts down, or a background error is recorded; its own request is not left installed."""
    fn = mir.method('DB', 'force_level_compaction')
    res = Result('O9.7 DB::force_level_compaction leaves its wait loop', [fn.path],
                 'level 0..5; another request installed at entry or not, shutdown flag, background error at entry free; per wait the background thread completes / partially completes (<= 2 times) / fails the installed request (free choice)')
    t0 = time.time()
    gf = mir.struct_fields('GuardedDbFields'); mf = mir.struct_fields('ManualCompactionConfiguration')
    I_BAD, I_MAN = gf.index('maybe_bad_database_state'), gf.index('maybe_manual_compaction')
    for other_installed in (False, True):
        for bad_at_entry in (False, True):
            S = lib.std_summaries(); P = S['$patterns']
            lib.combinator_summaries(P)
            shutting = Bool('shutting_down')
            def st(env): return env['$state']
            def upd(env, **kw):
                s = dict(env['$state']); s.update(kw); env['$state'] = s; return s
            def arc_new(se, env, pc, v):
                if isinstance(v, dict) and v.get('__ty') == 'ManualCompactionConfiguration':
                    env['$req'] = v; return lib.one(env, Ref('$req'))
                return lib.one(env, v)
            P[r'(?:Arc|Rc|Box)::new'] = arc_new
            P[r'parking_lot::lock_api::Mutex::new'] = lib.ident
            def one_hop(se, env, pc, x, *rest):
                v = lib.get_at(env[x.local], x.path) if isinstance(x, Ref) else x
                n = 0
                while isinstance(v, Ref) and not str(v.local).startswith(('$req', '$other')) and n < 8:
                    v = lib.get_at(env[v.local], v.path); n += 1
                return lib.one(env, v)
            P[r'<(?:Arc|Rc|Box)<.*> as Clone>::clone'] = one_hop; P[r'Arc::clone'] = one_hop
            def lock(se, env, pc, m):
                b = lib.base_ref(se, env, m) if isinstance(m, Ref) else None
                if b is not None and str(b.local) in ('$req', '$other'): return lib.one(env, Ref(b.local))
                upd(env, db_locks=st(env)['db_locks'] + 1)
                return [(None, Ref('$g'), env['$state'])]
            P[r'parking_lot::lock_api::Mutex::lock'] = lock
            P[r'<parking_lot::lock_api::MutexGuard<.*> as Deref(?:Mut)?>::deref(?:_mut)?'] = lib.ptr_deref
            P[r'<Arc<parking_lot::lock_api::Mutex<.*>> as Deref>::deref'] = lib.ptr_deref
            P[r'<Arc<Atomic<bool>> as Deref>::deref'] = lib.ident
            P[r'Atomic::load'] = lambda se, env, pc, a, o: lib.one(env, shutting)
            P[r'DB::generate_portable_state'] = lambda se, env, pc, db: lib.one(env, {'abstract': True, '__ty': 'PortableDatabaseState'})
            def should(se, env, pc, dbs, g):
                # contract of DB::should_schedule_compaction: nothing is scheduled once an error is recorded or while shutting down
                bad = se.deref(env, Ref('$g'))[I_BAD]
                return lib.one(env, And(BoolVal(bad.tag == 'None'), Not(shutting)))
            P[r'DB::should_schedule_compaction'] = should
            def sched(se, env, pc, *a):
                s = upd(env, scheduled=st(env)['scheduled'] + 1); return [(None, (), s)]
            P[r'CompactionWorker::schedule_task'] = sched
            P[r'<Arc<CompactionWorker> as Deref>::deref'] = lib.ident; P[r'<Arc<parking_lot::Condvar> as Deref>::deref'] = lib.ident
            def wait(se, env, pc, cv, guard):
                s = st(env); i = s['waits']
                g = dict(se.deref(env, Ref('$g')))
                outs = []
                inst = g[I_MAN]
                if g[I_BAD].tag == 'Some' or inst.tag == 'None':
                    # the background thread has nothing it would do (error recorded: no work is taken up; nothing installed)
                    return [(None, (), upd(env, waits=i + 1, idle_waits=s['idle_waits'] + 1))]
                cell = inst.fields[0].local
                req = dict(env[cell])
                done_b, fail_b = Bool('wait%d_completes' % i), Bool('wait%d_fails' % i)
                g_taken = dict(g); g_taken[I_MAN] = Enum('None')
                # completes
                r1 = dict(req); r1[mf.index('done')] = BoolVal(True)
                outs.append((And(done_b, Not(fail_b)), (), dict(s, waits=i + 1), [(Ref('$g'), g_taken), (Ref(cell), r1)]))
                # fails: error recorded, request taken, not done
                g_bad = dict(g_taken); g_bad[I_BAD] = Enum('Some', (Enum('IO', ({'str': 'injected'},), 'RainDBError'),))
                outs.append((fail_b, (), dict(s, waits=i + 1), [(Ref('$g'), g_bad)]))
                # a part of the range is compacted (bounded number of times)
                if s['partials'] < 2:
                    outs.append((And(Not(done_b), Not(fail_b)), (), dict(s, waits=i + 1, partials=s['partials'] + 1), [(Ref('$g'), g_taken)]))
                return outs
            P[r'(?:parking_lot::)?Condvar::wait'] = wait
            ex = Exec(mir, S, loop_bound=9, opaque_calls_ok=True, max_paths=20000)
            level = BitVec('level', 64)
            from z3 import ULT
            pre = [ULT(level, bv(6))]
            def k(ret, env, pc, ex=ex):
                s = st(env); g = ex.deref(env, Ref('$g')); req = env.get('$req')
                if req is None: raise Inconclusive('no request object was created')
                done = req[mf.index('done')]
                inst = g[I_MAN]
                own_left = BoolVal(inst.tag == 'Some' and isinstance(inst.fields[0], Ref) and inst.fields[0].local == '$req')
                posts = [('force_level_compaction returns although its request is not done, the database is not shutting down and no background error is recorded',
                          Or(done if not isinstance(done, bool) else BoolVal(done), shutting, BoolVal(g[I_BAD].tag == 'Some'))),
                         ('the requester leaves its own request installed when it returns', Not(own_left))]
                res.cases['other=%s bad=%s waits=%d partials=%d' % (other_installed, bad_at_entry, s['waits'], s['partials'])] = 1
                for label, post, m in ex.check_posts(posts, pc):
                    res.violations.append({'label': label, 'case': {'other_installed': other_installed, 'bad_at_entry': bad_at_entry, 'waits': s['waits']}, 'replay': ['manual_compaction_fault']})
            other = mir.mk_struct('ManualCompactionConfiguration', level=bv(1), done=BoolVal(False), begin=Enum('None'), end=Enum('None'))
            g = mir.mk_struct('GuardedDbFields', maybe_bad_database_state=Enum('Some', (Enum('IO', ({'str': 'earlier'},), 'RainDBError'),)) if bad_at_entry else Enum('None'),
                              maybe_manual_compaction=Enum('Some', (Ref('$other'),)) if other_installed else Enum('None'), version_set={'abstract': True, '__ty': 'VersionSet'})
            db = mir.mk_struct('DB', guarded_fields=Ref('$g'), is_shutting_down='flag', compaction_worker='worker', background_work_finished_signal='cv', options={'abstract': True})
            env = {'$state': {'waits': 0, 'idle_waits': 0, 'partials': 0, 'scheduled': 0, 'db_locks': 0, 'installs_seen': 0}, '$db': db, '$g': g, '$other': other,
                   '$range': {0: Enum('None'), 1: Enum('None'), '__ty': 'Range'}}
            ex.top(fn, [Ref('$db'), level, Ref('$range')], env, pre, k)
            if ex.bound_hits:
                res.violations.append({'label': LABEL_STUCK, 'case': {'other_installed': other_installed, 'bad_at_entry': bad_at_entry}, 'where': str(ex.bound_hits[0])[:200], 'replay': ['manual_compaction_fault']})
                ex.record_formula(LABEL_STUCK, [], BoolVal(True))
                ex.bound_hits = []
            res.absorb(ex)
            for pcx, msg, where in ex.panics:
                ex.solver.push(); ex.solver.add(*pre); ex.solver.add(*[c for c in pcx if not isinstance(c, bool)]); feas = str(ex.solver.check()) == 'sat'; ex.solver.pop()
                if feas: res.panic_paths += 1; res.violations.append({'label': 'panic path: ' + msg[:80], 'replay': None, 'confirmed_by': {'reproduced': False, 'detail': 'no native scenario'}})
    res.wall_s = time.time() - t0
    if res.violations: res.status = 'violation'
    return res


def o9_7_confirm(v, out):
    """Native: three level-0 tables, table file writes start to fail, a manual compaction of level 0 is requested on another thread."""
    if out.get('_rc') != 0 and not out.get('_timeout'): return (False, 'native run failed: %s' % out.get('_stderr', '')[-300:])
    return (out.get('requester') == 'stuck' or bool(out.get('_timeout')), 'native: the manual compaction failed in the background (%s injected failures); requester=%s' % (out.get('injected_failures'), out.get('requester')))


def o9_8_should_schedule(mir, tier):
    """DB::should_schedule_compaction with every input free (already scheduled, shutting down, recorded error, immutable memtable,
    manual request, VersionSet::needs_compaction).  Reference: true iff nothing is scheduled yet, the database is neither shutting
    down nor in a failed state, and there is work (a memtable to flush, a manual request, or a version that needs compaction);
    the scheduled flag is set exactly when true is returned (and never cleared here): a requester that is told "not scheduled"
    although work exists waits for a background thread that was never woken."""
    fn = mir.method('DB', 'should_schedule_compaction')
    res = Result('O9.8 DB::should_schedule_compaction', [fn.path], 'all six inputs free')
    t0 = time.time()
    gf = mir.struct_fields('GuardedDbFields')
    shutting, needs = Bool('shutting_down'), Bool('version_needs_compaction')
    for sched in (False, True):
        for bad in (False, True):
            for imm in (False, True):
                for man in (False, True):
                    S = lib.std_summaries(); P = S['$patterns']
                    P[r'<parking_lot::lock_api::MutexGuard<.*> as Deref(?:Mut)?>::deref(?:_mut)?'] = lib.ptr_deref
                    P[r'<Arc<Atomic<bool>> as Deref>::deref'] = lib.ident
                    P[r'Atomic::load'] = lambda se, env, pc, a, o: lib.one(env, shutting)
                    P[r'VersionSet::needs_compaction'] = lambda se, env, pc, v: lib.one(env, needs)
                    ex = Exec(mir, S, loop_bound=3, opaque_calls_ok=True)
                    g = mir.mk_struct('GuardedDbFields', background_compaction_scheduled=BoolVal(sched), maybe_bad_database_state=Enum('Some', (Enum('IO', ({'str': 'e'},), 'RainDBError'),)) if bad else Enum('None'),
                                      maybe_immutable_memtable=Enum('Some', ({'abstract': True},)) if imm else Enum('None'), maybe_manual_compaction=Enum('Some', ({'abstract': True},)) if man else Enum('None'),
                                      version_set={'abstract': True, '__ty': 'VersionSet'})
                    def k(ret, env, pc, ex=ex, sched=sched, bad=bad, imm=imm, man=man):
                        gv = ex.deref(env, Ref('$g')); flag = gv[gf.index('background_compaction_scheduled')]
                        flag = flag if not isinstance(flag, bool) else BoolVal(flag)
                        want = And(BoolVal(not sched and not bad), Not(shutting), Or(BoolVal(imm or man), needs))
                        posts = [('should_schedule_compaction does not answer "schedule" exactly when nothing is scheduled, the database is healthy and not shutting down, and work exists (a waiting flush or manual request would never be served, or work is scheduled twice / in a failed state)', ret == want),
                                 ('the scheduled flag is not set exactly when a compaction is to be scheduled (or an existing flag is cleared)', flag == Or(BoolVal(sched), want))]
                        res.cases['scheduled=%s error=%s imm=%s manual=%s' % (sched, bad, imm, man)] = 1
                        for label, post, m in ex.check_posts(posts, pc):
                            case = {'scheduled': sched, 'error': bad, 'immutable_memtable': imm, 'manual_request': man, 'shutting_down': bool(mval(m, shutting)), 'needs_compaction': bool(mval(m, needs))}
                            res.violations.append({'label': label, 'case': case, 'replay': ['compact_waiters'], 'expect_hang': True})
                            # second native scenario: closing the database while a size-triggered compaction is in flight
                            res.violations.append({'label': label, 'case': case, 'replay': ['close_during_size_compaction']})
                    ex.top(fn, [{'abstract': True, '__ty': 'PortableDatabaseState', 0: 'x'}, Ref('$guard')], {'$state': {}, '$g': g, '$guard': Ref('$g')}, [], k)
                    res.absorb(ex)
    res.wall_s = time.time() - t0
    if res.violations: res.status = 'violation'
    return res


def o9_8_confirm(v, out):
    """Native: three threads call compact_range concurrently for several rounds (manual requests while flushes are pending); all must return."""
    if v['replay'][0] == 'close_during_size_compaction':
        if out.get('_rc') != 0: return (False, 'native run failed: %s' % out.get('_stderr', '')[-300:])
        return (out.get('compaction_started') == 'true' and out.get('open_while_compaction_in_flight') == 'ok',
                'native (disk file system): the database is dropped while a size-triggered compaction is in flight (%s level-0 tables); a second open during that time: %s; after the close: %s' % (out.get('level0_files'), out.get('open_while_compaction_in_flight'), out.get('open_after_close')))
    if out.get('_timeout'): return (True, 'native: concurrent compact_range calls did not all return within the watchdog time')
    if out.get('_rc') != 0: return (False, 'native run failed: %s' % out.get('_stderr', '')[-300:])
    return (out.get('all_returned') != 'true', 'native: %s' % {k: x for k, x in out.items() if not k.startswith('_')})
