"""O15.4 ReadHelpers::read_length_prefixed_slice: a length-prefixed slice that is cut short does not decode."""
import time
from z3 import BitVec, BitVecVal, Bool, BoolVal, And, Or, Not, ULT, ULE, UGE, UGT, If, ZeroExt
from ..exec import Exec, Enum, Ref, Opaque, Inconclusive, bv
from ..ob import Result, mval
from .. import lib


def o15_4_length_prefixed(mir, tier):
    """The reader (std::io::Read by contract) holds R more bytes after a varint32 prefix L (both free).  Contract of Read:
    read_exact(buf) succeeds iff R >= len(buf) (else UnexpectedEof); Read::take(n) + read_to_end delivers min(n, R) bytes.
    Reference: Ok(slice) implies the slice has exactly L bytes and R >= L; with fewer than L bytes left the call fails - a record
    that was cut (torn write, a fragment delivered as a whole record) must not decode as a shorter value."""
    fns = [f for f in mir.fns.values() if f.path.endswith('::read_length_prefixed_slice') and 'utils::io' in f.path]
    if len(fns) != 1: raise Inconclusive('read_length_prefixed_slice not found uniquely')
    fn = fns[0]
    res = Result('O15.4 ReadHelpers::read_length_prefixed_slice', [fn.path], 'prefix L (32 bit) and remaining bytes R (< 2^40) free; varint reader and std::io::Read by contract')
    t0 = time.time()
    S = lib.std_summaries(); P = S['$patterns']
    L, R, var_ok = BitVec('length_prefix', 32), BitVec('bytes_after_prefix', 64), Bool('prefix_readable')
    pre = [ULT(R, bv(1 << 40))]
    def rd(se, env): return se.deref(env, Ref('$r'))
    def read_varint(se, env, pc, r):
        return [(var_ok, Enum('Ok', (L,)), env['$state']), (Not(var_ok), Enum('Err', ({'kind': 'UnexpectedEof', '__ty': 'io::Error'},)), env['$state'])]
    P[r'<R as VarIntReader>::read_varint'] = read_varint
    def read_exact(se, env, pc, r, buf):
        b = se.deref(env, buf) if isinstance(buf, Ref) else buf
        n = b['len'] if isinstance(b, dict) and 'len' in b else None
        if n is None: raise Inconclusive('read_exact into %r' % (b,))
        st = dict(env['$state']); st['delivered'] = n
        return [(UGE(R, n), Enum('Ok', ((),)), st), (ULT(R, n), Enum('Err', ({'kind': 'UnexpectedEof', '__ty': 'io::Error'},)), env['$state'])]
    P[r'<R as std::io::Read>::read_exact'] = read_exact; P[r'<R as Read>::read_exact'] = read_exact
    P[r'<R as (?:std::io::)?Read>::take'] = lambda se, env, pc, r, n: lib.one(env, {'take': n})
    P[r'<&mut R as (?:std::io::)?Read>::take'] = P[r'<R as (?:std::io::)?Read>::take']
    def read_to_end(se, env, pc, t, buf):
        tv = se.deref(env, t) if isinstance(t, Ref) else t
        n = tv['take']; got = If(ULE(n, R), n, R)
        b = se.deref(env, buf)
        old = b['len'] if isinstance(b, dict) and 'len' in b else bv(len(b) if isinstance(b, list) else 0)
        se.store(env, buf, {'len': old + got, 'kind': 'read', 'off': bv(0)})
        st = dict(env['$state']); st['delivered'] = got; env['$state'] = st
        return [(None, Enum('Ok', (got,)), st)]
    P[r'<std::io::Take<.*> as (?:std::io::)?Read>::read_to_end'] = read_to_end
    P[r'<Take<.*> as (?:std::io::)?Read>::read_to_end'] = read_to_end
    P[r'Vec::new'] = lambda se, env, pc: lib.one(env, {'len': bv(0), 'kind': 'empty', 'off': bv(0)})
    P[r'<Vec<u8> as DerefMut>::deref_mut'] = lib.ident
    P[r'<Result<.*> as FromResidual<Result<Infallible, .*>>>::from_residual'] = lambda se, env, pc, r: lib.one(env, r)
    ex = Exec(mir, S, loop_bound=3)
    def k(ret, env, pc):
        ok = isinstance(ret, Enum) and ret.tag == 'Ok'
        L64 = ZeroExt(32, L)
        posts = []
        if ok:
            b = ret.fields[0]; n = b['len'] if isinstance(b, dict) and 'len' in b else None
            posts.append(('a length-prefixed slice decodes although fewer bytes than its prefix announces are left (a cut record is accepted as a shorter value)', And(UGE(R, L64), n == L64) if n is not None else BoolVal(False)))
        else:
            posts.append(('a complete length-prefixed slice fails to decode', Or(Not(var_ok), ULT(R, L64))))
        res.cases['Ok' if ok else 'Err'] = 1
        for label, post, m in ex.check_posts(posts, pc):
            res.violations.append({'label': label, 'model': {'prefix': mval(m, L), 'remaining': mval(m, R)}, 'replay': ['truncated_batch']})
    ex.top(fn, [Ref('$r')], {'$state': {}, '$r': {'abstract': True, '__ty': 'reader'}}, pre, k)
    res.absorb(ex)
    for pcx, msg, where in ex.panics:
        res.panic_paths += 1; res.violations.append({'label': 'panic path: ' + msg[:80], 'replay': None, 'confirmed_by': {'reproduced': False, 'detail': 'no native scenario'}})
    res.wall_s = time.time() - t0
    if res.violations: res.status = 'violation'
    return res


def o15_4_confirm(v, out):
    """Native: a batch of two puts is encoded; every proper prefix of the encoding is handed to the batch decoder, which must
    reject all of them."""
    if out.get('_rc') != 0: return (False, 'native run failed: %s' % out.get('_stderr', '')[-300:])
    return (out.get('accepted_prefixes', '0') != '0', '%s of %s proper prefixes of an encoded batch were accepted by the decoder (first accepted length: %s)' % (out.get('accepted_prefixes'), out.get('prefixes'), out.get('first_accepted')))
