"""O10.7 Version::record_read_sample + Version::update_stats: the seek-compaction candidate is recorded with its own level."""
import itertools, time
from z3 import BitVec, BitVecVal, Bool, BoolVal, And, Or, Not, ULT, ULE, simplify
from ..exec import Exec, Enum, Ref, Opaque, Inconclusive, bv
from ..ob import Result, World, mval, key_bytes
from .. import lib
from .version import base_summaries, mk_version, _levels_argv


def o10_7_read_sample(mir, tier):
    """The files holding the sampled key are given by contract (Version::get_overlapping_files is O1.4) as a shape (n0..n3).
    allowed_seeks of the charged file is free.  Reference: nothing is charged unless at least two files hold the key; the charged
    file is the first one consulted; when its allowance is used up it becomes the seek-compaction candidate together with the
    level IT lives in (the compaction picker deletes the candidate from that level)."""
    fn = mir.method('Version', 'record_read_sample')
    shapes = [s for s in itertools.product(range(0, 3), (0, 1), (0, 1), (0, 1)) if sum(s) >= 1] if tier != 'quick' else [(2, 0, 0, 0), (1, 0, 1, 0), (0, 1, 0, 1), (1, 1, 1, 1), (1, 0, 0, 0), (0, 0, 1, 0), (2, 1, 0, 0)]
    res = Result('O10.7 Version::record_read_sample', [fn.path, mir.method('Version', 'update_stats').path], 'files holding the key per level in shapes %s; remaining seek allowance free; an earlier candidate present or absent' % (shapes,))
    t0 = time.time()
    numf = mir.field('FileMetadata', 'file_number')
    for shape in shapes:
        for had_candidate in (False, True):
            w = World(mir)
            per_level = [[w.file('l%d_%d' % (l, i), number=100 * l + i + 1) for i in range(n)] for l, n in enumerate(shape)]
            order = [(l, i) for l, n in enumerate(shape) for i in range(n)]
            allow = BitVec('allowed_seeks_after_decrement', 64)
            S = base_summaries(mir); P = S['$patterns']
            P[r'Version::get_overlapping_files'] = lambda se, env, pc, v, k, per_level=per_level: lib.one(env, [list(fs) for fs in per_level] + [[] for _ in range(7 - len(per_level))])
            P[r'SeekChargeMetadata::new'] = lambda se, env, pc: lib.one(env, mir.mk_struct('SeekChargeMetadata', seek_file=Enum('None'), seek_file_level=Enum('None')))
            def dec(se, env, pc, f):
                st = dict(env['$state']); st['decremented'] = st['decremented'] + [simplify((se.deref(env, f) if isinstance(f, Ref) else f)[numf]).as_long()]
                return [(None, (), st)]
            P[r'FileMetadata::decrement_allowed_seeks'] = dec
            P[r'FileMetadata::allowed_seeks'] = lambda se, env, pc, f: lib.one(env, allow)
            P[r'Arc::clone'] = lib.deref1
            ex = Exec(mir, S, loop_bound=sum(shape) + 10)
            vf = mir.struct_fields('Version'); sf = mir.struct_fields('SeekCompactionMetadata')
            def k(ret, env, pc, order=order, shape=shape, had_candidate=had_candidate, ex=ex, allow=allow):
                v = ex.deref(env, Ref('$v')); meta = v[vf.index('seek_compaction_metadata')]
                cand, clevel = meta[sf.index('file_to_compact')], meta[sf.index('level_of_file_to_compact')]
                dec = env['$state']['decremented']; nfiles = len(order)
                first = 100 * order[0][0] + order[0][1] + 1; first_level = order[0][0]
                posts = [('a file is charged a seek although fewer than two files hold the key, or none is charged although two do', BoolVal(dec == ([first] if nfiles >= 2 else [])))]
                exhausted = (allow.sort().size() and (allow <= 0))        # signed: i64
                if nfiles >= 2 and not had_candidate:
                    is_some = isinstance(cand, Enum) and cand.tag == 'Some'
                    posts.append(('the charged file does not become the compaction candidate exactly when its seek allowance is used up', exhausted == BoolVal(is_some)))
                    if is_some:
                        posts.append(('the seek-compaction candidate is not the first file that was consulted', cand.fields[0][numf] == bv(first)))
                        posts.append(('the level recorded for the seek-compaction candidate is not the level the file lives in', clevel == bv(first_level)))
                    posts.append(('record_read_sample does not report that a compaction may be needed exactly when a candidate was set', (ret == BoolVal(is_some)) if not isinstance(ret, bool) else BoolVal(ret == is_some)))
                if had_candidate:
                    posts.append(('an existing seek-compaction candidate is replaced', BoolVal(isinstance(cand, Enum) and cand.tag == 'Some') if not (isinstance(cand, Enum) and cand.tag == 'Some') else And(cand.fields[0][numf] == bv(999), clevel == bv(5))))
                res.cases['%s candidate_before=%s -> charged %s' % (shape, had_candidate, dec)] = 1
                LF = {l: [w.F(f) for f in fs] for l, fs in enumerate(per_level) if fs}
                for label, post, m in ex.check_posts(posts, pc):
                    rep = 'level recorded' in label or 'first file' in label
                    res.violations.append({'label': label, 'shape': list(shape), 'charged': dec, 'first_level': first_level, 'first_file': first,
                                           'replay': ['read_sample', '0005:9'] + sum((['@%d' % l] + ['%d:100:0001:%d:0009:%d' % (100 * l + i + 1, 50 - 10 * l - i, 40 - 10 * l - i) for i in range(n)] for l, n in enumerate(shape) if n), []) if rep else None,
                                           'confirmed_by': None if rep else {'reproduced': False, 'detail': 'no native scenario for this label'}})
            old = w.file('old_candidate', number=999)
            ver = mk_version(mir, {})
            ver[vf.index('seek_compaction_metadata')] = mir.mk_struct('SeekCompactionMetadata', file_to_compact=Enum('Some', (old,)) if had_candidate else Enum('None'), level_of_file_to_compact=bv(5 if had_candidate else 0))
            env = {'$state': {'decremented': []}, '$v': ver, '$t': w.key('t')}
            ex.top(fn, [Ref('$v'), Ref('$t')], env, list(w.pre), k)
            res.absorb(ex)
            for pc, msg, where in ex.panics:
                res.panic_paths += 1; res.violations.append({'label': 'panic path: ' + msg[:80], 'shape': list(shape), 'replay': None, 'confirmed_by': {'reproduced': False, 'detail': 'no native scenario'}})
    res.wall_s = time.time() - t0
    if res.violations: res.status = 'violation'
    return res


def o10_7_confirm(v, out):
    """Native: a version with one file per listed level, all holding the sampled key; after enough read samples the candidate
    must be the first (youngest) file together with its own level."""
    if out.get('_rc') != 0: return (False, 'native run failed: %s' % out.get('_stderr', '')[-300:])
    return (out.get('candidate') != str(v['first_file']) or out.get('candidate_level') != str(v['first_level']),
            'native candidate file %s at recorded level %s; the first file holding the key is %s at level %s' % (out.get('candidate'), out.get('candidate_level'), v['first_file'], v['first_level']))
