"""O9.6 DatabaseIterator::sample_read_stats_for_current_key: the sampling loop ends (C09)."""
import time
from z3 import BitVec, Bool, BoolVal, And, Or, Not, ULT, ULE, UGE
from ..exec import Exec, Inconclusive, Ref, Enum, Opaque
from ..ob import Result
from .. import lib
from .version import bv, mval

PERIOD = 1048576          # config::ITERATION_READ_BYTES_PERIOD (checked against the MIR constant below)


def o9_6_read_sampling(mir, tier):
    """The iterator stands on an entry of free size (key size + value length < 2^40) with a free sampling budget (< 2^40).  The random
    period is by contract: a free value in [0, 2 * ITERATION_READ_BYTES_PERIOD) per draw; K = 3 (thorough: 4) draws are provided
    and assumed to cover the entry together with the budget (budget + p1 + .. + pK >= entry size).  Reference: the loop ends
    within those draws (every draw is ADDED to the budget, so the loop ends as soon as the draws add up - an entry larger than
    one period must not keep an iterator step spinning), takes the database mutex once per draw and releases it, and leaves
    budget + draws used - entry size as the new budget."""
    fn = mir.method('DatabaseIterator', 'sample_read_stats_for_current_key')
    K = 3 if tier == 'quick' else 4
    res = Result('O9.6 read sampling loop of the database iterator', [fn.path],
                 'entry size and budget free (< 2^40); %d draws of the random period, each free in [0, 2 MiB), covering the entry; record_read_sample / should_schedule_compaction free' % K)
    t0 = time.time()
    c = mir.consts.get('config::ITERATION_READ_BYTES_PERIOD') if hasattr(mir, 'consts') else None
    S = lib.std_summaries(); P = S['$patterns']
    size_k, size_v, b0 = BitVec('key_size', 64), BitVec('value_len', 64), BitVec('budget', 64)
    draws = [BitVec('period%d' % i, 64) for i in range(K)]
    total = b0
    for d in draws: total = total + d
    pre = [ULT(size_k, bv(1 << 39)), ULT(size_v, bv(1 << 39)), ULT(b0, bv(1 << 40)), UGE(total, size_k + size_v)] + [ULT(d, bv(2 * PERIOD)) for d in draws]
    P[r'<MergingIterator as RainDbIterator>::is_valid'] = lambda se, env, pc, r: lib.one(env, BoolVal(True))
    P[r'<MergingIterator as RainDbIterator>::current'] = lambda se, env, pc, r: lib.one(env, Enum('Some', (({'abstract': 'key'}, {'len': size_v, 'kind': 'value', 'off': bv(0)}),)))
    P[r'InternalKey::get_approximate_size'] = lambda se, env, pc, k: lib.one(env, size_k)
    def draw(se, env, pc, it):
        st = dict(env['$state']); i = st['draws']
        if i >= K:
            st['overrun'] = True; env['$state'] = st
            return [(None, bv(0), st)]
        st['draws'] = i + 1
        return [(None, draws[i], st)]
    P[r'DatabaseIterator::random_compaction_period'] = draw
    def lock(se, env, pc, m):
        st = dict(env['$state']); st['locks'] = st['locks'] + 1; st['held'] = st['held'] + 1
        return [(None, {'__guard': True}, st)]
    P[r'parking_lot::lock_api::Mutex::lock'] = lock
    def drop_hook(se, env, ty, val):
        if 'MutexGuard' in ty and isinstance(val, dict) and val.get('__guard'):
            st = dict(env['$state']); st['held'] = st['held'] - 1; env['$state'] = st
    S['$drop'] = drop_hook
    P[r'<parking_lot::lock_api::MutexGuard<.*> as Deref(?:Mut)?>::deref(?:_mut)?'] = lambda se, env, pc, g: lib.one(env, Opaque('guarded fields'))
    P[r'VersionSet::get_current_version'] = lambda se, env, pc, v: lib.one(env, Opaque('version node'))
    P[r'<Arc<.*> as Deref>::deref'] = lambda se, env, pc, a: lib.one(env, Opaque('pointee'))
    P[r'parking_lot::lock_api::RwLock::write'] = lambda se, env, pc, a: lib.one(env, Opaque('write guard'))
    P[r'<parking_lot::lock_api::RwLockWriteGuard<.*> as DerefMut>::deref_mut'] = lambda se, env, pc, a: lib.one(env, Opaque('version'))
    nfree = [0]
    def free_bool(name):
        def f(se, env, pc, *a):
            nfree[0] += 1; return lib.one(env, Bool('%s_%d' % (name, nfree[0])))
        return f
    P[r'Version::record_read_sample'] = free_bool('needs_seek_compaction')
    P[r'DB::should_schedule_compaction'] = free_bool('should_schedule')
    P[r'CompactionWorker::schedule_task'] = lib.unit
    ex = Exec(mir, S, loop_bound=K + 2)
    it = mir.mk_struct('DatabaseIterator', db_state={'abstract': True, 0: Opaque('fields')}, compaction_worker='worker', direction=Enum('Forward', (), 'DbIterationDirection'),
                       inner_iter={'abstract': 'merging iterator'}, sequence_snapshot=bv(0), is_valid=BoolVal(True), rng='rng', distribution='dist',
                       bytes_until_read_sampling=b0, cached_user_key=Enum('None'), cached_value=Enum('None'))
    fi = mir.struct_fields('DatabaseIterator').index('bytes_until_read_sampling')
    def done(ret, env, pc):
        st = env['$state']; used = bv(0)
        for d in draws[:st['draws']]: used = used + d
        final = ex.deref(env, Ref('$it'))[fi]
        posts = [('the sampling loop does not end although the drawn periods cover the entry (an iterator step over a large entry spins forever, taking the database mutex again and again)', BoolVal(not st.get('overrun'))),
                 ('the budget left after sampling is not budget + drawn periods - entry size', final == b0 + used - (size_k + size_v)),
                 ('the database mutex is not taken exactly once per drawn period / is still held at the end', BoolVal(st['locks'] == st['draws'] and st['held'] == 0))]
        res.cases['%d draws' % st['draws']] = 1
        for label, post, m in ex.check_posts(posts, pc):
            res.violations.append({'label': label, 'entry_size': mval(m, size_k) + mval(m, size_v), 'budget': mval(m, b0), 'periods': [mval(m, d) for d in draws], 'expect_hang': True, 'replay': ['iterate_large_entry']})
    try:
        ex.top(fn, [Ref('$it')], {'$state': {'draws': 0, 'locks': 0, 'held': 0}, '$it': it}, pre, done)
    except Inconclusive as e:
        if 'loop bound' not in str(e): raise
    res.absorb(ex)
    if ex.bound_hits:
        # more loop iterations than draws provided: the loop did not end within draws that cover the entry
        ex.bound_hits = []; res.bound_hits = 0
        res.violations.append({'label': 'the sampling loop does not end although the drawn periods cover the entry (an iterator step over a large entry spins forever, taking the database mutex again and again)',
                               'expect_hang': True, 'replay': ['iterate_large_entry']})
    for pcx, msg, where in ex.panics:
        ex.solver.push(); ex.solver.add(*pre); ex.solver.add(*[c for c in pcx if not isinstance(c, bool)]); feas = str(ex.solver.check()) == 'sat'; ex.solver.pop()
        if feas: res.panic_paths += 1; res.violations.append({'label': 'panic path: ' + msg[:80], 'replay': None, 'confirmed_by': {'reproduced': False, 'detail': 'no native scenario'}})
    res.wall_s = time.time() - t0
    if res.violations: res.status = 'violation'
    return res


def o9_6_confirm(v, out):
    """Native: a 3 MiB value is stored and flushed; an iterator walks over it (25 s watchdog in the driver)."""
    if out.get('_timeout'): return (True, 'native: the iterator step over a 3 MiB entry did not return within the watchdog time')
    if out.get('_rc') != 0: return (False, 'native run failed: %s' % out.get('_stderr', '')[-300:])
    return (out.get('entries') != out.get('expected'), 'native: iterator saw %s of %s entries' % (out.get('entries'), out.get('expected')))
