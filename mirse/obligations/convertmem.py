"""O2.9 DB::convert_memtable_to_file: a flush either adds the table it built to the version edit or reports the failure."""
import time
from z3 import BitVec, BitVecVal, Bool, BoolVal, And, Or, Not, UGT, ULT, simplify
from ..exec import Exec, Enum, Ref, Opaque, Inconclusive, bv
from ..ob import Result, World, mval
from .. import lib, lib2

GUARD = r'<parking_lot::lock_api::MutexGuard<.*> as Deref(?:Mut)?>::deref(?:_mut)?'


def o2_9_convert_memtable(mir, tier):
    """build_table_from_iterator by contract (O10.6): it fails, or sets size (free, may be 0 for an empty memtable) and the key
    bounds of the metadata.  With / without a base version; pick_level_for_memtable_output by contract (free level 0..2).
    Reference: a failed build is returned as an error and adds nothing to the edit; a successful non-empty build adds exactly
    one file: (chosen level | 0 without base version, the fresh file number, the built size, the built bounds); the number is
    protected from obsolete-file removal while the table is being written and released afterwards."""
    fn = mir.method('DB', 'convert_memtable_to_file')
    res = Result('O2.9 DB::convert_memtable_to_file', [fn.path], 'build succeeds (free size, bounds) or fails; base version present or absent; chosen level 0, 1 or 2; file counter concrete')
    t0 = time.time()
    mf = mir.struct_fields('FileMetadata'); gf = mir.struct_fields('GuardedDbFields')
    for has_base, lvl_c in ((False, 0), (True, 0), (True, 1), (True, 2)):
        w = World(mir)
        S = lib2.install(lib.std_summaries()); P = S['$patterns']
        P[GUARD] = lib.ptr_deref
        build_ok, size, level = Bool('table_build_ok'), BitVec('built_size', 64), bv(lvl_c)
        sm, lg = w.key('built_smallest'), w.key('built_largest')
        pre = list(w.pre) + [ULT(size, bv(1 << 40))]
        def upd(env, **kw):
            s = dict(env['$state']); s.update(kw); env['$state'] = s; return s
        P[r'Instant::now'] = lambda se, env, pc: lib.one(env, Opaque('instant')); P[r'std::time::Instant::now'] = P[r'Instant::now']
        P[r'(?:std::time::)?Instant::elapsed'] = lambda se, env, pc, i: lib.one(env, Opaque('duration'))
        P[r'VersionSet::get_new_file_number'] = lambda se, env, pc, vs: lib.one(env, bv(51))
        P[r'FileMetadata::new'] = lambda se, env, pc, n: lib.one(env, mir.mk_struct('FileMetadata', allowed_seeks=Enum('None'), file_number=n, file_size=bv(0), smallest_key=Enum('None'), largest_key=Enum('None')))
        P[r'parking_lot::lock_api::MutexGuard::unlocked_fair'] = lambda se, env, pc, g, clo: lib.call_closure(se, env, pc, clo, [])
        P[r'<Arc<Box<dyn MemTable>> as Deref>::deref'] = lib.ident; P[r'<Box<dyn MemTable> as Deref>::deref'] = lib.ident
        P[r'<dyn MemTable as MemTable>::iter'] = lambda se, env, pc, m: lib.one(env, {'iter_of': (se.deref(env, m) if isinstance(m, Ref) else m).get('source')})
        def build(se, env, pc, opts, md, it, tc):
            inuse = [simplify(x).as_long() for x in lib2.set_values(se, env, se.deref(env, Ref('$g'))[gf.index('tables_in_use')])]
            s = upd(env, built_from=it.get('iter_of') if isinstance(it, dict) else None, protected_during_build=inuse)
            mdv = dict(se.deref(env, md))
            okv = dict(mdv); okv[mf.index('file_size')] = size; okv[mf.index('smallest_key')] = Enum('Some', (sm,)); okv[mf.index('largest_key')] = Enum('Some', (lg,))
            return [(build_ok, Enum('Ok', ((),)), s, [(md, okv)]), (Not(build_ok), Enum('Err', (Enum('IO', (Opaque('e'),), 'RainDBError'),)), s)]
        P[r'DB::build_table_from_iterator'] = build
        P[r'FileMetadata::get_file_size'] = lambda se, env, pc, f: lib.one(env, se.deref(env, f)[mf.index('file_size')])
        P[r'FileMetadata::file_number'] = lambda se, env, pc, f: lib.one(env, se.deref(env, f)[mf.index('file_number')])
        P[r'FileMetadata::smallest_key'] = lambda se, env, pc, f: lib.one(env, se.deref(env, f)[mf.index('smallest_key')].fields[0])
        P[r'FileMetadata::largest_key'] = lambda se, env, pc, f: lib.one(env, se.deref(env, f)[mf.index('largest_key')].fields[0])
        P[r'InternalKey::get_user_key'] = lambda se, env, pc, k: lib.one(env, (se.deref(env, k) if isinstance(k, Ref) else k)[mir.field('InternalKey', 'user_key')])
        P[r'<InternalKey as Clone>::clone'] = lib.clone_deep
        P[r'parking_lot::lock_api::RwLock::read'] = lib.ident
        P[r'<parking_lot::lock_api::RwLockReadGuard<.*> as Deref>::deref'] = lambda se, env, pc, g: lib.one(env, {'element': {'abstract': True, '__ty': 'Version'}, '__ty': 'Node'})
        P[r'<Arc<parking_lot::lock_api::RwLock<.*>> as Deref>::deref'] = lib.ident
        def pick(se, env, pc, v, a, b):
            s = upd(env, picked_for=(a, b)); return [(None, level, s)]
        P[r'Version::pick_level_for_memtable_output'] = pick
        def add_file(se, env, pc, m, lvl, num, sz, rng):
            s = upd(env, added=env['$state']['added'] + [(lvl, num, sz, w.K(rng[0]), w.K(rng[1]))]); return [(None, (), s)]
        P[r'VersionChangeManifest::add_file'] = add_file
        P[r'<LevelCompactionStats as Default>::default'] = lambda se, env, pc: lib.one(env, {'abstract': True, '__ty': 'LevelCompactionStats'})
        P[r'<LevelCompactionStats as AddAssign>::add_assign'] = lib.unit
        P[r'<\[LevelCompactionStats; 7\] as IndexMut<usize>>::index_mut'] = lambda se, env, pc, a, i: lib.one(env, Ref('$stats'))
        P[r'<Result<.*> as FromResidual<Result<Infallible, .*>>>::from_residual'] = lambda se, env, pc, r: lib.one(env, r)
        ex = Exec(mir, S, loop_bound=4, opaque_calls_ok=True)
        def k(ret, env, pc, has_base=has_base, ex=ex):
            s = env['$state']; ok = isinstance(ret, Enum) and ret.tag == 'Ok'
            inuse = [simplify(x).as_long() for x in lib2.set_values(ex, env, ex.deref(env, Ref('$g'))[gf.index('tables_in_use')])]
            added = s['added']
            posts = [('a failed table build is not reported by the flush (the memtable would be dropped and its log deleted although nothing was written)', BoolVal(ok) == build_ok),
                     ('the table number is not protected from obsolete-file removal while the table is being written', BoolVal(51 in (s.get('protected_during_build') or []))),
                     ('the table is not built from the memtable that is being flushed', BoolVal(s.get('built_from') == 'immutable memtable')),
                     ('a table is added to the version edit although its build failed', Or(build_ok, BoolVal(not added)))]
            if ok:
                posts.append(('a non-empty table built by the flush is not added to the version edit exactly once (or an empty one is added)', UGT(size, bv(0)) == BoolVal(len(added) == 1) if len(added) <= 1 else BoolVal(False)))
                posts.append(('the finished table stays in the in-use set (or another table is released)', BoolVal(51 not in inuse and 7 in inuse)))
                if len(added) == 1:
                    lvl, num, sz, a_sm, a_lg = added[0]
                    posts.append(('the edit does not record the number, size and key bounds of the table that was built', And(num == bv(51), sz == size, *[x == y for x, y in zip(a_sm, w.K(sm))], *[x == y for x, y in zip(a_lg, w.K(lg))])))
                    posts.append(('the table is not placed at the level chosen for it (level 0 when there is no base version)', lvl == (level if has_base else bv(0))))
                    if has_base and s.get('picked_for'):
                        a, b = s['picked_for']
                        posts.append(('the output level is chosen for another key range than the one of the built table', And(a == w.K(sm)[0], b == w.K(lg)[0]) if hasattr(a, 'sort') and hasattr(b, 'sort') else BoolVal(False)))
            res.cases['base=%s level=%d %s added=%d' % (has_base, lvl_c, 'Ok' if ok else 'Err', len(added))] = 1
            for label, post, m in ex.check_posts(posts, pc):
                rep = 'failed table build is not reported' in label
                res.violations.append({'label': label, 'has_base_version': has_base, 'replay': ['flush_fault', 'table'] if rep else None, 'confirmed_by': None if rep else {'reproduced': False, 'detail': 'no native scenario for this label'}})
        g = mir.mk_struct('GuardedDbFields', version_set={'abstract': True, '__ty': 'VersionSet'}, tables_in_use={'set': [bv(7)]}, compaction_stats=[{'abstract': True}] * 7)
        dbs = mir.mk_struct('PortableDatabaseState', options={'abstract': True, '__ty': 'DbOptions'}, table_cache='tc')
        env = {'$state': {'added': []}, '$g': g, '$guard': Ref('$g'), '$dbs': dbs, '$cm': {'abstract': True, '__ty': 'VersionChangeManifest'}, '$stats': {'abstract': True}, '$base': {'abstract': True, '__ty': 'SharedNode'}}
        ex.top(fn, [Ref('$dbs'), Ref('$guard'), {'abstract': True, '__ty': 'MemTable', 'source': 'immutable memtable'}, Enum('Some', (Ref('$base'),)) if has_base else Enum('None'), Ref('$cm')], env, pre, k)
        res.absorb(ex)
        for pcx, msg, where in ex.panics:
            ex.solver.push(); ex.solver.add(*pre); ex.solver.add(*[c for c in pcx if not isinstance(c, bool)])
            feas = str(ex.solver.check()) == 'sat'; ex.solver.pop()
            if not feas: continue
            res.panic_paths += 1; res.violations.append({'label': 'panic path: ' + msg[:80], 'replay': None, 'confirmed_by': {'reproduced': False, 'detail': 'no native scenario'}})
    res.wall_s = time.time() - t0
    if res.violations: res.status = 'violation'
    return res


def o2_9_confirm(v, out):
    from .dbpaths import o2_4_confirm
    return o2_4_confirm(v, out)
