"""Iterator obligations: O4.1 MergingIterator (with CachingIterator inlined) over abstract children; O4.2 DatabaseIterator; O4.3 two-level iterators."""
import itertools, time
from z3 import Extract, BitVec, BitVecVal, Bool, BoolVal, And, Or, Not, Implies, ULT, ULE, UGT, UGE, If, simplify, is_true
from ..exec import Exec, Enum, Ref, Opaque, Inconclusive, Delegate, bv
from ..ob import World, Result, klt, kle, keq, mval, key_bytes, MAXSEQ
from .. import lib, absiter
from .version import base_summaries

DYN = '<dyn RainDbIterator<Error = RainDBError, Key = InternalKey> as RainDbIterator>::'
DYN2 = '<dyn RainDbIterator<Key = InternalKey, Error = RainDBError> as RainDbIterator>::'
BOXDYN = r'<Box<dyn RainDbIterator<.*>> as Deref(?:Mut)?>::deref(?:_mut)?'


def interleavings(sizes):
    """All total orders of the entries (child, index) that keep every child's own order."""
    items = [c for c, n in enumerate(sizes) for _ in range(n)]
    for perm in set(itertools.permutations(items)):
        cnt = [0] * len(sizes); out = []
        for c in perm:
            out.append((c, cnt[c])); cnt[c] += 1
        yield out


def ref_cursor(op, pos, n, seekpos):
    if op == 'first': return 0 if n else None
    if op == 'last': return n - 1 if n else None
    if op == 'seek': return seekpos if seekpos < n else None
    if pos is None: return 'stop'
    if op == 'next': return pos + 1 if pos + 1 < n else None
    if op == 'prev': return pos - 1 if pos - 1 >= 0 else None


QUICK_PATTERNS = [['first', 'next', 'next', 'prev'], ['last', 'prev', 'next', 'next'], ['first', 'next', 'prev', 'prev'], ['last', 'prev', 'prev', 'next'],
                  ['last', 'prev', 'seek', 'prev'], ['first', 'next', 'seek', 'next'], ['seek', 'prev', 'prev', 'next'], ['seek', 'next', 'prev', 'next'],
                  ['last', 'seek', 'prev', 'prev'], ['first', 'seek', 'prev', 'next'], ['seek', 'prev', 'seek', 'next'], ['last', 'next'], ['first', 'prev'],
                  # a seek to the same target while the cursor rests on a neighbour of the answer
                  ['seek', 'next', 'seek'],
                  # absolute repositioning after the cursor has moved
                  ['first', 'next', 'first', 'next'], ['seek', 'first', 'next'], ['last', 'prev', 'last', 'prev'], ['seek', 'last', 'prev'],
                  # absolute repositioning while the cursor is parked in the opposite direction
                  ['last', 'prev', 'first', 'next'], ['first', 'next', 'last', 'prev'],
                  # absolute repositioning after the cursor fell off an end
                  ['first', 'prev', 'first', 'next'], ['last', 'next', 'last', 'prev'], ['first', 'prev', 'seek'], ['last', 'next', 'seek']]


LABEL_CLEANUP = 'a registered clean-up closure runs while the merging iterator is still alive (a database iterator releases its pinned version this way: the table files it reads can then be deleted under it)'


def o4_1_merging(mir, tier):
    ops = {n: mir.method('MergingIterator', n, 'RainDbIterator') for n in ('seek', 'seek_to_first', 'seek_to_last', 'next', 'prev', 'is_valid', 'current')}
    if tier == 'quick':
        size_sets = [(2, 1), (1, 1, 1), (2, 2)]; patterns = QUICK_PATTERNS
    else:
        size_sets = [(2, 1), (1, 1, 1), (2, 2), (2, 1, 1), (3, 1), (2, 0, 1)]
        patterns = [list(p) for L in (3, 4) for p in itertools.product(['first', 'last', 'seek', 'next', 'prev'], repeat=L) if p[0] in ('first', 'last', 'seek')]
    res = Result('O4.1 MergingIterator vs merged sorted array', [f.path for f in ops.values()] + ['find_smallest/find_largest/advance_current_iterator/reverse_current_iterator, CachingIterator::* (inlined)'],
                 'children sizes %s, every interleaving of the children\'s entries, %d cursor patterns of length <= 4 over {seek_to_first, seek_to_last, seek(target free), next, prev}; children = RainDbIterator contract over sorted symbolic keys' % (size_sets, len(patterns)))
    t0 = time.time()
    opname = {'first': 'seek_to_first', 'last': 'seek_to_last', 'seek': 'seek', 'next': 'next', 'prev': 'prev'}
    cf = mir.struct_fields('CachingIterator'); mf = mir.struct_fields('MergingIterator')
    nruns = 0
    for sizes in size_sets:
        w = World(mir)
        keys = [[w.key('c%d_%d' % (c, i)) for i in range(n)] for c, n in enumerate(sizes)]
        vals = [[BitVec('val%d_%d' % (c, i), 8) for i in range(n)] for c, n in enumerate(sizes)]
        for order in interleavings(sizes):
            merged = [w.K(keys[c][i]) for c, i in order]
            n = len(merged)
            pre = list(w.pre) + [klt(merged[i], merged[i + 1]) for i in range(n - 1)]
            S = base_summaries(mir)
            S.update(absiter.summaries([DYN, DYN2], w.K))
            S['$patterns'][BOXDYN] = lib.ptr_deref
            S['$patterns'][r'<Vec<u8> as Clone>::clone'] = lib.clone_deep
            S['$patterns'][r'<\(InternalKey, Vec<u8>\) as Clone>::clone'] = lib.clone_deep
            # one clean-up closure is registered (DB::new_iterator registers the release of its pinned version this way): calling it is an event
            def call_cleanup(se, env, pc, f, *a):
                st = dict(env['$state']); st['cleanups'] = st.get('cleanups', 0) + 1
                return [(None, (), st)]
            S['$patterns'][r'<Box<dyn FnOnce\(\)> as FnOnce<\(\)>>::call_once'] = call_cleanup
            for pat in patterns:
                nruns += 1
                tk = w.key('t'); T = w.K(tk)
                ex = Exec(mir, S, loop_bound=len(sizes) * 2 + 6)
                heap = {'$state': {}, '$t': tk}
                its = []
                for c, nn in enumerate(sizes):
                    heap['$c%d' % c] = absiter.make([(keys[c][i], vals[c][i]) for i in range(nn)])
                    its.append(mir.mk_struct('CachingIterator', iterator=Ref('$c%d' % c), is_valid=BoolVal(False), cached_entry=Enum('None')))
                heap['$m'] = mir.mk_struct('MergingIterator', iterators=its, direction=Enum('Forward', (), 'IterationDirection'), current_iterator_index=Enum('None'),
                                           errors=[Enum('None')] * len(sizes), cleanup_callbacks=[{'closure': 'release of the pinned version', '__ty': 'Box<dyn FnOnce()>'}])
                def drive(env, pc, i, pos, trace, pat=pat, ex=ex, merged=merged, n=n, T=T):
                    if i == len(pat): return finish(env, pc, trace, pat, ex, merged, n, T)
                    op = pat[i]
                    if op in ('next', 'prev') and pos is None: return finish(env, pc, trace, pat, ex, merged, n, T)
                    def after(ret, env2, pc2):
                        def got_valid(v, env3, pc3):
                            def got_cur(cur, env4, pc4):
                                obs = None
                                if isinstance(cur, Enum) and cur.tag == 'Some':
                                    kv = cur.fields[0]
                                    obs = (w.K(ex.deref(env4, kv[0])), ex.deref(env4, kv[1]))
                                # reference position: for seek it depends on the target -> fork over the slot
                                if op == 'seek':
                                    for sp in range(n + 1):
                                        cond = And(*[klt(merged[j], T) for j in range(sp)], *([Not(klt(merged[sp], T))] if sp < n else []))
                                        exp = ref_cursor(op, pos, n, sp)
                                        ex.under(cond, lambda exp=exp, cond=cond: drive(env4, pc4 + [cond], i + 1, exp, trace + [(op, v, obs, exp)]))
                                else:
                                    exp = ref_cursor(op, pos, n, None)
                                    drive(env4, pc4, i + 1, exp, trace + [(op, v, obs, exp)])
                            ex.run_fn(ops['current'], [Ref('$m')], env3, pc3, got_cur)
                        ex.run_fn(ops['is_valid'], [Ref('$m')], env2, pc2, got_valid)
                    args = [Ref('$m')] + ([Ref('$t')] if op == 'seek' else [])
                    ex.run_fn(ops[opname[op]], args, env, pc, after)
                def finish(env, pc, trace, pat, ex, merged, n, T):
                    ex.paths += 1
                    if env['$state'].get('cleanups', 0) and not any(v['label'] == LABEL_CLEANUP for v in res.violations):
                        ex.record_formula(LABEL_CLEANUP, pc, BoolVal(True))
                        res.violations.append({'label': LABEL_CLEANUP, 'children': list(sizes), 'pattern': pat, 'replay': ['exhausted_iterator_pin']})
                    for step, (op, valid, obs, exp) in enumerate(trace):
                        if exp is None: ok = And(Not(valid), BoolVal(obs is None)) if not isinstance(valid, bool) else BoolVal(obs is None)
                        elif obs is None: ok = BoolVal(False)
                        else:
                            c, i = order[exp]
                            ok = And(valid, keq(obs[0], merged[exp]), obs[0][2] == merged[exp][2], obs[1] == vals[c][i])
                        label = 'after %s the cursor differs from the merged sorted array (validity, key or value)' % opname[op]
                        ex.record_formula(label, pc, Not(ok))
                        m = ex.model(Not(ok))
                        if m is not None:
                            res.violations.append({'label': label, 'children': list(sizes), 'pattern': pat[:step + 1], 'step': step,
                                                   'replay': ['merge_iter', ','.join(pat), '%s:%d' % (key_bytes(mval(m, T[0])), mval(m, T[1]))] +
                                                   ['/'.join('%s:%d:%d:%02x' % (key_bytes(mval(m, w.K(keys[c][i])[0])), mval(m, w.K(keys[c][i])[1]), mval(m, w.K(keys[c][i])[2]), mval(m, vals[c][i])) for i in range(sizes[c])) or '-' for c in range(len(sizes))]})
                            return
                    if len(res.witnesses) < 3 and len(trace) >= 3 and 'seek' in pat:
                        m = ex.model()
                        if m is not None:
                            res.witnesses.append({'executor_result': [None if e is None else e for (_, _, _, e) in trace], 'pattern': pat[:len(trace)],
                                                  'replay': ['merge_iter', ','.join(pat[:len(trace)]), '%s:%d' % (key_bytes(mval(m, T[0])), mval(m, T[1]))] +
                                                  ['/'.join('%s:%d:%d:%02x' % (key_bytes(mval(m, w.K(keys[c][i])[0])), mval(m, w.K(keys[c][i])[1]), mval(m, w.K(keys[c][i])[2]), mval(m, vals[c][i])) for i in range(sizes[c])) or '-' for c in range(len(sizes))]})
                ex.solver.push(); ex.solver.add(*pre)
                try: drive(heap, list(pre), 0, None, [])
                finally: ex.solver.pop()
                res.absorb(ex)
                for pc, msg, where in ex.panics:
                    res.panic_paths += 1; res.violations.append({'label': 'panic path: ' + msg[:80], 'children': list(sizes), 'pattern': pat, 'replay': None})
    res.cases['runs'] = nruns
    res.wall_s = time.time() - t0
    if res.violations: res.status = 'violation'
    return res



def drive_cursor(ex, ops, it_ref, pat, entries, T, env0, pre, res, label_fn, argv_fn, K, target_ref='$t', witness_ok=None, on_error=None):
    """Run the cursor pattern `pat` on the iterator object at `it_ref` (MIR functions in `ops`) and compare, after every
    step, validity / key / value with the cursor over `entries` (the merged sorted array of (key tuple, value term)).
    Steps after the cursor became invalid are not issued for next/prev. `on_error(ret)` may accept an Err result of an op."""
    opname = {'first': 'seek_to_first', 'last': 'seek_to_last', 'seek': 'seek', 'next': 'next', 'prev': 'prev'}
    n = len(entries)
    def finish(env, pc, trace):
        ex.paths += 1
        for step, (op, valid, obs, exp) in enumerate(trace):
            if exp is None: ok = And(Not(valid), BoolVal(obs is None)) if not isinstance(valid, bool) else BoolVal(obs is None and not valid)
            elif obs is None: ok = BoolVal(False)
            else: ok = And(valid, keq(obs[0], entries[exp][0]), obs[0][2] == entries[exp][0][2], obs[1] == entries[exp][1])
            label = label_fn(opname[op])
            ex.record_formula(label, pc, Not(ok))
            m = ex.model(Not(ok))
            if m is not None:
                res.violations.append({'label': label, 'pattern': pat[:step + 1], 'step': step, 'replay': argv_fn(m, pat)}); return
        if witness_ok is not None and witness_ok(trace):
            m = ex.model()
            if m is not None: res.witnesses.append({'executor_result': [e for (_, _, _, e) in trace], 'pattern': pat[:len(trace)], 'replay': argv_fn(m, pat[:len(trace)])})
    def drive(env, pc, i, pos, trace):
        if i == len(pat): return finish(env, pc, trace)
        op = pat[i]
        if op in ('next', 'prev') and pos is None: return finish(env, pc, trace)
        def after(ret, env2, pc2):
            if isinstance(ret, Enum) and ret.tag == 'Err':
                if on_error is not None: return on_error(ex, env2, pc2, op, trace, res, argv_fn, pat)
                res.violations.append({'label': 'cursor operation %s reports an error on an intact input' % opname[op], 'pattern': pat[:i + 1], 'replay': None}); return
            def got_valid(v, env3, pc3):
                def got_cur(cur, env4, pc4):
                    obs = None
                    if isinstance(cur, Enum) and cur.tag == 'Some':
                        kv = cur.fields[0]
                        obs = (K(ex.deref(env4, kv[0])), ex.deref(env4, kv[1]))
                    if op == 'seek':
                        for sp in range(n + 1):
                            cond = And(*[klt(entries[j][0], T) for j in range(sp)], *([Not(klt(entries[sp][0], T))] if sp < n else []))
                            exp = ref_cursor(op, pos, n, sp)
                            ex.under(cond, lambda exp=exp, cond=cond: drive(env4, pc4 + [cond], i + 1, exp, trace + [(op, v, obs, exp)]))
                    else:
                        exp = ref_cursor(op, pos, n, None)
                        drive(env4, pc4, i + 1, exp, trace + [(op, v, obs, exp)])
                ex.run_fn(ops['current'], [it_ref], env3, pc3, got_cur)
            ex.run_fn(ops['is_valid'], [it_ref], env2, pc2, got_valid)
        args = [it_ref] + ([Ref(target_ref)] if op == 'seek' else [])
        ex.run_fn(ops[opname[op]], args, env, pc, after)
    ex.solver.push(); ex.solver.add(*pre)
    try: drive(env0, list(pre), 0, None, [])
    finally: ex.solver.pop()


def o4_3_two_level(mir, tier):
    """TwoLevelIterator (index block -> data blocks) equals the cursor over the concatenation of the data blocks."""
    ops = {n: mir.method('TwoLevelIterator', n, 'RainDbIterator') for n in ('seek', 'seek_to_first', 'seek_to_last', 'next', 'prev', 'is_valid', 'current')}
    if tier == 'quick':
        shapes = [(1, 1), (2, 1), (1, 2), (1, 1, 1)]; patterns = QUICK_PATTERNS
    else:
        shapes = [(1,), (2,), (1, 1), (2, 1), (1, 2), (2, 2), (1, 1, 1), (2, 1, 1)]
        patterns = [list(p) for L in (3, 4) for p in itertools.product(['first', 'last', 'seek', 'next', 'prev'], repeat=L) if p[0] in ('first', 'last', 'seek')]
    res = Result('O4.3 TwoLevelIterator vs concatenated data blocks', [f.path for f in ops.values()] + ['init_data_block, skip_empty_data_blocks_forward/backward (inlined)'],
                 'tables with data blocks of %s entries; index keys by the separator contract (last key of the block or a shortened larger user key with the maximal sequence); block cursors = RainDbIterator contract; '
                 '%d cursor patterns of length <= 4 with a free seek target' % (shapes, len(patterns)))
    t0 = time.time()
    for shape in shapes:
        w = World(mir)
        ents, blocks = [], []
        for bi, cnt in enumerate(shape):
            blk = []
            for j in range(cnt):
                i = len(ents); e = (w.key('e%d' % i), BitVec('v%d' % i, 8)); ents.append(e); blk.append(e)
            blocks.append(blk)
        KE = [w.K(e[0]) for e in ents]
        pre = list(w.pre) + [klt(KE[i], KE[i + 1]) for i in range(len(ents) - 1)] + [ULT(k[1], bv(MAXSEQ)) for k in KE]
        index = []
        for bi, blk in enumerate(blocks):
            ik = w.key('ix%d' % bi); IK = w.K(ik); L = w.K(blk[-1][0])
            same = And(IK[0] == L[0], IK[1] == L[1]); shortened = And(UGT(IK[0], L[0]), IK[1] == bv(MAXSEQ))
            pre.append(Or(same, shortened))
            if bi + 1 < len(blocks):
                F = w.K(blocks[bi + 1][0][0]); pre.append(klt(IK, F)); pre.append(Implies(shortened, ULT(IK[0], F[0])))
            index.append((ik, mir.mk_struct('BlockHandle', offset=bv(1000 * bi), size=bv(100))))
        S = base_summaries(mir)
        S.update(absiter.summaries(['<BlockIter<InternalKey> as RainDbIterator>::'], w.K))
        S['BlockReader::iter'] = lambda se, env, pc, r: lib.one(env, dict(absiter.make(se.deref(env, r)['entries']), pos=0))   # BlockReader::iter starts at index 0
        S['<BlockHandle as TryFrom<&Vec<u8>>>::try_from'] = lambda se, env, pc, v: lib.one(env, Enum('Ok', (se.deref(env, v),)))
        hoff = mir.field('BlockHandle', 'offset')
        def get_block(se, env, pc, tbl, opts, h, blocks=blocks):
            j = lib.as_int(se.deref(env, h)[hoff]) // 1000
            return lib.one(env, Enum('Ok', ({'entries': blocks[j]},)))
        S['table::Table::get_block_reader'] = get_block; S['Table::get_block_reader'] = get_block
        S['$patterns'][r'<Arc<BlockReader<InternalKey>> as Deref>::deref'] = lib.ident
        S['$patterns'][r'<Arc<Table> as Deref>::deref'] = lib.ptr_deref
        for pat in patterns:
            tk = w.key('t'); T = w.K(tk)
            ex = Exec(mir, S, loop_bound=len(shape) + 5)
            table = mir.mk_struct('Table', index_block={'entries': index}, maybe_filter_block=Enum('None'))
            it = mir.mk_struct('TwoLevelIterator', table=Ref('$table'), read_options={'abstract': True}, index_block_iter=absiter.make(index),
                               maybe_data_block_iter=Enum('None'), data_block_handle=Enum('None'))
            env0 = {'$state': {}, '$t': tk, '$table': table, '$it': it}
            def argv(m, pat, T=T, KE=KE, ents=ents, shape=shape):
                return ['table_iter', ','.join(pat), '%s:%d' % (key_bytes(mval(m, T[0])), mval(m, T[1])), ','.join(str(c) for c in shape)] + \
                       ['%s:%d:%d:%02x' % (key_bytes(mval(m, ke[0])), mval(m, ke[1]), mval(m, ke[2]), mval(m, ents[i][1])) for i, ke in enumerate(KE)]
            drive_cursor(ex, ops, Ref('$it'), pat, [(KE[i], ents[i][1]) for i in range(len(ents))], T, env0, pre, res,
                         lambda opn: 'table iterator: after %s the cursor differs from the sorted entries of the table (validity, key or value)' % opn, argv, w.K,
                         witness_ok=(lambda trace: len(res.witnesses) < 3 and len(trace) >= 3))
            res.absorb(ex)
            for pc, msg, where in ex.panics:
                res.panic_paths += 1; res.violations.append({'label': 'panic path: ' + msg[:80], 'shape': list(shape), 'pattern': pat, 'replay': None})
    # ---- an unreadable (corrupted) data block: a seek that lands in it reports an error, every time
    for shape in [sh for sh in shapes if len(sh) >= 2][:3]:
        for bad in range(len(shape)):
            w = World(mir)
            ents, blocks = [], []
            for bi, cnt in enumerate(shape):
                blk = []
                for j in range(cnt):
                    i = len(ents); e = (w.key('e%d' % i), BitVec('v%d' % i, 8)); ents.append(e); blk.append(e)
                blocks.append(blk)
            KE = [w.K(e[0]) for e in ents]
            pre = list(w.pre) + [klt(KE[i], KE[i + 1]) for i in range(len(ents) - 1)] + [ULT(k[1], bv(MAXSEQ)) for k in KE]
            # index keys by the separator contract (the last key of the block, or a shortened larger user key with the maximal sequence
            # number): a target between a block's last key and its shortened separator is sent to that block by the index and reaches
            # the following - unreadable - block only through skip_empty_data_blocks_forward
            index = []
            for bi, blk in enumerate(blocks):
                ik = w.key('ux%d' % bi); IK = w.K(ik); Lk = w.K(blk[-1][0])
                same = And(IK[0] == Lk[0], IK[1] == Lk[1]); shortened = And(UGT(IK[0], Lk[0]), IK[1] == bv(MAXSEQ))
                pre.append(Or(same, shortened))
                if bi + 1 < len(blocks):
                    Fk = w.K(blocks[bi + 1][0][0]); pre.append(klt(IK, Fk)); pre.append(Implies(shortened, ULT(IK[0], Fk[0])))
                index.append((ik, mir.mk_struct('BlockHandle', offset=bv(1000 * bi), size=bv(100))))
            lo = sum(shape[:bad]); hi = lo + shape[bad] - 1
            tk = w.key('t'); T = w.K(tk)
            pre += [kle(T, KE[hi])] + ([klt(KE[lo - 1], T)] if lo > 0 else [])       # the target lands in the bad block
            S = base_summaries(mir)
            S.update(absiter.summaries(['<BlockIter<InternalKey> as RainDbIterator>::'], w.K))
            S['BlockReader::iter'] = lambda se, env, pc, r: lib.one(env, dict(absiter.make(se.deref(env, r)['entries']), pos=0))   # BlockReader::iter starts at index 0
            S['<BlockHandle as TryFrom<&Vec<u8>>>::try_from'] = lambda se, env, pc, v: lib.one(env, Enum('Ok', (se.deref(env, v),)))
            hoff = mir.field('BlockHandle', 'offset')
            def get_block(se, env, pc, tbl, opts, h, blocks=blocks, bad=bad):
                j = lib.as_int(se.deref(env, h)[hoff]) // 1000
                if j == bad: return lib.one(env, Enum('Err', (Enum('BlockDecompression', (Opaque('corrupt block'),), 'ReadError'),)))
                return lib.one(env, Enum('Ok', ({'entries': blocks[j]},)))
            S['table::Table::get_block_reader'] = get_block; S['Table::get_block_reader'] = get_block
            S['$patterns'][r'<Arc<BlockReader<InternalKey>> as Deref>::deref'] = lib.ident
            S['$patterns'][r'<Arc<Table> as Deref>::deref'] = lib.ptr_deref
            S['$patterns'][r'<RainDBError as From<.*>>::from'] = lambda se, env, pc, e: lib.one(env, Enum('TableRead', (e,), 'RainDBError'))
            ex = Exec(mir, S, loop_bound=len(shape) + 5)
            table = mir.mk_struct('Table', index_block={'entries': index}, maybe_filter_block=Enum('None'))
            it = mir.mk_struct('TwoLevelIterator', table=Ref('$table'), read_options={'abstract': True}, index_block_iter=absiter.make(index),
                               maybe_data_block_iter=Enum('None'), data_block_handle=Enum('None'))
            env0 = {'$state': {}, '$t': tk, '$table': table, '$it': it}
            def corrupt_argv(ex, pc, shape=shape, bad=bad, T=T, KE=KE, ents=ents):
                m = ex.model(*[Extract(7, 0, ke[0]) != BitVecVal(0, 8) for ke in KE])
                if m is None: return None
                return ['table_seek_corrupt', str(bad), '%s:%d' % (key_bytes(mval(m, T[0])), mval(m, T[1])), ','.join(str(c) for c in shape)] + \
                       ['%s:%d:%d:%02x' % (key_bytes(mval(m, ke[0])), mval(m, ke[1]), mval(m, ke[2]), mval(m, ents[i][1])) for i, ke in enumerate(KE)]
            def second(r1, env1, pc1, ex=ex, shape=shape, bad=bad):
                def done(r2, env2, pc2):
                    ex.paths += 1
                    for n, r in ((1, r1), (2, r2)):
                        if not (isinstance(r, Enum) and r.tag == 'Err'):
                            res.violations.append({'label': 'table iterator: seek into an unreadable data block returns Ok (%s attempt); its entries are silently skipped' % ('first' if n == 1 else 'repeated'),
                                                   'shape': list(shape), 'bad_block': bad, 'replay': corrupt_argv(ex, pc2)})
                ex.run_fn(ops['seek'], [Ref('$it'), Ref('$t')], env1, pc1, done)
            ex.top(ops['seek'], [Ref('$it'), Ref('$t')], env0, pre, second)
            res.absorb(ex); res.cases['unreadable block'] = res.cases.get('unreadable block', 0) + 1
    # ---- a transient read error while a step crosses into the neighbouring data block (the block is readable again afterwards):
    # whatever that step reports, a following seek must position the cursor like a fresh iterator would
    LABEL_RESUME = 'table iterator: after a step failed to load the neighbouring data block (transient read error), a seek does not land on the first entry >= target (entries are skipped or repeated when a scan is resumed)'
    for shape in [sh for sh in shapes if len(sh) >= 2][:3]:
        for forward in (True, False):
            w = World(mir)
            ents, blocks = [], []
            for bi, cnt in enumerate(shape):
                blk = []
                for j in range(cnt):
                    i = len(ents); e = (w.key('e%d' % i), BitVec('v%d' % i, 8)); ents.append(e); blk.append(e)
                blocks.append(blk)
            KE = [w.K(e[0]) for e in ents]; n = len(ents)
            pre = list(w.pre) + [klt(KE[i], KE[i + 1]) for i in range(n - 1)]
            index = [(blk[-1][0], mir.mk_struct('BlockHandle', offset=bv(1000 * bi), size=bv(100))) for bi, blk in enumerate(blocks)]
            tk = w.key('t'); T = w.K(tk)
            S = base_summaries(mir)
            S.update(absiter.summaries(['<BlockIter<InternalKey> as RainDbIterator>::'], w.K))
            S['BlockReader::iter'] = lambda se, env, pc, r: lib.one(env, dict(absiter.make(se.deref(env, r)['entries']), pos=0))
            S['<BlockHandle as TryFrom<&Vec<u8>>>::try_from'] = lambda se, env, pc, v: lib.one(env, Enum('Ok', (se.deref(env, v),)))
            hoff = mir.field('BlockHandle', 'offset')
            def get_block(se, env, pc, tbl, opts, h, blocks=blocks):
                j = lib.as_int(se.deref(env, h)[hoff]) // 1000
                st = env['$state']
                if st.get('armed'):
                    return [(None, Enum('Err', (Enum('BlockDecompression', (Opaque('transient read error'),), 'ReadError'),)), dict(st, armed=False, failed=st.get('failed', 0) + 1))]
                return [(None, Enum('Ok', ({'entries': blocks[j]},)), st)]
            S['table::Table::get_block_reader'] = get_block; S['Table::get_block_reader'] = get_block
            S['$patterns'][r'<Arc<BlockReader<InternalKey>> as Deref>::deref'] = lib.ident
            S['$patterns'][r'<Arc<Table> as Deref>::deref'] = lib.ptr_deref
            S['$patterns'][r'<RainDBError as From<.*>>::from'] = lambda se, env, pc, e: lib.one(env, Enum('TableRead', (e,), 'RainDBError'))
            ex = Exec(mir, S, loop_bound=len(shape) + 5, opaque_calls_ok=True)
            table = mir.mk_struct('Table', index_block={'entries': index}, maybe_filter_block=Enum('None'))
            it = mir.mk_struct('TwoLevelIterator', table=Ref('$table'), read_options={'abstract': True}, index_block_iter=absiter.make(index),
                               maybe_data_block_iter=Enum('None'), data_block_handle=Enum('None'))
            env0 = {'$state': {}, '$t': tk, '$table': table, '$it': it}
            steps = shape[0] if forward else shape[-1]        # this many steps leave the first (last) block; the last of them loads the neighbour
            def after_seek(ret, env, pc, ex=ex, KE=KE, ents=ents, n=n, T=T, forward=forward, shape=shape):
                if env['$state'].get('failed', 0) != 1: return       # the crossing step did not load a block on this path
                def got_valid(v, env3, pc3):
                    def got_cur(cur, env4, pc4):
                        obs = None
                        if isinstance(cur, Enum) and cur.tag == 'Some':
                            kv = cur.fields[0]; obs = (w.K(ex.deref(env4, kv[0])), ex.deref(env4, kv[1]))
                        ex.paths += 1
                        err = isinstance(ret, Enum) and ret.tag == 'Err'
                        for sp in range(n + 1):
                            cond = And(*[klt(KE[j], T) for j in range(sp)], *([Not(klt(KE[sp], T))] if sp < n else []))
                            if sp == n: ok = And(Not(v), BoolVal(obs is None)) if not isinstance(v, bool) else BoolVal(obs is None and not v)
                            elif obs is None: ok = BoolVal(False)
                            else: ok = And(v, keq(obs[0], KE[sp]), obs[0][2] == KE[sp][2], obs[1] == ents[sp][1])
                            if err: ok = BoolVal(False)
                            res.checked = getattr(res, 'checked', 0) + 1
                            ex.record_formula(LABEL_RESUME, pc4 + [cond], Not(ok))
                            m = ex.model(cond, Not(ok))
                            if m is not None:
                                res.violations.append({'label': LABEL_RESUME, 'shape': list(shape), 'direction': 'forward' if forward else 'backward', 'replay': ['iter_resume_after_read_fault']}); return
                    ex.run_fn(ops['current'], [Ref('$it')], env3, pc3, got_cur)
                ex.run_fn(ops['is_valid'], [Ref('$it')], env, pc, got_valid)
            def step(i, env, pc, ex=ex, steps=steps, forward=forward):
                if i == steps:
                    return ex.run_fn(ops['seek'], [Ref('$it'), Ref('$t')], env, pc, after_seek)
                e = dict(env)
                if i == steps - 1: e['$state'] = dict(e['$state'], armed=True)
                ex.run_fn(ops['next' if forward else 'prev'], [Ref('$it')], e, pc, lambda r, e2, p2: step(i + 1, e2, p2))
            ex.top(ops['seek_to_first' if forward else 'seek_to_last'], [Ref('$it')], env0, pre, lambda r, e, p: step(0, e, p))
            res.absorb(ex); res.cases['transient read error at a block crossing'] = res.cases.get('transient read error at a block crossing', 0) + 1
    res.wall_s = time.time() - t0
    if res.violations: res.status = 'violation'
    return res


def _table_iter_ref(argv):
    pat = argv[1].split(','); t = argv[2].split(':'); T = (int(t[0], 16), -int(t[1]))
    ents = []
    for e in argv[4:]:
        p = e.split(':'); ents.append(((int(p[0], 16), -int(p[1])), int(p[3], 16)))
    pos, out = None, []
    for op in pat:
        sp = len([e for e in ents if e[0] < T])
        r = ref_cursor(op, pos, len(ents), sp)
        if r == 'stop': break
        pos = r
        out.append('none' if pos is None else '%04x:%d:%02x' % (ents[pos][0][0], -ents[pos][0][1], ents[pos][1]))
    return out


def o4_3_confirm(v, out):
    if v['replay'][0] == 'iter_resume_after_read_fault':
        if out.get('_rc') != 0: return (True, 'native scan panicked / failed: %s' % out.get('_stderr', '')[-300:])
        return (out.get('bad', '0') != '0', 'native: forward and backward scans over a 300-key table resumed with seek after every failed block load (%s faults): %s resumed scans lose their place (first: %s)'
                % (out.get('faults_injected'), out.get('bad'), out.get('first_bad')))
    if v['replay'][0] == 'table_seek_corrupt':
        if out.get('_rc') != 0: return (False, 'native run failed: %s' % out.get('_stderr', '')[-300:])
        bad = out.get('first_seek') == 'ok' or out.get('second_seek') == 'ok'
        return (bad, 'native: data block corrupted on disk; first seek %s, repeated seek %s, cursor then at %s' % (out.get('first_seek'), out.get('second_seek'), out.get('cursor')))
    if out.get('_rc') != 0: return (True, 'native iterator panicked: %s' % out.get('_stderr', '')[-300:])
    exp = _table_iter_ref(v['replay']); got = out.get('cursor', '').split(',')[:len(exp)]
    return (got != exp, 'native cursor %s, reference cursor %s' % (got, exp))


def o4_3_witness_ok(w, out):
    if out.get('_rc') != 0: return False
    exp = _table_iter_ref(w['replay']); got = out.get('cursor', '').split(',')[:len(exp)]
    return got == exp


def _merge_ref(argv):
    pat = argv[1].split(','); t = argv[2].split(':'); T = (int(t[0], 16), -int(t[1]))
    ents = []
    for ch in argv[3:]:
        if ch == '-': continue
        for e in ch.split('/'):
            p = e.split(':'); ents.append(((int(p[0], 16), -int(p[1])), int(p[3], 16)))
    ents.sort(key=lambda e: e[0])
    pos, out = None, []
    for op in pat:
        sp = len([e for e in ents if e[0] < T])
        r = ref_cursor(op, pos, len(ents), sp)
        if r == 'stop': break
        pos = r
        out.append('none' if pos is None else '%04x:%d:%02x' % (ents[pos][0][0], -ents[pos][0][1], ents[pos][1]))
    return out


def o4_1_confirm(v, out):
    if v['replay'][0] == 'exhausted_iterator_pin':
        if out.get('_rc') != 0: return (True, 'native run panicked / failed: %s' % out.get('_stderr', '')[-300:])
        bad = out.get('pinned_table_on_disk') != 'true' or out.get('view_ok') != 'true'
        return (bad, 'an iterator is scanned to its end and kept; the data is overwritten and compacted: the table it read (%s) still on disk: %s (tables %s); a second scan through the same iterator shows %s'
                % (out.get('pinned_table'), out.get('pinned_table_on_disk'), out.get('tables_on_disk'), out.get('iterator_view')))
    if out.get('_rc') != 0: return (True, 'native iterator panicked: %s' % out.get('_stderr', '')[-300:])
    exp = _merge_ref(v['replay']); got = out.get('cursor', '').split(',')[:len(exp)]
    return (got != exp, 'native cursor %s, merged-array cursor %s' % (got, exp))


def o4_1_witness_ok(w, out):
    if out.get('_rc') != 0: return False
    exp = _merge_ref(w['replay']); got = out.get('cursor', '').split(',')[:len(exp)]
    return got == exp


# =============================================================== O4.2 DatabaseIterator
def compositions(n):
    if n == 0: yield []; return
    for first in range(1, n + 1):
        for rest in compositions(n - first): yield [first] + rest


def o4_2_database_iterator(mir, tier):
    """DatabaseIterator over an abstract inner merging iterator: it is positioned exactly where a cursor over the visible
    (user key -> value) pairs at the iterator's sequence number would be."""
    ops = {n: mir.method('DatabaseIterator', n, 'RainDbIterator') for n in ('seek', 'seek_to_first', 'seek_to_last', 'next', 'prev', 'is_valid', 'current')}
    E_MAX = 3 if tier == 'quick' else 4
    patterns = QUICK_PATTERNS if tier == 'quick' else [list(p) for L in (3, 4) for p in itertools.product(['first', 'last', 'seek', 'next', 'prev'], repeat=L) if p[0] in ('first', 'last', 'seek')]
    res = Result('O4.2 DatabaseIterator vs cursor over the visible pairs', [f.path for f in ops.values()] + ['find_next_client_entry, find_prev_client_entry (inlined)'],
                 'inner iterator = RainDbIterator contract over 1..%d sorted internal entries (free user keys, sequences, tags, values), every grouping of the entries into user keys; iterator sequence number free; '
                 '%d cursor patterns of length <= 4 with a free seek target; read sampling summarised as a no-op' % (E_MAX, len(patterns)))
    t0 = time.time()
    opname = {'first': 'seek_to_first', 'last': 'seek_to_last', 'seek': 'seek', 'next': 'next', 'prev': 'prev'}
    # deep version stacks: one user key with 10 versions (most of them newer than the iterator's sequence number) next to other keys -
    # long runs of entries the iterator has to step over (a "skip ahead after k entries" shortcut lives there); few patterns
    DEEP = [(11, (10, 1))]
    DEEP_PATTERNS = [['first', 'next'], ['seek', 'next'], ['last', 'prev']]
    all_shapes = [(n, comp, DEEP_PATTERNS) for n, comp in DEEP] + [(n, comp, patterns) for n in range(1, E_MAX + 1) for comp in compositions(n)]      # deep stacks first: the thorough tier has a time budget
    if True:
        for n, comp, patterns in all_shapes:
            w = World(mir)
            keys = [w.key('e%d' % i) for i in range(n)]; vals = [BitVec('val%d' % i, 8) for i in range(n)]
            KE = [w.K(k) for k in keys]
            snap = BitVec('iterator_sequence', 64); tgt = BitVec('target', 16)
            groups, i0 = [], 0
            for c in comp: groups.append(list(range(i0, i0 + c))); i0 += c
            pre = list(w.pre) + [ULT(k[1], bv(MAXSEQ)) for k in KE] + [ULT(snap, bv(MAXSEQ))]
            for g in groups:
                pre += [KE[g[j]][0] == KE[g[0]][0] for j in range(1, len(g))] + [UGT(KE[g[j]][1], KE[g[j + 1]][1]) for j in range(len(g) - 1)]
            pre += [ULT(KE[groups[j][0]][0], KE[groups[j + 1][0]][0]) for j in range(len(groups) - 1)]
            if n > E_MAX:
                # deep stack: the entries of the long group are puts, at least 9 of them newer than the iterator's sequence number (the run to step over)
                for g in groups:
                    if len(g) >= 10: pre += [KE[j][2] == bv(1) for j in g[:-1]] + [UGT(KE[g[8]][1], snap)]
            m = len(groups)
            # per group: visible?, value
            gvis, gval, gkey = [], [], []
            for g in groups:
                vis, val = BoolVal(False), vals[g[-1]]
                for j in reversed(g):       # oldest first so that the newest qualifying entry wins
                    q = ULE(KE[j][1], snap)
                    vis = If(q, KE[j][2] == bv(1), vis); val = If(q, vals[j], val)
                gvis.append(vis); gval.append(val); gkey.append(KE[g[0]][0])
            def sel(pos, arr):       # arr[pos] for a symbolic position
                out = arr[-1]
                for j in range(m - 2, -1, -1): out = If(pos == bv(j), arr[j], out)
                return out
            NONE = bv(99)
            def first_from(lo_cond):  # smallest group index g with gvis[g] and lo_cond(g)
                out = NONE
                for g in range(m - 1, -1, -1): out = If(And(gvis[g], lo_cond(g)), bv(g), out)
                return out
            def last_upto(hi_cond):
                out = NONE
                for g in range(m): out = If(And(gvis[g], hi_cond(g)), bv(g), out)
                return out
            S = base_summaries(mir)
            S.update(absiter.summaries(['<MergingIterator as RainDbIterator>::'], w.K))
            S['$patterns'][r'DatabaseIterator::sample_read_stats_for_current_key'] = lib.unit
            S['$patterns'][r'<Vec<u8> as Clone>::clone'] = lib.clone_deep
            for pat in patterns:
                if tier != 'quick' and time.time() - t0 > 5400:
                    # thorough tier: all 750 patterns over 15 groupings did not finish in 50 minutes when measured; what is not explored is listed
                    key_ = 'patterns not explored (time budget of 5400 s), grouping %s' % (comp,)
                    res.cases[key_] = res.cases.get(key_, 0) + 1
                    continue
                ex = Exec(mir, S, loop_bound=n + 4)
                it = mir.mk_struct('DatabaseIterator', db_state={'abstract': True}, compaction_worker='worker', direction=Enum('Forward', (), 'DbIterationDirection'),
                                   inner_iter=absiter.make([(keys[i], vals[i]) for i in range(n)]), sequence_snapshot=snap, is_valid=BoolVal(False), rng='rng', distribution='dist',
                                   bytes_until_read_sampling=bv(0), cached_user_key=Enum('None'), cached_value=Enum('None'))
                env0 = {'$state': {}, '$it': it, '$t': tgt}
                def argv(mm, upto, pat=pat, KE=KE, n=n):
                    ents = sorted([(mval(mm, KE[i][1]), mval(mm, KE[i][0]), mval(mm, KE[i][2]), mval(mm, vals[i])) for i in range(n)])
                    steps, snapped = [], False
                    sv = mval(mm, snap)
                    if all(e[0] > sv for e in ents): steps.append('S'); snapped = True
                    for j, e in enumerate(ents):
                        steps.append(('P%s=%02x' % (key_bytes(e[1]), e[3])) if e[2] == 1 else 'D%s' % key_bytes(e[1]))
                        if not snapped and e[0] <= sv and (j + 1 == len(ents) or ents[j + 1][0] > sv): steps.append('S'); snapped = True
                        if j % 2 == 0: steps.append('F')
                    steps.append('U%s:%s@0' % ('.'.join(pat[:upto]), key_bytes(mval(mm, tgt))))
                    return ['db_scenario'] + steps
                def drive(env, pc, i, pos, first_call=False):
                    # pos: symbolic group index of the reference cursor (NONE = invalid)
                    if i == len(pat): ex.paths += 1; return
                    op = pat[i]
                    def after(ret, env2, pc2):
                        if op == 'first': exp = first_from(lambda g: BoolVal(True))
                        elif op == 'last': exp = last_upto(lambda g: BoolVal(True))
                        elif op == 'seek': exp = first_from(lambda g: UGE(gkey[g], tgt))
                        elif op == 'next': exp = first_from(lambda g: UGT(bv(g), pos))
                        else: exp = last_upto(lambda g: ULT(bv(g), pos))
                        obs_valid = ex.deref(env2, Ref('$it'))[mir.field('DatabaseIterator', 'is_valid')]
                        label = 'database iterator: after %s the cursor differs from the cursor over the visible key-value pairs' % opname[op]
                        def check_and_go(cur, env3, pc3, obs_valid=obs_valid):
                            if cur is None: post = exp == NONE
                            else:
                                kv = cur.fields[0]
                                ok_key = ex.deref(env3, kv[0]) == sel(exp, gkey); ok_val = ex.deref(env3, kv[1]) == sel(exp, gval)
                                post = And(exp != NONE, ok_key, ok_val)
                            ex.record_formula(label, pc3, Not(post))
                            mm = ex.model(Not(post))
                            if mm is not None:
                                dbg = {'entries': [(mval(mm, KE[j][0]), mval(mm, KE[j][1]), mval(mm, KE[j][2]), mval(mm, vals[j])) for j in range(n)], 'iterator_sequence': mval(mm, snap), 'target': mval(mm, tgt),
                                       'expected_group': mval(mm, exp), 'observed': None if cur is None else (mval(mm, ex.deref(env3, cur.fields[0][0])), mval(mm, ex.deref(env3, cur.fields[0][1])))}
                                res.violations.append({'label': label, 'pattern': pat[:i + 1], 'grouping': comp, 'debug': dbg, 'replay': argv(mm, i + 1)}); return
                            if cur is None: ex.paths += 1; return
                            drive(env3, pc3, i + 1, exp)
                        v = simplify(obs_valid) if not isinstance(obs_valid, bool) else BoolVal(obs_valid)
                        from z3 import is_true as _t, is_false as _f
                        if _f(v): return check_and_go(None, env2, pc2)
                        if not _t(v): raise Inconclusive('symbolic validity flag')
                        ex.run_fn(ops['current'], [Ref('$it')], env2, pc2, lambda cur, e3, p3: check_and_go(cur, e3, p3))
                    args = [Ref('$it')] + ([Ref('$t')] if op == 'seek' else [])
                    ex.run_fn(ops[opname[op]], args, env, pc, after)
                ex.solver.push(); ex.solver.add(*pre)
                try: drive(env0, list(pre), 0, NONE)
                finally: ex.solver.pop()
                res.absorb(ex)
                for pc, msg, where in ex.panics:
                    res.panic_paths += 1; res.violations.append({'label': 'panic path: ' + msg[:80], 'grouping': comp, 'pattern': pat, 'replay': None})
    res.wall_s = time.time() - t0
    if res.violations: res.status = 'violation'
    return res


def o4_2_confirm(v, out):
    from .. import dbmodel
    return dbmodel.compare(v['replay'][1:], out)


# =============================================================== O4.8 BlockIter
def o4_8_block_iter(mir, tier):
    """BlockIter<K> (the cursor over the parsed entries of one block; K = InternalKey: `<K as Ord>::cmp` / `<K as PartialEq>::eq` are
    the real InternalKey functions) = cursor over the entry vector, for the cursor patterns of O4.1-O4.3 with a free seek target
    (equal to a stored key up to the operation tag included)."""
    ops = {n: mir.method('BlockIter', n, 'RainDbIterator') for n in ('seek', 'seek_to_first', 'seek_to_last', 'next', 'prev', 'is_valid', 'current')}
    sizes = (1, 2, 3) if tier == 'quick' else (1, 2, 3, 4, 5)
    patterns = QUICK_PATTERNS if tier == 'quick' else [list(p) for L in (3, 4) for p in itertools.product(['first', 'last', 'seek', 'next', 'prev'], repeat=L) if p[0] in ('first', 'last', 'seek')]
    res = Result('O4.8 BlockIter vs the entries of its block', [f.path for f in ops.values()] + ['<InternalKey as Ord>::cmp, <InternalKey as PartialEq>::eq (for K)'],
                 'blocks of %s parsed entries (sorted, free keys / values); %d cursor patterns of length <= 4 with a free seek target' % (sizes, len(patterns)))
    t0 = time.time()
    cmp_fn = mir.method('InternalKey', 'cmp', 'Ord'); eq_fn = mir.method('InternalKey', 'eq', 'PartialEq')
    for N in sizes:
        w = World(mir)
        ents = [(w.key('e%d' % i), BitVec('v%d' % i, 8)) for i in range(N)]
        KE = [w.K(e[0]) for e in ents]
        pre = list(w.pre) + [klt(KE[i], KE[i + 1]) for i in range(N - 1)]
        for pat in patterns:
            tk = w.key('t'); T = w.K(tk)
            S = base_summaries(mir); P = S['$patterns']
            P[r'<K as Ord>::cmp'] = lambda se, env, pc, a, b: Delegate(cmp_fn, [a, b], lambda r: r)
            P[r'<K as PartialEq>::eq'] = lambda se, env, pc, a, b: Delegate(eq_fn, [a, b], lambda r: r, merge=True)
            P[r'<Arc<Vec<BlockEntry<K>>> as Deref>::deref'] = lib.ptr_deref
            for pat_, f_ in lib.ref_partial_ord(mir, 'InternalKey').items():          # every comparison on K is InternalKey's
                P[pat_.replace('InternalKey', 'K')] = f_
            P[r'<K as PartialOrd>::partial_cmp'] = lambda se, env, pc, a, b: Delegate(mir.method('InternalKey', 'partial_cmp', 'PartialOrd'), [a, b], lambda r: r)
            ex = Exec(mir, S, loop_bound=N + 4)
            blk = [mir.mk_struct('BlockEntry', block_offset=bv(0), key_num_shared_bytes=BitVecVal(0, 32), key_num_unshared_bytes=BitVecVal(0, 32), value_length=BitVecVal(1, 32), key_delta=[], key=e[0], value=e[1]) for e in ents]
            it = mir.mk_struct('BlockIter', current_index=bv(0), block_entries=blk)
            env0 = {'$state': {}, '$it': it, '$t': tk}
            def argv(m, pat, N=N, KE=KE, ents=ents, T=T):
                es = ['%s:%d:%d:%02x' % (key_bytes(mval(m, KE[i][0])), mval(m, KE[i][1]), mval(m, KE[i][2]), mval(m, ents[i][1])) for i in range(N)]
                return ['block_iter', ','.join(pat), '%s:%d' % (key_bytes(mval(m, T[0])), mval(m, T[1]))] + es
            drive_cursor(ex, ops, Ref('$it'), pat, [(KE[i], ents[i][1]) for i in range(N)], T, env0, pre + [ULT(k[1], bv(MAXSEQ)) for k in KE] + [ULT(T[1], bv(MAXSEQ))], res,
                         lambda opn: 'block iterator: after %s the cursor differs from the entries of the block (validity, key or value)' % opn, argv, w.K)
            res.absorb(ex)
    res.wall_s = time.time() - t0
    if res.violations: res.status = 'violation'
    return res


def o4_8_confirm(v, out):
    """Native: the entries are written with the real BlockBuilder, parsed by the real BlockReader, and its iterator is driven through
    the pattern; the reference cursor is computed over the entry list."""
    if out.get('_rc') != 0: return (True, 'native block iterator panicked: %s' % out.get('_stderr', '')[-200:])
    return (out.get('cursor') != out.get('expected'), 'native cursor %s, cursor over the entry list %s' % (out.get('cursor'), out.get('expected')))
