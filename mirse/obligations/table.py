"""O1.6 / O3.1 / O13.3: the tri-state of Table::get over abstract index / data block cursors."""
import time
from z3 import Extract, Concat, BitVec, BitVecVal, Bool, BoolVal, And, Or, Not, Implies, ULT, ULE, UGT, UGE, If, simplify
from ..exec import Exec, Enum, Ref, Opaque, Inconclusive, bv
from ..ob import World, Result, klt, kle, keq, mval, key_bytes, MAXSEQ
from .. import lib, absiter
from .version import base_summaries


def o1_6_table_get(mir, tier):
    fn = mir.method('Table', 'get')
    hint = []
    shapes = [(1,), (2,), (1, 1), (2, 1), (1, 2)] if tier == 'quick' else [(1,), (2,), (3,), (1, 1), (2, 1), (1, 2), (2, 2), (1, 1, 1), (2, 1, 1), (1, 2, 1)]
    res = Result('O1.6 Table::get tri-state', [fn.path],
                 'tables with data blocks of %s entries; index keys constrained by the separator contract (last key of the block, or a strictly larger user key with the maximal sequence number, below the next block); '
                 'with and without a filter block (filter contract: true for every user key stored in the block)' % (shapes,))
    t0 = time.time()
    for shape in shapes:
        for with_filter in (False, True):
            w = World(mir)
            ents, blocks = [], []
            for bi, cnt in enumerate(shape):
                blk = []
                for j in range(cnt):
                    i = len(ents)
                    k = w.key('e%d' % i); e = (k, BitVec('v%d' % i, 8)); ents.append(e); blk.append(e)
                blocks.append(blk)
            KE = [w.K(e[0]) for e in ents]
            inv = list(w.pre) + [klt(KE[i], KE[i + 1]) for i in range(len(ents) - 1)] + [ULT(k[1], bv(MAXSEQ)) for k in KE]
            index = []
            hint = [Extract(7, 0, k[0]) != BitVecVal(0, 8) for k in KE]      # see o1_6_confirm: steer models towards what the real separator code emits for 2-byte keys
            pos = 0
            for bi, blk in enumerate(blocks):
                ik = w.key('ix%d' % bi); IK = w.K(ik)
                L = w.K(blk[-1][0])
                same = And(IK[0] == L[0], IK[1] == L[1])
                shortened = And(UGT(IK[0], L[0]), IK[1] == bv(MAXSEQ))
                inv.append(Or(same, shortened))
                if bi + 1 < len(blocks):
                    F = w.K(blocks[bi + 1][0][0])
                    inv.append(klt(IK, F)); inv.append(Implies(shortened, ULT(IK[0], F[0])))
                hi = Extract(15, 8, L[0])
                short_key = Concat(hi + BitVecVal(1, 8), BitVecVal(0, 8))
                if bi + 1 < len(blocks):
                    fhi = Extract(15, 8, w.K(blocks[bi + 1][0][0])[0])
                    can = And(hi != BitVecVal(255, 8), ULT(hi + BitVecVal(1, 8), fhi))
                else:
                    can = hi != BitVecVal(255, 8)
                hint.append(If(can, And(shortened, IK[0] == short_key), same))
                index.append((ik, {'handle': bi}))
            tk = w.key('t', op=bv(1)); T = w.K(tk)
            hint.append(Extract(7, 0, T[0]) != BitVecVal(0, 8))
            S = base_summaries(mir)
            S.update(absiter.summaries(['<BlockIter<InternalKey> as RainDbIterator>::'], w.K))
            S['BlockReader::iter'] = lambda se, env, pc, r: lib.one(env, absiter.make(se.deref(env, r)['entries']))
            S['<BlockHandle as TryFrom<&Vec<u8>>>::try_from'] = lambda se, env, pc, v: lib.one(env, Enum('Ok', (se.deref(env, v),)))
            S['BlockHandle::get_offset'] = lambda se, env, pc, h: lib.one(env, se.deref(env, h)['handle'])
            S['table::Table::get_block_reader'] = lambda se, env, pc, tbl, opts, h: lib.one(env, Enum('Ok', ({'entries': blocks[se.deref(env, h)['handle']]},)))
            S['Table::get_block_reader'] = S['table::Table::get_block_reader']
            def may_match(se, env, pc, fb, off, ukey):
                st = dict(env['$state']); b = Bool('filter_%d_%d' % (off, len(st['filter']))); st['filter'] = st['filter'] + [(off, b)]
                uk = se.deref(env, ukey)
                st['filter_pre'] = st['filter_pre'] + [Implies(Or(*[w.K(e[0])[0] == uk for e in blocks[off]]), b)]
                return [(None, b, st)]
            S['FilterBlockReader::key_may_match'] = may_match
            ex = Exec(mir, S, loop_bound=6)
            def k(ret, env, pc, ex=ex, shape=shape, with_filter=with_filter, KE=KE, ents=ents, T=T):
                fpre = env['$state']['filter_pre']
                vis = [And(ke[0] == T[0], ULE(ke[1], T[1])) for ke in KE]
                first = [And(vis[i], *[Not(v) for v in vis[:i]]) for i in range(len(ents))]
                none_vis = And(*[Not(v) for v in vis])
                is_put = [ke[2] == bv(1) for ke in KE]
                kind = None
                if isinstance(ret, Enum) and ret.tag == 'Err':
                    e = ret.fields[0]
                    kind = 'Err(%s)' % (e.tag if isinstance(e, Enum) else e)
                    ok = none_vis if isinstance(e, Enum) and e.tag == 'KeyNotFound' else BoolVal(False)
                elif isinstance(ret, Enum) and ret.tag == 'Ok' and ret.fields[0].tag == 'None':
                    kind = 'Ok(None)'
                    ok = Or(*[And(first[i], Not(is_put[i])) for i in range(len(ents))])
                elif isinstance(ret, Enum) and ret.tag == 'Ok' and ret.fields[0].tag == 'Some':
                    kind = 'Ok(Some)'
                    val = ret.fields[0].fields[0]
                    ok = Or(*[And(first[i], is_put[i], val == ents[i][1]) for i in range(len(ents))])
                else: raise Inconclusive('unexpected return %r' % (ret,))
                res.cases[kind] = res.cases.get(kind, 0) + 1
                label = {'Ok(None)': 'returns Ok(None) ("deleted") although the newest visible entry is not a tombstone (or no entry is visible)',
                         'Ok(Some)': 'returns a value that is not the newest visible put',
                         'Err(KeyNotFound)': 'returns KeyNotFound although an entry of the key is visible at the bound'}.get(kind, 'returns an unexpected error ' + kind)
                def argv(m):
                    a = ['table_get', '%s:%d' % (key_bytes(mval(m, T[0])), mval(m, T[1])), ','.join(str(c) for c in shape)]
                    for i, ke in enumerate(KE): a.append('%s:%d:%d:%02x' % (key_bytes(mval(m, ke[0])), mval(m, ke[1]), mval(m, ke[2]), mval(m, ents[i][1])))
                    return a
                ex.record_formula(label, pc + fpre, Not(ok))
                m = ex.model(Not(ok), *fpre)
                if m is not None:
                    m = ex.model(Not(ok), *(fpre + hint)) or m
                    # classify the D2 shape: index cursor ran past its end
                    res.violations.append({'label': label, 'shape': list(shape), 'filter': with_filter, 'executor_result': kind, 'replay': argv(m),
                                           'index_keys': [[mval(m, x) for x in w.K(ik)[:2]] for ik, _ in index]})
                elif len(res.witnesses) < 4 and not with_filter and len(ents) >= 2:
                    m = ex.model(*fpre)
                    if m is not None: res.witnesses.append({'executor_result': kind, 'replay': argv(m), 'index_keys': [[mval(m, x) for x in w.K(ik)[:2]] for ik, _ in index]})
            table = mir.mk_struct('Table', index_block={'entries': index}, maybe_filter_block=Enum('Some', ('filter',)) if with_filter else Enum('None'),
                                  options={'abstract': True}, file='file', cache_partition_id=bv(0), footer='footer')
            env = {'$state': {'filter': [], 'filter_pre': []}, '$table': table, '$t': tk, '$ro': {'abstract': True}}
            ex.top(fn, [Ref('$table'), Ref('$ro'), Ref('$t')], env, inv, k)
            res.absorb(ex)
            for pc, msg, where in ex.panics:
                res.panic_paths += 1; res.violations.append({'label': 'panic path: ' + msg[:80], 'shape': list(shape), 'replay': None})
    res.wall_s = time.time() - t0
    if res.violations: res.status = 'violation'
    return res


def _ref_table_get(T, ents):
    vis = [e for e in ents if e[0] == T[0] and e[1] <= T[1]]
    if not vis: return 'Err(KeyNotFound)', None
    e = max(vis, key=lambda e: e[1])
    return ('Ok(Some)', e[3]) if e[2] == 1 else ('Ok(None)', None)


def o1_6_confirm(v, out):
    """Native: the entries are written with the real TableBuilder (block size forced so that the block layout matches the
    shape), then the real Table::get is called. The native index keys come from the real separator code, so the solver's
    index keys need not be reproduced exactly: what is compared is the native answer against the reference."""
    if out.get('_rc') != 0: return (False, 'native run failed: %s' % out.get('_stderr', '')[-300:])
    a = v['replay']; t = a[1].split(':'); T = (int(t[0], 16), int(t[1]))
    ents = []
    for tok in a[3:]:
        p = tok.split(':'); ents.append((int(p[0], 16), int(p[1]), int(p[2]), int(p[3], 16)))
    exp = _ref_table_get(T, ents)
    got = (out['result'], int(out['value'], 16) if out.get('value') not in (None, '-') and out['result'] == 'Ok(Some)' else None)
    return (got != exp, 'native %s, reference %s (blocks as built natively: %s)' % (got, exp, out.get('blocks')))


def o1_6_witness_ok(w, out):
    return out.get('_rc') == 0 and out.get('result') == w['executor_result']
