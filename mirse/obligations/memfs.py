"""O12.7 InMemoryFileSystem::create_file + one write: the in-memory file system honours the append / truncate contract the log
writer (and every obligation that treats the file system by contract) relies on."""
import time
from z3 import BitVec, BitVecVal, Bool, BoolVal, And, Or, Not, ULT, ULE, UGE, If
from ..exec import Exec, Enum, Ref, Opaque, Inconclusive, bv
from ..ob import Result, mval
from .. import lib


def o12_7_memfs_create(mir, tier):
    """The path exists (contents of L bytes, the shared cursor anywhere in 0..=L: other handles - a reader that stopped early, a size
    query - leave it behind) or not.  create_file(path, append) followed by one write of n > 0 bytes through the returned handle.
    Reference: append on an existing file keeps all L bytes and adds n; otherwise the file holds exactly the n new bytes."""
    fn = [f for f in mir.fns.values() if f.name == 'create_file' and 'fs_mem' in f.path]
    wr = [f for f in mir.fns.values() if f.name == 'write' and 'fs_mem' in f.path and f.self_ty == 'LockableInMemoryFile']
    if len(fn) != 1 or len(wr) != 1: raise Inconclusive('fs_mem create_file / write not found uniquely (%d, %d)' % (len(fn), len(wr)))
    fn, wr = fn[0], wr[0]
    res = Result('O12.7 InMemoryFileSystem::create_file + write', [fn.path, wr.path, 'InMemoryFile::len, LockableInMemoryFile::new / clone (inlined)'],
                 'existing file (length L < 2^40, cursor 0..=L free) or none; append flag free; one write of n bytes (1 <= n < 2^30)')
    t0 = time.time()
    ff = mir.struct_fields('InMemoryFile')
    for exists in (False, True):
        S = lib.std_summaries(); P = S['$patterns']
        L, c, n, app = BitVec('existing_length', 64), BitVec('stale_cursor', 64), BitVec('bytes_written', 64), Bool('append')
        pre = [ULT(L, bv(1 << 40)), ULE(c, L), UGE(n, bv(1)), ULT(n, bv(1 << 30))]
        P[r'parking_lot::lock_api::RwLock::(?:read|write)'] = lib.ident
        P[r'<parking_lot::lock_api::RwLock(?:Read|Write)Guard<.*> as Deref(?:Mut)?>::deref(?:_mut)?'] = lib.ptr_deref
        P[r'<Arc<parking_lot::lock_api::RwLock<.*>> as Deref>::deref'] = lib.ptr_deref
        P[r'Path::to_path_buf'] = lib.ident
        P[r'parking_lot::lock_api::RwLock::new'] = lib.ident
        def get_mut(se, env, pc, m, p, exists=exists):
            return lib.one(env, Enum('Some', (Ref('$file'),)) if exists else Enum('None'))
        P[r'HashMap::get_mut'] = get_mut
        P[r'HashMap::get'] = lambda se, env, pc, m, p: lib.one(env, Enum('Some', (Ref('$file'),)))
        def insert(se, env, pc, m, p, f):
            env['$file'] = f; st = dict(env['$state']); st['replaced'] = True; env['$state'] = st
            return lib.one(env, Enum('None'))
        P[r'HashMap::insert'] = insert
        P[r'Arc::new'] = lambda se, env, pc, x: (env.__setitem__('$inner%d' % len([k for k in env if str(k).startswith('$inner')]), x), lib.one(env, Ref('$inner%d' % (len([k for k in env if str(k).startswith('$inner')]) - 1))))[1]
        P[r'<Arc<.*> as Clone>::clone'] = lambda se, env, pc, a: lib.one(env, se.deref(env, a) if isinstance(se.deref(env, a), Ref) else a)
        P[r'Arc::clone'] = P[r'<Arc<.*> as Clone>::clone']
        P[r'Vec::new'] = lambda se, env, pc: lib.one(env, {'len': bv(0), 'kind': 'contents', 'off': bv(0)})
        P[r'Vec::len'] = lambda se, env, pc, v: lib.one(env, (se.deref(env, v) if isinstance(v, Ref) else v)['len'])
        def truncate(se, env, pc, v, k):
            b = dict(se.deref(env, v)); b['len'] = If(ULT(k, b['len']), k, b['len']); b['truncated_to'] = k; se.store(env, v, b); return lib.one(env, ())
        P[r'Vec::truncate'] = truncate
        def write_all(se, env, pc, v, data):
            b = dict(se.deref(env, v)); d = se.deref(env, data) if isinstance(data, Ref) else data
            b['len'] = b['len'] + d['len']; se.store(env, v, b); return lib.one(env, Enum('Ok', ((),)))
        P[r'<Vec<u8> as (?:std::io::)?Write>::write_all'] = write_all
        P[r'core::slice::<impl \[.*\]>::len'] = lambda se, env, pc, v: lib.one(env, (se.deref(env, v) if isinstance(v, Ref) else v)['len'])
        P[r'<Result<.*> as FromResidual<Result<Infallible, .*>>>::from_residual'] = lambda se, env, pc, r: lib.one(env, r)
        ex = Exec(mir, S, loop_bound=4)
        def created(ret, env, pc, ex=ex, exists=exists):
            if not (isinstance(ret, Enum) and ret.tag == 'Ok'):
                res.violations.append({'label': 'create_file fails on the in-memory file system', 'replay': None, 'confirmed_by': {'reproduced': False, 'detail': ''}}); return
            e = dict(env); e['$handle'] = ret.fields[0]
            def written(r2, env2, pc2):
                h = ex.deref(env2, Ref('$handle'))
                while isinstance(h, Ref): h = ex.deref(env2, h)
                inner = h[0] if isinstance(h, dict) and 0 in h else h
                while isinstance(inner, Ref): inner = ex.deref(env2, inner)
                contents = inner[ff.index('contents')]
                kept = And(app, BoolVal(exists))
                posts = [('a write through a handle opened for appending does not keep the existing bytes of the file (they are truncated at a cursor another handle left behind)',
                          Or(Not(kept), contents['len'] == L + n)),
                         ('a file created without the append flag (or a new file) does not hold exactly the bytes written to it', Or(kept, contents['len'] == n)),
                         ('the write does not report the number of bytes it was given', r2.fields[0] == n if isinstance(r2, Enum) and r2.tag == 'Ok' else BoolVal(False))]
                res.cases['exists=%s' % exists] = res.cases.get('exists=%s' % exists, 0) + 1
                for label, post, m in ex.check_posts(posts, pc2):
                    res.violations.append({'label': label, 'model': {'existing': mval(m, L), 'cursor': mval(m, c), 'append': mval(m, app), 'n': mval(m, n)}, 'replay': ['memfs_append_after_partial_read']})
            ex.run_fn(wr, [Ref('$handle'), {'len': n, 'kind': 'data', 'off': bv(0)}], e, pc, written)
        inner = mir.mk_struct('InMemoryFile', contents={'len': L, 'kind': 'contents', 'off': bv(0)}, cursor=c)
        env = {'$state': {}, '$inner_existing': inner, '$file': {0: Ref('$inner_existing'), '__ty': 'LockableInMemoryFile'}, '$fs': mir.mk_struct('InMemoryFileSystem', files='map')}
        ex.top(fn, [Ref('$fs'), {'path': 'p'}, app], env, pre, created)
        res.absorb(ex)
        for pcx, msg, where in ex.panics:
            ex.solver.push(); ex.solver.add(*pre); ex.solver.add(*[cc for cc in pcx if not isinstance(cc, bool)]); feas = str(ex.solver.check()) == 'sat'; ex.solver.pop()
            if feas and 'overflow' not in msg: res.panic_paths += 1; res.violations.append({'label': 'panic path: ' + msg[:80], 'replay': None, 'confirmed_by': {'reproduced': False, 'detail': 'no native scenario'}})
    res.wall_s = time.time() - t0
    if res.violations: res.status = 'violation'
    return res


def o12_7_confirm(v, out):
    """Native: a log of three records on the in-memory file system; a reader reads only the first record (and, separately, the file
    size is queried); the log is reopened for appending and one record is added; all four records must be read back."""
    if out.get('_rc') != 0: return (False, 'native run failed: %s' % out.get('_stderr', '')[-300:])
    return (out.get('after_partial_read') != '4' or out.get('after_size_query') != '4', 'records read back after reopen-for-append: %s (after a partial read), %s (after a size query); expected 4 and 4' % (out.get('after_partial_read'), out.get('after_size_query')))


def o12_11_memfs_read(mir, tier):
    """`<LockableInMemoryFile as std::io::Read>`: `read` - and `read_exact`, when the crate overrides the std default - at a free cursor
    c <= L of a file of free length L into a buffer of free length n.  Reference = the std::io::Read contract the log reader relies on:
    read returns Ok(min(n, L - c)) and advances the cursor by that; read_exact returns Ok and advances by n when n <= L - c, and
    fails with ErrorKind::UnexpectedEof otherwise (LogReader::read_record turns exactly that kind into end-of-file: a log cut inside a
    block trailer must read as a clean end, not as an error)."""
    fns = {n: [f for f in mir.fns.values() if f.name == n and 'fs_mem' in f.path and f.self_ty == 'LockableInMemoryFile' and (f.trait or '').endswith('Read')] for n in ('read', 'read_exact')}
    if len(fns['read']) != 1: raise Inconclusive('fs_mem read not found uniquely (%d)' % len(fns['read']))
    res = Result('O12.11 in-memory file: std::io::Read contract', [f.path for fl in fns.values() for f in fl] or ['-'],
                 'file length L < 2^40, cursor 0..=L, buffer length n < 2^30, all free; byte contents abstract')
    t0 = time.time()
    ff = mir.struct_fields('InMemoryFile')
    for name in ('read', 'read_exact'):
        if not fns[name]:
            res.cases['%s: not overridden by the crate (std default: a loop around read that ends in UnexpectedEof)' % name] = 1; continue
        fn = fns[name][0]
        S = lib.std_summaries(); P = S['$patterns']
        L, c, n = BitVec('file_length', 64), BitVec('cursor', 64), BitVec('buffer_length', 64)
        pre = [ULT(L, bv(1 << 40)), ULE(c, L), ULT(n, bv(1 << 30))]
        P[r'parking_lot::lock_api::RwLock::(?:read|write)'] = lib.ident
        P[r'<parking_lot::lock_api::RwLock(?:Read|Write)Guard<.*> as Deref(?:Mut)?>::deref(?:_mut)?'] = lib.ptr_deref
        P[r'<Arc<parking_lot::lock_api::RwLock<.*>> as Deref>::deref'] = lib.ptr_deref
        ln = lambda se, env, pc, v: lib.one(env, (se.deref(env, v) if isinstance(v, Ref) else v)['len'])
        P[r'Vec::len'] = ln; P[r'core::slice::<impl \[.*\]>::len'] = ln
        def copy_from(se, env, pc, dst, src):
            d = se.deref(env, dst) if isinstance(dst, Ref) else dst; s_ = se.deref(env, src) if isinstance(src, Ref) else src
            if se.check(d['len'] != s_['len']): se.panics.append((list(pc) + [d['len'] != s_['len']], 'copy_from_slice: source and destination lengths differ', 'summary'))
            st = dict(env['$state']); st['copied'] = st['copied'] + [s_['len']]
            return [(d['len'] == s_['len'], (), st)]
        P[r'core::slice::<impl \[.*\]>::copy_from_slice'] = copy_from
        ex = Exec(mir, S, loop_bound=4)
        avail = L - c
        def k(ret, env, pc, name=name, ex=ex):
            inner = ex.deref(env, Ref('$inner'))
            cur = inner[ff.index('cursor')]
            ok = isinstance(ret, Enum) and ret.tag == 'Ok'
            if name == 'read':
                want = If(ULT(avail, n), avail, n)
                posts = [('read fails on the in-memory file', BoolVal(ok)),
                         ('read does not return min(buffer length, bytes left) / does not advance the cursor by that', And(ret.fields[0] == want, cur == c + want) if ok else BoolVal(False))]
            else:
                kind = None
                if not ok:
                    e = ret.fields[0]; kk = e.get('kind') if isinstance(e, dict) else None
                    kind = kk.tag if isinstance(kk, Enum) else str(kk)
                posts = [('read_exact succeeds although fewer bytes than the buffer holds are left (or fails although enough are left)', BoolVal(ok) == ULE(n, avail)),
                         ('read_exact past the end of the file does not fail with ErrorKind::UnexpectedEof (the log reader takes only that kind for the end of a log: a log cut inside a block trailer then fails to open)',
                          BoolVal(True) if ok else BoolVal(kind is not None and 'UnexpectedEof' in kind)),
                         ('a successful read_exact does not advance the cursor by the buffer length', (cur == c + n) if ok else BoolVal(True))]
            res.cases['%s -> %s' % (name, 'Ok' if ok else 'Err')] = res.cases.get('%s -> %s' % (name, 'Ok' if ok else 'Err'), 0) + 1
            for label, post, m in ex.check_posts(posts, pc):
                res.violations.append({'label': label, 'model': {'length': mval(m, L), 'cursor': mval(m, c), 'buffer': mval(m, n)}, 'replay': ['log_scenario', 'A32757', 'A5', 'K32766']})
        inner = mir.mk_struct('InMemoryFile', contents={'len': L, 'kind': 'contents', 'off': bv(0)}, cursor=c)
        env = {'$state': {'copied': []}, '$inner': inner, '$file': {0: Ref('$inner'), '__ty': 'LockableInMemoryFile'}, '$buf': {'len': n, 'kind': 'buffer', 'off': bv(0)}}
        ex.top(fn, [Ref('$file'), Ref('$buf')], env, pre, k)
        res.absorb(ex)
        for pcx, msg, where in ex.panics:
            ex.solver.push(); ex.solver.add(*pre); ex.solver.add(*[cc for cc in pcx if not isinstance(cc, bool)]); feas = str(ex.solver.check()) == 'sat'; ex.solver.pop()
            if feas and 'overflow' not in msg:
                res.panic_paths += 1; res.violations.append({'label': 'panic path: ' + msg[:80], 'replay': ['log_scenario', 'A32757', 'A5', 'K32766']})
    res.wall_s = time.time() - t0
    if res.violations: res.status = 'violation'
    return res


def o12_11_confirm(v, out):
    """Native: a log whose first record ends 4 bytes before the block boundary, a second record behind it, the file cut inside the
    trailer: the reader must return nothing more and end cleanly (the first record is cut too: its block is incomplete)."""
    if out.get('_rc') != 0: return (True, 'native log reader panicked / failed: %s' % out.get('_stderr', '')[-300:])
    return (out.get('end') != 'eof' or out.get('returned') != out.get('expected'), 'native: log cut inside a block trailer: returned %s (expected %s), then %s (expected eof)' % (out.get('returned'), out.get('expected'), out.get('end')))
