"""Obligations on VersionSet: O1.7/O10.4 (snapshot of the current version written to a new manifest), O8.2 (manifest write errors)."""
import time
from z3 import BitVec, BitVecVal, Bool, BoolVal, And, Or, Not, ULT, ULE, UGT, UGE, If, simplify
from ..exec import Exec, Enum, Ref, Opaque, Inconclusive, bv
from ..ob import World, Result, klt, kle, keq, mval, key_bytes
from .. import lib
from .version import base_summaries, mk_version, same_key, _files_argv, _levels_argv


def o1_7_write_snapshot(mir, tier):
    fn = mir.method('VersionSet', 'write_snapshot')
    shapes = [{0: 2, 1: 1, 6: 1}] if tier == 'quick' else [{0: 2, 1: 1, 6: 1}, {0: 1, 2: 2, 3: 1}, {1: 3}, {5: 1, 6: 2}]
    res = Result('O1.7 VersionSet::write_snapshot', [fn.path],
                 'current version with files per level %s (free metadata), 0 or 1 compaction pointer; add_file / add_compaction_pointer / LogWriter::append by contract' % (shapes,))
    t0 = time.time()
    for shape in shapes:
        for with_ptr in (False, True):
            w = World(mir)
            lv = {l: [w.file('L%d_%d' % (l, i)) for i in range(n)] for l, n in shape.items()}
            LF = {l: [w.F(f) for f in fs] for l, fs in lv.items()}
            pk = w.key('ptr'); PK = w.K(pk)
            S = base_summaries(mir)
            S['<VersionChangeManifest as Default>::default'] = lambda se, env, pc: lib.one(env, {'abstract': True, '__ty': 'VersionChangeManifest'})
            node = mir.mk_struct('Node', element=mk_version(mir, lv))
            S['VersionSet::get_current_version'] = lambda se, env, pc, vs: lib.one(env, Ref('$node'))
            S['VersionSet::release_version'] = lambda se, env, pc, *a: lib.one(env, ())
            def add_file(se, env, pc, m, level, num, size, rng):
                st = dict(env['$state']); st['added'] = st['added'] + [(level, num, size, w.K(rng[0]), w.K(rng[1]))]; return [(None, (), st)]
            S['VersionChangeManifest::add_file'] = add_file
            def add_ptr(se, env, pc, m, level, key):
                st = dict(env['$state']); st['ptrs'] = st['ptrs'] + [(level, w.K(key))]; return [(None, (), st)]
            S['VersionChangeManifest::add_compaction_pointer'] = add_ptr
            S['<Vec<u8> as From<&VersionChangeManifest>>::from'] = lambda se, env, pc, m: lib.one(env, {'len': BitVec('mlen', 64), 'kind': 'manifest-bytes'})
            S['$patterns'][r'<Option<InternalKey> as Clone>::clone'] = lib.clone_deep
            okb = Bool('append_ok')
            def append(se, env, pc, wr, d):
                st = dict(env['$state']); st['appended'] = st['appended'] + 1
                return [(okb, Enum('Ok', ((),)), st), (Not(okb), Enum('Err', (Enum('IO', (Opaque('io'),), 'LogIOError'),)), st)]
            S['LogWriter::append'] = append
            S['$patterns'][r'<WriteError as From<LogIOError>>::from'] = lambda se, env, pc, e: lib.one(env, Enum('Log', (e,), 'WriteError'))
            ex = Exec(mir, S, loop_bound=12)
            flat = [(l, f) for l in sorted(LF) for f in LF[l]]
            # what a native version set accepts (for replay only): valid ranges, disjoint sorted levels >= 1, distinct small numbers
            realizable = [klt(f['sm'], f['lg']) for _, f in flat] + [And(UGT(f['num'], bv(10)), ULT(f['num'], bv(1000)), ULT(f['size'], bv(1 << 40))) for _, f in flat]
            realizable += [flat[i][1]['num'] != flat[j][1]['num'] for i in range(len(flat)) for j in range(i)]
            for l in LF:
                if l > 0: realizable += [klt(LF[l][i]['lg'], LF[l][i + 1]['sm']) for i in range(len(LF[l]) - 1)]
            def k(ret, env, pc, ex=ex, flat=flat, with_ptr=with_ptr, shape=shape):
                st = env['$state']
                posts = [('number of add_file calls differs from the number of files in the version', BoolVal(len(st['added']) == len(flat)))]
                for (level, num, size, a, b), (l, f) in zip(st['added'], flat):
                    posts.append(('add_file receives a wrong level / number / size', And(level == bv(l), num == f['num'], size == f['size'])))
                    posts.append(('add_file receives the key range as largest..smallest (bounds swapped)', Not(And(same_key(a, f['lg']), same_key(b, f['sm']), Not(same_key(f['sm'], f['lg']))))))
                    posts.append(('add_file does not receive smallest..largest of the file', And(same_key(a, f['sm']), same_key(b, f['lg']))))
                if with_ptr:
                    posts.append(('compaction pointer is not written to the snapshot', BoolVal(len(st['ptrs']) == 1) if True else None))
                    if st['ptrs']: posts.append(('compaction pointer written with a wrong level or key', And(st['ptrs'][0][0] == bv(2), same_key(st['ptrs'][0][1], PK))))
                posts.append(('snapshot is not appended to the manifest exactly once', BoolVal(st['appended'] == 1)))
                if isinstance(ret, Enum): posts.append(('result does not reflect the outcome of the manifest append', okb == BoolVal(ret.tag == 'Ok')))
                def argv(m):
                    return ['snapshot_roundtrip'] + _levels_argv(m, LF)
                bad = False
                for label, post in posts:
                    ex.record_formula(label, pc, Not(post))
                    m = ex.model(Not(post), *realizable)
                    if m is not None:
                        bad = True; res.violations.append({'label': label, 'shape': {str(a): b for a, b in shape.items()}, 'replay': argv(m)})
                if not bad and len(res.witnesses) < 2:
                    m = ex.model(*realizable)
                    if m is not None: res.witnesses.append({'executor_result': 'identity', 'replay': argv(m)})
            ptrs = [Enum('None')] * 7
            if with_ptr: ptrs = ptrs[:2] + [Enum('Some', (pk,))] + ptrs[3:]
            vs = mir.mk_struct('VersionSet', compaction_pointers=ptrs)
            env = {'$state': {'added': [], 'ptrs': [], 'appended': 0}, '$vs': vs, '$node': node, '$w': {'abstract': True, '__ty': 'LogWriter'}}
            ex.top(fn, [Ref('$vs'), Ref('$w')], env, list(w.pre), k)
            res.absorb(ex)
            for pc, msg, where in ex.panics:
                res.panic_paths += 1; res.violations.append({'label': 'panic path: ' + msg[:80], 'replay': None})
    res.wall_s = time.time() - t0
    if res.violations: res.status = 'violation'
    return res


def o1_7_confirm(v, out):
    """Native: a version set with these files is made to start a new manifest (log_and_apply writes a snapshot), then a fresh
    version set recovers from disk; the recovered (level, number, size, smallest, largest) must equal the originals."""
    if out.get('_rc') != 0: return (False, 'native run failed: %s' % out.get('_stderr', '')[-300:])
    exp = sorted(t for t in out.get('original', '').split('|') if t); got = sorted(t for t in out.get('recovered', '').split('|') if t)
    return (exp != got, 'recovered files %s, original %s' % (got, exp))


def o1_7_witness_ok(w, out):
    return out.get('_rc') == 0 and sorted(out.get('original', '').split('|')) == sorted(out.get('recovered', '').split('|'))


# ---------------------------------------------------------------- O8.2 log_and_apply error propagation
def o8_2_log_and_apply(mir, tier):
    fn = mir.method('VersionSet', 'log_and_apply')
    res = Result('O8.2 VersionSet::log_and_apply error propagation', [fn.path],
                 'get_new_version_from_current, persist_changes, remove_file by contract (each Ok or Err, unconstrained); created_new_manifest_file free')
    t0 = time.time()
    S = base_summaries(mir)
    newv, perr, rmerr, created = Bool('new_version_ok'), Bool('persist_ok'), Bool('remove_ok'), Bool('created_new_manifest')
    def ev(name):
        def f(se, env, pc, *a):
            st = dict(env['$state']); st['events'] = st['events'] + [name]; return [(None, (), st)]
        return f
    def gnv(se, env, pc, g, m):
        st = dict(env['$state']); st['events'] = st['events'] + ['get_new_version']
        return [(newv, Enum('Ok', (('new_version', created),)), st), (Not(newv), Enum('Err', (Enum('ManifestWrite', (Opaque('e'),), 'WriteError'),)), st)]
    S['VersionSet::get_new_version_from_current'] = gnv
    def persist(se, env, pc, g, m, c):
        st = dict(env['$state']); st['events'] = st['events'] + ['persist_changes']
        return [(perr, Enum('Ok', ((),)), st), (Not(perr), Enum('Err', (Enum('ManifestWrite', (Opaque('e'),), 'WriteError'),)), st)]
    S['VersionSet::persist_changes'] = persist
    S['VersionSet::append_new_version'] = ev('append_new_version')
    def rm(se, env, pc, fs, path):
        st = dict(env['$state']); st['events'] = st['events'] + ['remove_manifest']
        return [(rmerr, Enum('Ok', ((),)), st), (Not(rmerr), Enum('Err', (Opaque('ioerr'),)), st)]
    S['<dyn FileSystem as FileSystem>::remove_file'] = rm
    S['FileNameHandler::get_manifest_file_path'] = lambda se, env, pc, *a: lib.one(env, {'abstract': True, '__ty': 'PathBuf'})
    S['$patterns'][r'<parking_lot::lock_api::MutexGuard<.*> as Deref(?:Mut)?>::deref(?:_mut)?'] = lib.ptr_deref
    S['$patterns'][r'<PathBuf as Deref>::deref'] = lib.ident
    S['$patterns'][r'<std::io::Error as Into<DBIOError>>::into'] = lambda se, env, pc, e: lib.one(env, Opaque('dbioerr'))
    S['$patterns'][r'<WriteError as From<.*>>::from'] = lambda se, env, pc, e: lib.one(env, Enum('ManifestWrite', (e,), 'WriteError'))
    ex = Exec(mir, S, loop_bound=4)
    def k(ret, env, pc):
        evs = env['$state']['events']
        is_ok = BoolVal(isinstance(ret, Enum) and ret.tag == 'Ok')
        posts = [('returns Ok although the manifest write failed', Or(Not(is_ok), And(newv, perr))),
                 ('returns Err although every step succeeded', Or(is_ok, Not(And(newv, perr)))),
                 ('installs the new version although the manifest write failed', Or(BoolVal('append_new_version' not in evs), And(newv, perr))),
                 ('does not install the new version after a successful manifest write', Or(BoolVal('append_new_version' in evs), Not(And(newv, perr)))),
                 ('a newly created manifest file is not removed after its write failed', Or(BoolVal('remove_manifest' in evs), Not(And(newv, Not(perr), created))))]
        for label, post in posts:
            ex.record_formula(label, pc, Not(post))
            m = ex.model(Not(post))
            if m is not None:
                res.violations.append({'label': label, 'events': evs, 'model': {str(x): mval(m, x) for x in (newv, perr, rmerr, created)},
                                       'replay': ['log_and_apply_fault', 'created' if mval(m, created) else 'reused']})
        res.cases[str(ret.tag) + ':' + ','.join(evs)] = res.cases.get(str(ret.tag) + ':' + ','.join(evs), 0) + 1
    vs = mir.mk_struct('VersionSet', manifest_file_number=BitVec('mfn', 64), prev_sequence_number=BitVec('pseq', 64), maybe_manifest_file=Enum('Some', ('manifest',)),
                       filesystem_provider='fs', file_name_handler='fnh', curr_wal_number=BitVec('cw', 64), prev_wal_number=Enum('None'))
    guarded = mir.mk_struct('GuardedDbFields', version_set=vs)
    cm = mir.mk_struct('VersionChangeManifest', wal_file_number=Enum('Some', (BitVec('wal', 64),)), prev_wal_file_number=Enum('None'))
    env = {'$state': {'events': []}, '$g': guarded, '$guard': Ref('$g'), '$cm': cm}
    ex.top(fn, [Ref('$guard'), Ref('$cm')], env, [], k)
    res.absorb(ex)
    for pc, msg, where in ex.panics:
        res.panic_paths += 1; res.violations.append({'label': 'panic path: ' + msg[:80], 'replay': None})
    res.wall_s = time.time() - t0
    if res.violations: res.status = 'violation'
    return res


def o8_2_confirm(v, out):
    """Native: a VersionSet on a file system whose manifest append fails; log_and_apply must not return Ok."""
    if out.get('_rc') != 0: return (False, 'native run failed: %s' % out.get('_stderr', '')[-300:])
    lab = v['label']
    if 'returns Ok although' in lab: return (out.get('result') == 'Ok' and out.get('append_failed') == 'true', 'native log_and_apply result %s with failing manifest append' % out.get('result'))
    if 'installs the new version although' in lab: return (out.get('installed') == 'true' and out.get('append_failed') == 'true', 'new version installed=%s' % out.get('installed'))
    return (False, 'no native scenario for this label')
