"""O13.5 TableCache::find_table / get / remove: a table is always the one opened from the file with the requested number."""
import time
from z3 import BitVec, Bool, BoolVal, And, Or, Not
from ..exec import Exec, Enum, Ref, Opaque, Inconclusive, bv
from ..ob import Result, mval
from .. import lib


LABEL_NF = 'a table file that cannot be opened (whatever the error kind - a missing file included) is reported as "key not found": the read falls through to older tables and a superseded value or a deleted key comes back'


def o13_5_table_cache(mir, tier):
    """The cache is a map from file number to table by contract; the file name handler maps a number to the path of that number, the
    file system opens the file of a path, Table::open reads the table of that file (each free to fail).  find_table(n1) then
    find_table(n2) with free numbers (equal or not), optionally remove(n1) in between.  Reference: each successful call returns the
    table of the file with the requested number; the file is opened iff no table is cached under exactly that number (after a
    remove it is opened again); a failed open is reported and caches nothing."""
    fn = mir.method('TableCache', 'find_table'); rm = mir.method('TableCache', 'remove')
    res = Result('O13.5 TableCache::find_table / remove', [fn.path, rm.path], 'two lookups with free file numbers, optional remove in between; cache = map by contract; open_file / Table::open free to fail')
    t0 = time.time()
    for removed in (False, True):
        S = lib.std_summaries(); P = S['$patterns']
        n1, n2 = BitVec('file_number_1', 64), BitVec('file_number_2', 64)
        okf = [Bool('open_file_%d_ok' % i) for i in range(2)]; okt = [Bool('table_open_%d_ok' % i) for i in range(2)]
        P[r'<Arc<dyn (?:utils::cache::)?Cache<.*>> as Deref>::deref'] = lambda se, env, pc, c: lib.one(env, Ref('$cache'))
        P[r'<Box<dyn (?:utils::cache::)?Cache<.*>> as Deref>::deref'] = P[r'<Arc<dyn (?:utils::cache::)?Cache<.*>> as Deref>::deref']
        def val(se, env, k):
            while isinstance(k, Ref): k = se.deref(env, k)
            return k
        def cget(se, env, pc, c, key):
            kv = val(se, env, key); ents = env['$cache']['entries']; outs = []; none = []
            for ck, cv in ents:
                c_ = ck == kv
                outs.append((And(c_, *none), Enum('Some', ({'cache_entry': cv},)), env['$state'])); none.append(Not(c_))
            outs.append((And(*none) if none else BoolVal(True), Enum('None'), env['$state']))
            return outs
        P[r'<dyn (?:utils::cache::)?Cache<.*> as (?:utils::cache::)?Cache<.*>>::get'] = cget
        def cins(se, env, pc, c, key, v):
            cv = dict(env['$cache']); cv['entries'] = [(val(se, env, key), v)] + cv['entries']; env['$cache'] = cv
            return lib.one(env, {'cache_entry': v})
        P[r'<dyn (?:utils::cache::)?Cache<.*> as (?:utils::cache::)?Cache<.*>>::insert'] = cins
        def crem(se, env, pc, c, key):
            kv = val(se, env, key); ents = env['$cache']['entries']
            # fork over which entries match
            outs = []
            import itertools
            for mask in itertools.product((False, True), repeat=len(ents)):
                cond = And(*[(ck == kv) if m else (ck != kv) for (ck, cv), m in zip(ents, mask)]) if ents else BoolVal(True)
                outs.append((cond, (), env['$state'], [(Ref('$cache'), {'entries': [e for e, m in zip(ents, mask) if not m]})]))
            return outs
        P[r'<dyn (?:utils::cache::)?Cache<.*> as (?:utils::cache::)?Cache<.*>>::remove'] = crem
        P[r'<dyn CacheEntry<.*> as CacheEntry<.*>>::get_value'] = lambda se, env, pc, e: lib.one(env, (se.deref(env, e) if isinstance(e, Ref) else e)['cache_entry'])
        P[r'<Box<dyn CacheEntry<.*>> as Deref>::deref'] = lib.ident
        P[r'<.*MappedRwLockReadGuard<.*> as Deref>::deref'] = lib.ident
        P[r'<Arc<(?:table::)?Table> as Clone>::clone'] = lambda se, env, pc, a: lib.one(env, val(se, env, a))
        P[r'FileNameHandler::get_table_file_path'] = lambda se, env, pc, h, n: lib.one(env, {'path_of_table': n})
        P[r'<Arc<dyn FileSystem> as Deref>::deref'] = lib.ident; P[r'<PathBuf as Deref>::deref'] = lib.ident
        def open_file(se, env, pc, fs, path):
            st = dict(env['$state']); i = st['call']; st['opens'] = st['opens'] + [val(se, env, path)['path_of_table']]
            return [(okf[i], Enum('Ok', ({'file_of_table': val(se, env, path)['path_of_table']},)), st), (Not(okf[i]), Enum('Err', ({'kind': BitVec('open_error_kind_%d' % i, 8), '__ty': 'io::Error'},)), st)]          # any error kind (NotFound among them)
        P[r'<dyn FileSystem as FileSystem>::open_file'] = open_file
        P[r'<DbOptions as Clone>::clone'] = lib.ident
        def topen(se, env, pc, o, f):
            i = env['$state']['call']
            return [(okt[i], Enum('Ok', ({'table_of': val(se, env, f)['file_of_table']},)), env['$state']), (Not(okt[i]), Enum('Err', (Enum('FailedToParse', ({'str': 'bad'},), 'ReadError'),)), env['$state'])]
        P[r'(?:table::)?Table::open'] = topen
        P[r'(?:Arc|Rc|Box)::new'] = lib.ident
        P[r'<ReadError as From<.*>>::from'] = lambda se, env, pc, e: lib.one(env, Enum('IO', (e,), 'ReadError'))
        ex = Exec(mir, S, loop_bound=4)
        tc = mir.mk_struct('TableCache', options={'abstract': True, '__ty': 'DbOptions'}, cache='cache', file_name_handler='names', filesystem_provider='fs')
        def first(r1, env1, pc1, ex=ex, removed=removed):
            def second_call(envx, pcx):
                e = dict(envx); st = dict(e['$state']); st['call'] = 1; e['$state'] = st
                def second(r2, env2, pc2):
                    opens = env2['$state']['opens']
                    ok1 = isinstance(r1, Enum) and r1.tag == 'Ok'; ok2 = isinstance(r2, Enum) and r2.tag == 'Ok'
                    posts = []
                    if ok1: posts.append(('find_table returns the table of another file than the one asked for', r1.fields[0]['table_of'] == n1))
                    if ok2: posts.append(('find_table returns the table of another file than the one asked for', r2.fields[0]['table_of'] == n2))
                    posts.append(('the first lookup of a table does not open its file / reports success although the open failed', BoolVal(len(opens) >= 1) if True else BoolVal(True)))
                    posts.append(('a lookup succeeds although the file could not be opened or parsed (or fails although it could)', And(BoolVal(ok1) == And(okf[0], okt[0]))))
                    for r_ in (r1, r2):
                        nf = isinstance(r_, Enum) and r_.tag == 'Err' and isinstance(r_.fields[0], Enum) and r_.fields[0].tag == 'KeyNotFound'
                        posts.append((LABEL_NF, BoolVal(not nf)))
                    # second lookup: served from the cache iff the first succeeded, the number is the same and nothing was removed
                    hit = And(BoolVal(ok1 and not removed), n1 == n2)
                    opened_again = len(opens) == 2
                    posts.append(('a cached table is not reused for the same file number, or a table cached under one number answers a lookup of another number (or after it was removed)', hit == BoolVal(not opened_again)))
                    if opened_again: posts.append(('the second lookup opens another file than the one asked for', opens[1] == n2))
                    res.cases['removed=%s first=%s second=%s opens=%d' % (removed, 'Ok' if ok1 else 'Err', 'Ok' if ok2 else 'Err', len(opens))] = 1
                    for label, post, m in ex.check_posts(posts, pc2):
                        res.violations.append({'label': label, 'removed': removed, 'model': {'n1': mval(m, n1), 'n2': mval(m, n2)},
                                               'replay': ['get_unopenable_newest', 'notfound'] if label == LABEL_NF else ['table_cache', str(mval(m, n1)), str(mval(m, n2)), '1' if removed else '0']})
                ex.run_fn(fn, [Ref('$tc'), n2], e, pcx, second)
            if removed: ex.run_fn(rm, [Ref('$tc'), n1], env1, pc1, lambda r, e2, p2: second_call(e2, p2))
            else: second_call(env1, pc1)
        ex.top(fn, [Ref('$tc'), n1], {'$state': {'call': 0, 'opens': []}, '$tc': tc, '$cache': {'entries': []}}, [], first)
        res.absorb(ex)
        for pcx, msg, where in ex.panics:
            res.panic_paths += 1; res.violations.append({'label': 'panic path: ' + msg[:80], 'replay': None, 'confirmed_by': {'reproduced': False, 'detail': 'no native scenario'}})
    # ---- TableCache::get: a table that cannot be opened is an error of the lookup, never "the key is not in this table"
    getf = mir.method('TableCache', 'get')
    S = lib.std_summaries(); P = S['$patterns']
    found_ok = Bool('find_table_ok'); err_kind = BitVec('open_error_kind', 8)
    def find(se, env, pc, tc, n):
        st = dict(env['$state']); st['asked'] = st['asked'] + [n]
        from z3 import ULE
        e_io = Enum('Err', (Enum('IO', ({'kind': 'io', '__ty': 'io::Error'},), 'ReadError'),)); e_parse = Enum('Err', (Enum('FailedToParse', ({'str': 'bad footer'},), 'ReadError'),))
        return [(found_ok, Enum('Ok', ({'table_of': n},)), st), (And(Not(found_ok), err_kind == 0), e_io, st), (And(Not(found_ok), err_kind != 0), e_parse, st)]
    P[r'TableCache::find_table'] = find
    P[r'<Arc<(?:table::)?Table> as Deref>::deref'] = lib.ident
    def tget(se, env, pc, t, ro, key):
        tv = t
        while isinstance(tv, Ref): tv = se.deref(env, tv)
        return lib.one(env, Enum('Ok', (Enum('Some', ({'answer_of_table': tv['table_of']},)),)))
    P[r'(?:table::)?Table::get'] = tget
    P[r'<Result<.*> as FromResidual<Result<Infallible, .*>>>::from_residual'] = lambda se, env, pc, r: lib.one(env, r)
    ex = Exec(mir, S, loop_bound=3, opaque_calls_ok=True)
    num = BitVec('file_number', 64)
    def kg(ret, env, pc):
        ok = isinstance(ret, Enum) and ret.tag == 'Ok'
        notfound = isinstance(ret, Enum) and ret.tag == 'Err' and isinstance(ret.fields[0], Enum) and ret.fields[0].tag == 'KeyNotFound'
        posts = [('a lookup in a table that could not be opened does not report the error (answering "not in this table" lets the read fall through to an older table: a superseded value or a deleted key comes back)', BoolVal(ok) == found_ok),
                 ('a table that could not be opened is reported as "key not found"', BoolVal(not notfound))]
        if ok: posts.append(('the lookup is answered by another table than the one asked for', ret.fields[0].fields[0]['answer_of_table'] == num))
        res.cases['get -> %s' % (ret.fields[0].tag if isinstance(ret, Enum) and ret.tag == 'Err' and isinstance(ret.fields[0], Enum) else getattr(ret, 'tag', '?'))] = 1
        for label, post, m in ex.check_posts(posts, pc):
            res.violations.append({'label': label, 'model': {'open_ok': bool(mval(m, found_ok)), 'io_error': mval(m, err_kind) == 0}, 'replay': ['get_unopenable_newest']})
    ex.top(getf, [Ref('$tc'), {'abstract': True, '__ty': 'ReadOptions'}, num, {'abstract': 'key'}], {'$state': {'asked': []}, '$tc': mir.mk_struct('TableCache', options={'abstract': True}, cache='cache', file_name_handler='names', filesystem_provider='fs')}, [], kg)
    res.absorb(ex)
    res.wall_s = time.time() - t0
    if res.violations: res.status = 'violation'
    return res


def o13_5_confirm(v, out):
    """Native: real tables with the model's numbers and neighbouring numbers; a fresh table cache is asked for them in turn."""
    if out.get('_rc') != 0: return (True, 'native run failed / panicked: %s' % out.get('_stderr', '')[-300:])
    if v['replay'][0] == 'get_unopenable_newest':
        g = out.get('get_with_unopenable_newest', '')
        return (g.startswith('Ok(v1') or g.startswith('Ok(v2') or 'KeyNotFound' in g, 'native: the newest table (holding v3) cannot be opened (cold table cache): get answers %s; once it can be opened again: %s' % (g, out.get('get_afterwards')))
    return (out.get('got') != out.get('asked'), 'native: tables asked for %s, tables handed out %s' % (out.get('asked'), out.get('got')))
