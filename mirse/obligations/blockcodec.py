"""O13.6 byte-level codecs executed from MIR over lists of symbolic bytes: InternalKey <-> bytes, BlockBuilder -> BlockReader.

Unlike the token-stream obligations (O6.3, O10.8) nothing about the byte layout is by contract here: a `Vec<u8>` is a Python list of
8-bit terms (concrete length per path, symbolic contents), varints / fixed ints are encoded and decoded bit-exactly by the summaries
below, prefix compression compares real bytes.  This is the part of C13 that CBMC could not reach (T6/T10: OOM on the builder with
restart interval 16)."""
import itertools, time
from z3 import BitVec, BitVecVal, Bool, BoolVal, And, Or, Not, ULT, ULE, UGT, UGE, Extract, ZeroExt, Concat, If, simplify, is_bv, is_bv_value, is_false
from ..exec import Exec, Enum, Ref, Opaque, Inconclusive, Delegate, bv
from ..ob import Result, mval
from .. import lib, lib2


def b8(n): return BitVecVal(n, 8)


def lex_lt(a, b):
    """a < b for two byte lists (lexicographic, a proper prefix is smaller)."""
    n = min(len(a), len(b)); out = BoolVal(len(a) < len(b))
    for i in reversed(range(n)): out = If(ULT(a[i], b[i]), BoolVal(True), If(a[i] == b[i], out, BoolVal(False)))
    return out
def lex_eq(a, b): return And(*[x == y for x, y in zip(a, b)]) if len(a) == len(b) else BoolVal(False)


def byte_summaries(mir):
    S = lib2.install(lib.std_summaries()); P0 = S['$patterns']; P = {}
    def V(se, env, r):
        v = r
        while isinstance(v, Ref): v = se.deref(env, v)
        if isinstance(v, list): return [se.deref(env, x) if isinstance(x, Ref) else x for x in v]
        raise Inconclusive('expected a byte list, got %r' % (v,))
    def conc(se, n):
        if isinstance(n, int): return n
        c = se.concretize(n)
        if c is None: raise Inconclusive('symbolic length / position %s in a byte-list operation' % n)
        return c
    # ---- integer codecs (bit exact)
    def enc_var(se, env, pc, x):
        x = se.deref(env, x) if isinstance(x, Ref) else x
        n = conc(se, x); out = []
        while n >= 0x80: out.append(b8((n & 0x7f) | 0x80)); n >>= 7
        out.append(b8(n)); return lib.one(env, out)
    P[r'<u32 as VarInt>::encode_var_vec'] = enc_var
    def dec_var(se, env, pc, s):
        l = V(se, env, s); val = 0; shift = 0
        for i, b in enumerate(l[:5]):
            c = conc(se, b)
            val |= (c & 0x7f) << shift; shift += 7
            if c < 0x80: return lib.one(env, Enum('Some', ((BitVecVal(val & 0xffffffff, 32), bv(i + 1)),)))
        return lib.one(env, Enum('None'))
    P[r'<u32 as VarInt>::decode_var'] = dec_var
    def enc_fixed(width):
        def f(se, env, pc, x):
            x = se.deref(env, x) if isinstance(x, Ref) else x
            if not is_bv(x): raise Inconclusive('encode_fixed of %r' % (x,))
            if x.size() > width: x = Extract(width - 1, 0, x)
            if x.size() < width: x = ZeroExt(width - x.size(), x)
            return lib.one(env, [simplify(Extract(8 * i + 7, 8 * i, x)) for i in range(width // 8)])
        return f
    P[r'<u32 as FixedInt>::encode_fixed_vec'] = enc_fixed(32); P[r'<u64 as FixedInt>::encode_fixed_vec'] = enc_fixed(64)
    def dec_fixed(width):
        def f(se, env, pc, s):
            l = V(se, env, s)
            if len(l) != width // 8:
                se.panics.append((list(pc), 'decode_fixed: slice of %d bytes for a %d-bit integer (integer-encoding asserts the length)' % (len(l), width), 'summary')); return []
            return lib.one(env, simplify(Concat(*reversed(l))) if len(l) > 1 else l[0])
        return f
    P[r'<u32 as FixedInt>::decode_fixed'] = dec_fixed(32); P[r'<u64 as FixedInt>::decode_fixed'] = dec_fixed(64)
    # ---- byte vectors
    def extend(se, env, pc, v, src):
        se.store(env, v, V(se, env, v) + V(se, env, src)); return lib.one(env, ())
    P[r'<Vec<u8> as Extend<u8>>::extend'] = extend
    P[r'<Vec<u8> as Extend<&u8>>::extend'] = extend
    P[r'Vec::extend_from_slice'] = extend
    def index(se, env, pc, r, i):
        l = V(se, env, r)
        if isinstance(i, dict) and i.get('__ty') in ('Range', 'RangeFrom', 'RangeTo', 'RangeInclusive', 'RangeFull'):
            t = i['__ty']
            a = 0 if t in ('RangeTo', 'RangeFull') else conc(se, i[0])
            b = len(l) if t in ('RangeFrom', 'RangeFull') else (conc(se, i[0]) if t == 'RangeTo' else conc(se, i[1]) + (1 if t == 'RangeInclusive' else 0))
            if a > b or b > len(l):
                se.panics.append((list(pc), 'range %d..%d out of bounds for a slice of %d bytes' % (a, b, len(l)), 'summary')); return []
            return lib.one(env, l[a:b])
        k = conc(se, i)
        if k >= len(l):
            se.panics.append((list(pc), 'index %d out of bounds for a slice of %d bytes' % (k, len(l)), 'summary')); return []
        return lib.one(env, l[k])
    P[r'<Vec<u8> as Index(?:Mut)?<.*>>::index(?:_mut)?'] = index
    P[r'<\[u8\] as Index(?:Mut)?<.*>>::index(?:_mut)?'] = index
    P[r'(?:std::ops::|core::ops::)?RangeInclusive::new'] = lambda se, env, pc, a, b: lib.one(env, {0: a, 1: b, '__ty': 'RangeInclusive'})
    P[r'Vec::truncate'] = lambda se, env, pc, v, n: (se.store(env, v, V(se, env, v)[:conc(se, n)]), lib.one(env, ()))[1]
    P[r'<Vec<u8> as Clone>::clone'] = lambda se, env, pc, v: lib.one(env, V(se, env, v))
    P[r'(?:core|std)::slice::<impl \[u8\]>::to_vec'] = lambda se, env, pc, v: lib.one(env, V(se, env, v))
    P[r'(?:std|core)::cmp::min'] = lambda se, env, pc, a, b: lib.one(env, If(ULE(a, b), a, b))
    P[r'<Vec<u8> as PartialEq>::eq'] = lambda se, env, pc, a, b: lib.one(env, lex_eq(V(se, env, a), V(se, env, b)))
    def bcmp(se, env, pc, a, b):
        x, y = V(se, env, a), V(se, env, b); return lib.one(env, lib.ord_of(lex_lt(x, y), lex_eq(x, y)))
    P[r'<(?:\[u8\]|Vec<u8>|&\[u8\]|&Vec<u8>) as Ord>::cmp'] = bcmp
    for rel, f in (('lt', lambda x, y: lex_lt(x, y)), ('le', lambda x, y: Not(lex_lt(y, x))), ('gt', lambda x, y: lex_lt(y, x)), ('ge', lambda x, y: Not(lex_lt(x, y))),
                   ('eq', lex_eq), ('ne', lambda x, y: Not(lex_eq(x, y)))):
        P[r'<(?:\[u8\]|Vec<u8>|&\[u8\]|&Vec<u8>|&&\[u8\]) as Partial(?:Ord|Eq)(?:<.*>)?>::' + rel] = (lambda f: lambda se, env, pc, a, b: lib.one(env, f(V(se, env, a), V(se, env, b))))(f)
    # ---- the key type of data blocks is InternalKey: generic calls are resolved to its impls (executed from their own MIR)
    asb = mir.method('InternalKey', 'as_bytes', trait='RainDbKeyType')
    tf = [f for f in mir.fns.values() if f.name == 'try_from' and f.self_ty == 'InternalKey' and 'key::' in f.path]
    opf = [f for f in mir.fns.values() if f.name == 'try_from' and f.self_ty == 'Operation']
    if len(tf) != 1 or len(opf) != 1: raise Inconclusive('InternalKey / Operation try_from not found uniquely (%d, %d)' % (len(tf), len(opf)))
    P[r'<K as RainDbKeyType>::as_bytes'] = lambda se, env, pc, k: Delegate(asb, [k])
    P[r'<K as TryFrom<Vec<u8>>>::try_from'] = lambda se, env, pc, v: Delegate(tf[0], [v])
    P[r'<u8 as TryInto<Operation>>::try_into'] = lambda se, env, pc, b: Delegate(opf[0], [b])
    P[r'<Result<.*> as FromResidual<Result<Infallible, .*>>>::from_residual'] = lambda se, env, pc, r: lib.one(env, r)
    P.update(lib.ref_partial_ord(mir, 'InternalKey'))
    P[r'must_use'] = lib.ident; P[r'format'] = lambda se, env, pc, *a: lib.one(env, {'str': '<formatted>'})
    # byte-level summaries take precedence over the abstract-key ones of the standard set (first matching pattern wins)
    S['$patterns'] = dict(list(P.items()) + [(k, v) for k, v in P0.items() if k not in P])
    return S, V, {'as_bytes': asb, 'try_from': tf[0], 'op_try_from': opf[0]}


def sym_key(mir, name, n):
    uk = [BitVec('%s_u%d' % (name, i), 8) for i in range(n)]
    seq, op = BitVec(name + '_seq', 64), BitVec(name + '_op', 64)
    return mir.mk_struct('InternalKey', user_key=uk, sequence_number=seq, operation=op), (uk, seq, op)


def key_fields(mir, ex, k):
    n = mir.struct_fields('InternalKey')
    op = k[n.index('operation')]
    d = ex.discr_of(op) if not is_bv(op) else op
    return k[n.index('user_key')], k[n.index('sequence_number')], d


def same_key(mir, ex, got, want):
    """got: decoded InternalKey value; want: (uk bytes, seq, op) -> z3 condition (False if the shapes differ)."""
    try: uk, seq, op = key_fields(mir, ex, got)
    except Exception: return BoolVal(False)
    if not isinstance(uk, list) or len(uk) != len(want[0]) or op is None or not is_bv(seq): return BoolVal(False)
    if op.size() != want[2].size(): op = ZeroExt(want[2].size() - op.size(), op) if op.size() < want[2].size() else Extract(want[2].size() - 1, 0, op)
    return And(lex_eq(uk, want[0]), seq == want[1], op == want[2])


def ikey_lt(a, b):
    """(user key bytes asc, sequence desc) on (uk, seq, op) triples."""
    return Or(lex_lt(a[0], b[0]), And(lex_eq(a[0], b[0]), UGT(a[1], b[1])))


def o13_6_block_codec(mir, tier):
    """(a) InternalKey::as_bytes followed by InternalKey::try_from, user keys of 0..3 (4) symbolic bytes, free 64-bit sequence number,
    operation Put / Delete: the decoded key equals the encoded one; any other operation byte and every buffer shorter than 9 bytes is
    rejected.  (b) BlockBuilder<InternalKey>::add_entry x n + finalize, then BlockReader::new on the produced bytes (deserialize_entries,
    deserialize_restart_offsets inlined), n = 1..3 entries, user keys of 0..2 symbolic bytes in strictly ascending internal-key order
    (equal user keys with descending sequence numbers included, so the shared prefix may reach into the sequence bytes), values of
    0..2 symbolic bytes, restart intervals 1, 2, 16.  Reference: no panic (the builder asserts that its own prefix compression is
    invertible); the reader accepts the block and yields exactly the entries added - same keys (user key bytes, sequence, operation), same
    values, same order - and the restart points are the entries 0, interval, 2 x interval ..."""
    res = Result('O13.6 InternalKey and block codecs over symbolic bytes', [], '')
    t0 = time.time()
    S, V, F = byte_summaries(mir)
    res.functions = [F['as_bytes'].path, F['try_from'].path, F['op_try_from'].path]
    # ---------------------------------------------------------------- (a) InternalKey codec
    KMAX = 3 if tier == 'quick' else 4
    for n in range(KMAX + 1):
        S, V, F = byte_summaries(mir)
        ex = Exec(mir, S, loop_bound=12, opaque_calls_ok=False)
        key, (uk, seq, op) = sym_key(mir, 'k', n)
        pre = [ULE(op, bv(1))]
        def encoded(buf, env, pc, ex=ex, n=n, uk=uk, seq=seq, op=op):
            l = V(ex, env, buf)
            want_bytes = list(uk) + [Extract(8 * i + 7, 8 * i, seq) for i in range(8)] + [Extract(7, 0, op)]
            posts = [('InternalKey::as_bytes does not produce user key, 8 little-endian sequence bytes, operation byte', lex_eq(l, want_bytes))]
            for label, post, m in ex.check_posts(posts, pc):
                res.violations.append({'label': label, 'user_key_len': n, 'replay': ['key_codec']})
            e = dict(env); e['$buf'] = l
            def decoded(ret, env2, pc2):
                ok = isinstance(ret, Enum) and ret.tag == 'Ok'
                posts = [('an encoded InternalKey does not decode', BoolVal(ok))]
                if ok: posts.append(('an InternalKey does not survive as_bytes + try_from (user key, sequence number, operation)', same_key(mir, ex, ret.fields[0], (uk, seq, op))))
                res.cases['key codec: user key of %d bytes' % n] = 1
                for label, post, m in ex.check_posts(posts, pc2):
                    res.violations.append({'label': label, 'user_key_len': n, 'replay': ['key_codec']})
            ex.run_fn(F['try_from'], [l], e, pc, decoded)
        ex.top(F['as_bytes'], [Ref('$key')], {'$state': {}, '$key': key}, pre, encoded)
        res.absorb(ex)
        _panics(res, ex, pre, 'key_codec')
    # arbitrary bytes: short buffers and foreign operation bytes are rejected, everything else decodes to the bytes' own fields
    for n in (0, 5, 8, 9, 10):
        S, V, F = byte_summaries(mir)
        ex = Exec(mir, S, loop_bound=12, opaque_calls_ok=False)
        raw = [BitVec('raw%d' % i, 8) for i in range(n)]
        def parsed(ret, env, pc, ex=ex, n=n, raw=raw):
            ok = isinstance(ret, Enum) and ret.tag == 'Ok'
            if n < 9: posts = [('a buffer shorter than 9 bytes is accepted as an InternalKey', BoolVal(not ok))]
            else:
                valid = ULE(raw[-1], b8(1))
                posts = [('InternalKey::try_from does not accept exactly the buffers whose last byte is 0 (Delete) or 1 (Put)', valid if ok else Not(valid))]
                if ok: posts.append(('InternalKey::try_from does not read user key / sequence / operation from their positions',
                                     same_key(mir, ex, ret.fields[0], (raw[:n - 9], Concat(*reversed(raw[n - 9:n - 1])), ZeroExt(56, raw[-1])))))
            res.cases['key parse: %d arbitrary bytes' % n] = 1
            for label, post, m in ex.check_posts(posts, pc):
                res.violations.append({'label': label, 'buffer_len': n, 'replay': ['key_codec']})
        ex.top(F['try_from'], [list(raw)], {'$state': {}}, [], parsed)
        res.absorb(ex)
    # ---------------------------------------------------------------- (b) block builder -> block reader
    add = mir.method('BlockBuilder', 'add_entry'); fin = mir.method('BlockBuilder', 'finalize'); newb = mir.method('BlockBuilder', 'reset')
    rd = mir.method('BlockReader', 'new')
    res.functions += [newb.path, add.path, fin.path, rd.path, 'BlockReader::deserialize_entries, deserialize_restart_offsets (inlined)']
    if tier == 'quick':
        shapes = [((1,), (1,)), ((0, 1), (0, 2)), ((1, 1), (1, 0)), ((2, 2), (0, 1)), ((1, 1, 1), (1, 0, 1)), ((2, 1, 2), (0, 0, 0))]
        intervals = (1, 2, 16)
    else:
        shapes = [(kl, vl) for n in (1, 2, 3) for kl in itertools.product((0, 1, 2), repeat=n) for vl in ([(0,) * n, (1,) * n, (2, 0, 1)[:n]])]
        intervals = (1, 2, 3, 16)
    res.bounds = ('(a) user keys of 0..%d symbolic bytes, free sequence / operation; raw buffers of 0, 5, 8, 9, 10 arbitrary bytes; (b) %d shapes (user key lengths, value lengths) of 1..3 entries, '
                  'restart intervals %s, all bytes symbolic, keys strictly ascending in internal-key order; larger blocks, multi-byte varints (lengths >= 128) are outside' % (KMAX, len(shapes), list(intervals)))
    bf = mir.struct_fields('BlockReader'); ef = mir.struct_fields('BlockEntry')
    for (klens, vlens), interval in itertools.product(shapes, intervals):
        S, V, F = byte_summaries(mir)
        ex = Exec(mir, S, loop_bound=24, opaque_calls_ok=False, budget_s=900)
        keys = [sym_key(mir, 'k%d' % i, kl) for i, kl in enumerate(klens)]
        vals = [[BitVec('v%d_%d' % (i, j), 8) for j in range(vl)] for i, vl in enumerate(vlens)]
        K = [k[1] for k in keys]
        pre = [ULE(k[2], bv(1)) for k in K] + [ikey_lt(K[i], K[i + 1]) for i in range(len(K) - 1)]
        case = 'block: user key lengths %s, value lengths %s, restart interval %d' % (list(klens), list(vlens), interval)
        # `BlockBuilder::new` lowers `vec![0]` to raw-pointer code outside the executor's subset; the builder starts instead as a USED one (a
        # finalized block of other content) that is `reset()` - which is how TableBuilder reuses its builders between blocks
        dirty = mir.mk_struct('BlockBuilder', prefix_compression_restart_interval=bv(interval), buffer=[BitVec('old_buf%d' % i, 8) for i in range(3)], restart_points=[BitVecVal(0, 32), BitVecVal(17, 32)],
                              curr_compressed_count=bv(1), block_finalized=BoolVal(True), last_key_bytes=[BitVec('old_key%d' % i, 8) for i in range(10)], key_type_marker=())
        def after_new(_unit, env, pc, ex=ex, keys=keys, vals=vals, K=K, interval=interval, case=case, klens=klens, vlens=vlens):
            e = dict(env)
            def add_i(i, env_i, pc_i):
                if i == len(keys):
                    def finished(buf, env_f, pc_f):
                        raw = V(ex, env_f, buf)
                        def read(ret, env_r, pc_r):
                            ok = isinstance(ret, Enum) and ret.tag == 'Ok'
                            posts = [('a block written by BlockBuilder is rejected by BlockReader::new', BoolVal(ok))]
                            if ok:
                                r = ret.fields[0]; ents = r[bf.index('block_entries')]
                                while isinstance(ents, Ref): ents = ex.deref(env_r, ents)
                                conds = [BoolVal(isinstance(ents, list) and len(ents) == len(keys))]
                                if isinstance(ents, list) and len(ents) == len(keys):
                                    for en, kk, vv in zip(ents, K, vals):
                                        gv = en[ef.index('value')]
                                        conds.append(same_key(mir, ex, en[ef.index('key')], kk))
                                        conds.append(lex_eq(gv, vv) if isinstance(gv, list) else BoolVal(False))
                                posts.append(('the entries read back from a block differ from the entries added (key bytes, sequence, operation, value, order)', And(*conds)))
                                rp = r[bf.index('restart_point_indexes')]
                                want_rp = list(range(0, len(keys), interval))
                                got_rp = [simplify(x).as_long() if is_bv(x) and is_bv_value(simplify(x)) else None for x in rp] if isinstance(rp, list) else None
                                posts.append(('the restart points of a block are not the entries 0, interval, 2 x interval, ...', BoolVal(got_rp == want_rp)))
                            res.cases[case] = res.cases.get(case, 0) + 1
                            for label, post, m in ex.check_posts(posts, pc_r):
                                res.violations.append({'label': label, 'case': case, 'replay': ['block_codec', ','.join(map(str, klens)), ','.join(map(str, vlens)), str(interval)],
                                                       'model': {str(d): str(m[d]) for d in m.decls()}})
                        ex.run_fn(rd, [raw], dict(env_f), pc_f, read)
                    return ex.run_fn(fin, [Ref('$bb')], env_i, pc_i, finished)
                ex.run_fn(add, [Ref('$bb'), keys[i][0], list(vals[i])], env_i, pc_i, lambda _r, e2, p2: add_i(i + 1, e2, p2))
            add_i(0, e, pc)
        ex.top(newb, [Ref('$bb')], {'$state': {}, '$bb': dirty}, pre, after_new)
        res.absorb(ex)
        _panics(res, ex, pre, 'block_codec', case)
    res.wall_s = time.time() - t0
    if res.violations: res.status = 'violation'
    return res


def _panics(res, ex, pre, replay, case=''):
    for pcx, msg, where in ex.panics:
        ex.solver.push(); ex.solver.add(*pre); ex.solver.add(*[c for c in pcx if not isinstance(c, bool)]); feas = str(ex.solver.check()) == 'sat'; ex.solver.pop()
        if feas:
            res.panic_paths += 1
            res.violations.append({'label': 'panic while encoding / decoding: ' + msg[:90], 'case': case, 'replay': [replay] if replay == 'key_codec' else ['block_codec', '1,1,1', '1,0,1', '2']})


def o13_6_confirm(v, out):
    """Native: (key_codec) internal keys with user keys of 0..4 bytes drawn from {0x00, 0x01, 0x7f, 0x80, 0xff}, extreme sequence numbers and both
    operations go through as_bytes / try_from; short buffers and foreign operation bytes must be rejected.  (block_codec) blocks of the
    counterexample's shape are built with the real BlockBuilder from a deterministic sweep of byte values (equal user keys with descending
    sequences, shared prefixes reaching into the sequence bytes, 0x00 / 0xff bytes) and read back with the real BlockReader and its iterator."""
    if out.get('_rc') != 0: return (True, 'native run panicked / failed: %s' % out.get('_stderr', '')[-300:]) if 'panicked' in out.get('_stderr', '') else (False, 'native run failed: %s' % out.get('_stderr', '')[-300:])
    return (out.get('mismatches', '0') != '0', 'native: %s of %s round trips differ (first: %s)' % (out.get('mismatches'), out.get('cases'), out.get('first_mismatch')))


# ======================================================================================== readers over byte lists (`&[u8]` as std::io::Read)
def reader_summaries(S, V):
    """A `&[u8]` reader is a byte list held in a local; reading consumes a prefix (the local is overwritten with the rest)."""
    P = {}
    eof = lambda: Enum('Err', ({'kind': 'UnexpectedEof', '__ty': 'io::Error'},))
    last_raw = ['']
    def on_call(se, env, raw, vals): last_raw[0] = raw
    S['$on_call'] = on_call
    def read_fixed(se, env, pc, r):
        l = V(se, env, r); w = 4 if '::<u32>' in last_raw[0] else 8
        if len(l) < w: return lib.one(env, eof())
        se.store(env, r, l[w:]); return lib.one(env, Enum('Ok', (simplify(Concat(*reversed(l[:w]))),)))
    P[r'<&\[u8\] as FixedIntReader>::read_fixedint'] = read_fixed; P[r'<R as FixedIntReader>::read_fixedint'] = read_fixed
    def read_var(se, env, pc, r):
        l = V(se, env, r); width = 32 if '::<u32>' in last_raw[0] else 64
        # one alternative per number of bytes the varint may occupy; continuation bits that are not fixed on the path fork it
        outs = []; conds = []; val = BitVecVal(0, width); shift = 0; ended = False
        for i, b in enumerate(l[:10]):
            top = simplify(Extract(7, 7, b))
            if shift < width: val = val | (ZeroExt(width - 7, Extract(6, 0, b)) << shift)
            shift += 7
            fixed = top.as_long() if is_bv_value(top) else None
            if fixed != 1:
                c = conds + ([top == 0] if fixed is None else [])
                outs.append((And(*c) if c else None, Enum('Ok', (simplify(val),)), env.get('$state'), [(r, l[i + 1:])]))
            if fixed == 0: ended = True; break
            if fixed is None: conds = conds + [top == 1]
        if not ended: outs.append((And(*conds) if conds else None, eof(), env.get('$state')))
        return outs
    P[r'<&\[u8\] as VarIntReader>::read_varint'] = read_var; P[r'<R as VarIntReader>::read_varint'] = read_var
    def read_exact(se, env, pc, r, dst):
        l = V(se, env, r); n = len(V(se, env, dst))
        if len(l) < n: return lib.one(env, eof())
        se.store(env, dst, l[:n]); se.store(env, r, l[n:]); return lib.one(env, Enum('Ok', ((),)))
    P[r'<&\[u8\] as (?:std::io::)?Read>::read_exact'] = read_exact; P[r'<R as (?:std::io::)?Read>::read_exact'] = read_exact
    def from_elem(se, env, pc, z, n):
        c = se.concretize(n)
        K = 40           # no buffer of these obligations is longer: a vector of K + 1 bytes makes the following read_exact fail
        if c is not None: return lib.one(env, [z] * min(c, K + 1))
        # a length decoded from symbolic bytes (only on paths of a misbehaving decoder): one alternative per length
        return [(n == BitVecVal(k, n.size()), [z] * k, env.get('$state')) for k in range(K + 1)] + [(UGT(n, BitVecVal(K, n.size())), [z] * (K + 1), env.get('$state'))]
    P[r'std::vec::from_elem'] = from_elem
    def range32(se, env, pc, r):
        a, b = se.concretize(r[0]), se.concretize(r[1])
        if a is None or b is None: raise Inconclusive('loop over a symbolic range')
        if b - a > 16: raise Inconclusive('range of %d steps' % (b - a))
        return lib.one(env, {'it': [BitVecVal(i, 32) for i in range(a, b)]})
    P[r'<std::ops::Range<u32> as IntoIterator>::into_iter'] = range32
    P[r'<std::ops::Range<u32> as Iterator>::next'] = lib.it_next
    P[r'<Vec<u8> as DerefMut>::deref_mut'] = lib.ident
    P[r'Vec::with_capacity'] = lambda se, env, pc, n: lib.one(env, [])
    S['$patterns'] = dict(list(P.items()) + [(k, v) for k, v in S['$patterns'].items() if k not in P])
    return S


def o6_5_batch_bytes(mir, tier):
    """Batch encoder (`From<&Batch> for Vec<u8>`, `From<&BatchElement>`) and decoder (`Batch::try_from`, `BatchElement::read_element`,
    `read_length_prefixed_slice`) executed from MIR over lists of symbolic bytes: batches of 0..2 (3) operations, every put / delete
    pattern, keys and values of 0..2 symbolic bytes, free starting sequence.  Reference: the decoded batch equals the encoded one (sequence,
    kinds, key bytes, value bytes, order); every strict prefix of the encoding is rejected (a cut record never decodes as a shorter
    batch); the layout is fixed64 sequence, varint count, then per operation: kind byte, varint key length, key, [varint value length, value]."""
    enc = [f for f in mir.fns.values() if f.name == 'from' and f.path.startswith('batch::') and f.trait and f.trait.startswith('From') and f.self_ty and 'Vec' in f.self_ty]
    encb = [f for f in enc if 'BatchElement' not in (f.trait_full or '')]; ence = [f for f in enc if 'BatchElement' in (f.trait_full or '')]
    dec = [f for f in mir.fns.values() if f.name == 'try_from' and f.path.startswith('batch::') and f.self_ty == 'Batch']
    if not (len(encb) == 1 and len(ence) == 1 and len(dec) == 1): raise Inconclusive('batch codec functions not found uniquely (%d %d %d)' % (len(encb), len(ence), len(dec)))
    encb, ence, dec = encb[0], ence[0], dec[0]
    NMAX = 2 if tier == 'quick' else 3
    lens = [(0, 0), (1, 2), (2, 1)] if tier == 'quick' else [(a, b) for a in range(3) for b in range(3)]
    res = Result('O6.5 batch codec over symbolic bytes', [encb.path, ence.path, dec.path, 'BatchElement::read_element, read_length_prefixed_slice, Batch::new / add_operation / set_starting_seq_number, BatchElement::new (inlined)'],
                 'batches of 0..%d operations, every put / delete pattern, (key, value) lengths from %s, all bytes and the starting sequence symbolic; every strict prefix of every encoding; lengths >= 128 (multi-byte varints) outside' % (NMAX, lens))
    t0 = time.time()
    bf = mir.struct_fields('Batch'); ef = mir.struct_fields('BatchElement')
    for n in range(NMAX + 1):
        for kinds in itertools.product((True, False), repeat=n):
            for li in range(len(lens)):
                S, V, F = byte_summaries(mir); S = reader_summaries(S, V); P = S['$patterns']
                def opd(se, env, v):
                    while isinstance(v, Ref): v = se.deref(env, v)
                    d = v if is_bv(v) else se.discr_of(v)
                    return ZeroExt(64 - d.size(), d) if d.size() < 64 else d
                P[r'<Operation as PartialEq>::eq'] = lambda se, env, pc, a, b: lib.one(env, opd(se, env, a) == opd(se, env, b))
                P[r'<Vec<u8> as From<&BatchElement>>::from'] = lambda se, env, pc, e: Delegate(ence, [e])
                P[r'<&\[u8\] as ReadHelpers>::read_length_prefixed_slice'] = lambda se, env, pc, r, f=[x for x in mir.fns.values() if x.path.endswith('::read_length_prefixed_slice') and 'utils::io' in x.path][0]: Delegate(f, [r])
                s0 = BitVec('starting_sequence', 64)
                keys = [[BitVec('key%d_%d' % (i, j), 8) for j in range(lens[(li + i) % len(lens)][0])] for i in range(n)]
                vals = [[BitVec('val%d_%d' % (i, j), 8) for j in range(lens[(li + i) % len(lens)][1])] for i in range(n)]
                ops = [mir.mk_struct('BatchElement', operation=bv(1 if kinds[i] else 0), user_key=list(keys[i]), value=Enum('Some', (list(vals[i]),)) if kinds[i] else Enum('None'), size=bv(0)) for i in range(n)]
                batch = mir.mk_struct('Batch', starting_seq_number=Enum('Some', (s0,)), operations=list(ops))
                ex = Exec(mir, S, loop_bound=NMAX + 6, opaque_calls_ok=False)
                case = '%d ops %s lengths %s' % (n, ''.join('P' if x else 'D' for x in kinds), [(len(k), len(v)) for k, v in zip(keys, vals)])
                def encoded(buf, env, pc, ex=ex, n=n, kinds=kinds, s0=s0, keys=keys, vals=vals, case=case):
                    raw = V(ex, env, buf)
                    want = [Extract(8 * i + 7, 8 * i, s0) for i in range(8)] + [b8(n)]
                    for i in range(n):
                        want += [b8(1 if kinds[i] else 0), b8(len(keys[i]))] + keys[i] + (([b8(len(vals[i]))] + vals[i]) if kinds[i] else [])
                    posts = [('the encoding of a batch is not: fixed64 sequence, varint count, then per operation kind byte, length-prefixed key, [length-prefixed value]', lex_eq(raw, want))]
                    for label, post, m in ex.check_posts(posts, pc):
                        res.violations.append({'label': label, 'case': case, 'replay': ['batch_codec']})
                    def decoded(ret, env2, pc2):
                        ok = isinstance(ret, Enum) and ret.tag == 'Ok'
                        posts = [('an encoded batch does not decode', BoolVal(ok))]
                        if ok:
                            b = ret.fields[0]; sq = b[bf.index('starting_seq_number')]; got = b[bf.index('operations')]
                            posts.append(('the starting sequence of a batch does not survive encode + decode', sq.fields[0] == s0 if isinstance(sq, Enum) and sq.tag == 'Some' and is_bv(sq.fields[0]) else BoolVal(False)))
                            posts.append(('a decoded batch does not hold as many operations as were encoded', BoolVal(isinstance(got, list) and len(got) == n)))
                            for i, g in enumerate(got[:n] if isinstance(got, list) else []):
                                k = g[ef.index('user_key')]; v = g[ef.index('value')]; o = opd(ex, env2, g[ef.index('operation')])
                                sk = lex_eq(k, keys[i]) if isinstance(k, list) else BoolVal(False)
                                if kinds[i]: sv = lex_eq(v.fields[0], vals[i]) if isinstance(v, Enum) and v.tag == 'Some' and isinstance(v.fields[0], list) else BoolVal(False)
                                else: sv = BoolVal(isinstance(v, Enum) and v.tag == 'None')
                                posts.append(('operation %d of a batch does not survive encode + decode (kind, key bytes, value bytes)' % i, And(o == bv(1 if kinds[i] else 0), sk, sv)))
                        res.cases[case] = res.cases.get(case, 0) + 1
                        for label, post, m in ex.check_posts(posts, pc2):
                            res.violations.append({'label': label, 'case': case, 'model': {str(d): str(m[d]) for d in m.decls()}, 'replay': ['batch_codec']})
                    ex.run_fn(dec, [list(raw)], dict(env), pc, decoded)
                    for cut in range(len(raw)):
                        def cut_decoded(ret, env3, pc3, cut=cut):
                            posts = [('a strict prefix of an encoded batch decodes (a record cut short is taken for a complete, shorter batch)', BoolVal(isinstance(ret, Enum) and ret.tag == 'Err'))]
                            for label, post, m in ex.check_posts(posts, pc3):
                                res.violations.append({'label': label, 'case': case, 'cut': cut, 'replay': ['truncated_batch']})
                        ex.run_fn(dec, [list(raw[:cut])], dict(env), pc, cut_decoded)
                ex.top(encb, [Ref('$b')], {'$state': {}, '$b': batch}, [], encoded)
                res.absorb(ex)
                _panics(res, ex, [], 'key_codec')
                if n == 0: break          # no lengths to vary
    res.wall_s = time.time() - t0
    if res.violations: res.status = 'violation'
    return res


def o6_5_confirm(v, out):
    """Native: `batch_codec` (495 real batches with key / value lengths 0, 1, 5, 127, 128, 300, 20000 through the real codec) or
    `truncated_batch` (every proper prefix of an encoded batch must be rejected)."""
    if out.get('_rc') != 0: return (False, 'native run failed: %s' % out.get('_stderr', '')[-300:])
    if v['replay'][0] == 'truncated_batch': return (out.get('accepted_prefixes', '0') != '0', 'native: %s of %s proper prefixes of an encoded batch decode' % (out.get('accepted_prefixes'), out.get('prefixes')))
    return (out.get('mismatches', '0') != '0', 'native: %s of %s encoded batches decode to something else (first: %s)' % (out.get('mismatches'), out.get('batches'), out.get('first_mismatch')))
