"""O13.6 byte-level codecs executed from MIR over lists of symbolic bytes: InternalKey <-> bytes, BlockBuilder -> BlockReader.

Unlike the token-stream obligations (O6.3, O10.8) nothing about the byte layout is by contract here: a `Vec<u8>` is a Python list of
8-bit terms (concrete length per path, symbolic contents), varints / fixed ints are encoded and decoded bit-exactly by the summaries
below, prefix compression compares real bytes.  This is the part of C13 that CBMC could not reach (T6/T10: OOM on the builder with
restart interval 16)."""
import itertools, time
from z3 import BitVec, BitVecVal, Bool, BoolVal, And, Or, Not, ULT, ULE, UGT, UGE, Extract, ZeroExt, Concat, If, simplify, is_bv, is_bv_value, is_false
from ..exec import Exec, Enum, Ref, Opaque, Inconclusive, Delegate, bv
from ..ob import Result, mval
from .. import lib, lib2


def b8(n): return BitVecVal(n, 8)


def lex_lt(a, b):
    """a < b for two byte lists (lexicographic, a proper prefix is smaller)."""
    n = min(len(a), len(b)); out = BoolVal(len(a) < len(b))
    for i in reversed(range(n)): out = If(ULT(a[i], b[i]), BoolVal(True), If(a[i] == b[i], out, BoolVal(False)))
    return out
def lex_eq(a, b): return And(*[x == y for x, y in zip(a, b)]) if len(a) == len(b) else BoolVal(False)


def byte_summaries(mir):
    S = lib2.install(lib.std_summaries()); P0 = S['$patterns']; P = {}
    def V(se, env, r):
        v = r
        while isinstance(v, Ref): v = se.deref(env, v)
        if isinstance(v, list): return [se.deref(env, x) if isinstance(x, Ref) else x for x in v]
        raise Inconclusive('expected a byte list, got %r' % (v,))
    def conc(se, n):
        if isinstance(n, int): return n
        c = se.concretize(n)
        if c is None: raise Inconclusive('symbolic length / position %s in a byte-list operation' % n)
        return c
    # ---- integer codecs (bit exact)
    def enc_var(se, env, pc, x):
        x = se.deref(env, x) if isinstance(x, Ref) else x
        n = conc(se, x); out = []
        while n >= 0x80: out.append(b8((n & 0x7f) | 0x80)); n >>= 7
        out.append(b8(n)); return lib.one(env, out)
    P[r'<u32 as VarInt>::encode_var_vec'] = enc_var
    def dec_var(se, env, pc, s):
        l = V(se, env, s); val = 0; shift = 0
        for i, b in enumerate(l[:5]):
            c = conc(se, b)
            val |= (c & 0x7f) << shift; shift += 7
            if c < 0x80: return lib.one(env, Enum('Some', ((BitVecVal(val & 0xffffffff, 32), bv(i + 1)),)))
        return lib.one(env, Enum('None'))
    P[r'<u32 as VarInt>::decode_var'] = dec_var
    def enc_fixed(width):
        def f(se, env, pc, x):
            x = se.deref(env, x) if isinstance(x, Ref) else x
            if not is_bv(x): raise Inconclusive('encode_fixed of %r' % (x,))
            if x.size() > width: x = Extract(width - 1, 0, x)
            if x.size() < width: x = ZeroExt(width - x.size(), x)
            return lib.one(env, [simplify(Extract(8 * i + 7, 8 * i, x)) for i in range(width // 8)])
        return f
    P[r'<u32 as FixedInt>::encode_fixed_vec'] = enc_fixed(32); P[r'<u64 as FixedInt>::encode_fixed_vec'] = enc_fixed(64)
    def dec_fixed(width):
        def f(se, env, pc, s):
            l = V(se, env, s)
            if len(l) != width // 8:
                se.panics.append((list(pc), 'decode_fixed: slice of %d bytes for a %d-bit integer (integer-encoding asserts the length)' % (len(l), width), 'summary')); return []
            return lib.one(env, simplify(Concat(*reversed(l))) if len(l) > 1 else l[0])
        return f
    P[r'<u32 as FixedInt>::decode_fixed'] = dec_fixed(32); P[r'<u64 as FixedInt>::decode_fixed'] = dec_fixed(64)
    # ---- byte vectors
    def extend(se, env, pc, v, src):
        se.store(env, v, V(se, env, v) + V(se, env, src)); return lib.one(env, ())
    P[r'<Vec<u8> as Extend<u8>>::extend'] = extend
    P[r'<Vec<u8> as Extend<&u8>>::extend'] = extend
    P[r'Vec::extend_from_slice'] = extend
    def index(se, env, pc, r, i):
        l = V(se, env, r)
        if isinstance(i, dict) and i.get('__ty') in ('Range', 'RangeFrom', 'RangeTo', 'RangeInclusive', 'RangeFull', 'RangeToInclusive'):
            t = i['__ty']
            a = 0 if t in ('RangeTo', 'RangeFull', 'RangeToInclusive') else conc(se, i[0])
            b = len(l) if t in ('RangeFrom', 'RangeFull') else (conc(se, i[0]) if t == 'RangeTo' else conc(se, i[0]) + 1 if t == 'RangeToInclusive' else conc(se, i[1]) + (1 if t == 'RangeInclusive' else 0))
            if a > b or b > len(l):
                se.panics.append((list(pc), 'range %d..%d out of bounds for a slice of %d bytes' % (a, b, len(l)), 'summary')); return []
            return lib.one(env, l[a:b])
        k = conc(se, i)
        if k >= len(l):
            se.panics.append((list(pc), 'index %d out of bounds for a slice of %d bytes' % (k, len(l)), 'summary')); return []
        return lib.one(env, l[k])
    P[r'<Vec<u8> as Index(?:Mut)?<.*>>::index(?:_mut)?'] = index
    P[r'<\[u8\] as Index(?:Mut)?<.*>>::index(?:_mut)?'] = index
    P[r'(?:std::ops::|core::ops::)?RangeInclusive::new'] = lambda se, env, pc, a, b: lib.one(env, {0: a, 1: b, '__ty': 'RangeInclusive'})
    P[r'Vec::truncate'] = lambda se, env, pc, v, n: (se.store(env, v, V(se, env, v)[:conc(se, n)]), lib.one(env, ()))[1]
    P[r'<Vec<u8> as Clone>::clone'] = lambda se, env, pc, v: lib.one(env, V(se, env, v))
    P[r'(?:core|std)::slice::<impl \[u8\]>::to_vec'] = lambda se, env, pc, v: lib.one(env, V(se, env, v))
    P[r'(?:std|core)::cmp::min'] = lambda se, env, pc, a, b: lib.one(env, If(ULE(a, b), a, b))
    P[r'<Vec<u8> as PartialEq>::eq'] = lambda se, env, pc, a, b: lib.one(env, lex_eq(V(se, env, a), V(se, env, b)))
    def bcmp(se, env, pc, a, b):
        x, y = V(se, env, a), V(se, env, b); return lib.one(env, lib.ord_of(lex_lt(x, y), lex_eq(x, y)))
    P[r'<(?:\[u8\]|Vec<u8>|&\[u8\]|&Vec<u8>) as Ord>::cmp'] = bcmp
    for rel, f in (('lt', lambda x, y: lex_lt(x, y)), ('le', lambda x, y: Not(lex_lt(y, x))), ('gt', lambda x, y: lex_lt(y, x)), ('ge', lambda x, y: Not(lex_lt(x, y))),
                   ('eq', lex_eq), ('ne', lambda x, y: Not(lex_eq(x, y)))):
        P[r'<(?:\[u8\]|Vec<u8>|&\[u8\]|&Vec<u8>|&&\[u8\]) as Partial(?:Ord|Eq)(?:<.*>)?>::' + rel] = (lambda f: lambda se, env, pc, a, b: lib.one(env, f(V(se, env, a), V(se, env, b))))(f)
    # ---- the key type of data blocks is InternalKey: generic calls are resolved to its impls (executed from their own MIR)
    asb = mir.method('InternalKey', 'as_bytes', trait='RainDbKeyType')
    tf = [f for f in mir.fns.values() if f.name == 'try_from' and f.self_ty == 'InternalKey' and 'key::' in f.path]
    opf = [f for f in mir.fns.values() if f.name == 'try_from' and f.self_ty == 'Operation']
    if len(tf) != 1 or len(opf) != 1: raise Inconclusive('InternalKey / Operation try_from not found uniquely (%d, %d)' % (len(tf), len(opf)))
    P[r'<K as RainDbKeyType>::as_bytes'] = lambda se, env, pc, k: Delegate(asb, [k])
    P[r'<K as TryFrom<Vec<u8>>>::try_from'] = lambda se, env, pc, v: Delegate(tf[0], [v])
    P[r'<u8 as TryInto<Operation>>::try_into'] = lambda se, env, pc, b: Delegate(opf[0], [b])
    P[r'<Result<.*> as FromResidual<Result<Infallible, .*>>>::from_residual'] = lambda se, env, pc, r: lib.one(env, r)
    P.update(lib.ref_partial_ord(mir, 'InternalKey'))
    P[r'must_use'] = lib.ident; P[r'format'] = lambda se, env, pc, *a: lib.one(env, {'str': '<formatted>'})
    # byte-level summaries take precedence over the abstract-key ones of the standard set (first matching pattern wins)
    S['$patterns'] = dict(list(P.items()) + [(k, v) for k, v in P0.items() if k not in P])
    return S, V, {'as_bytes': asb, 'try_from': tf[0], 'op_try_from': opf[0]}


def sym_key(mir, name, n):
    uk = [BitVec('%s_u%d' % (name, i), 8) for i in range(n)]
    seq, op = BitVec(name + '_seq', 64), BitVec(name + '_op', 64)
    return mir.mk_struct('InternalKey', user_key=uk, sequence_number=seq, operation=op), (uk, seq, op)


def key_fields(mir, ex, k):
    n = mir.struct_fields('InternalKey')
    op = k[n.index('operation')]
    d = ex.discr_of(op) if not is_bv(op) else op
    return k[n.index('user_key')], k[n.index('sequence_number')], d


def same_key(mir, ex, got, want):
    """got: decoded InternalKey value; want: (uk bytes, seq, op) -> z3 condition (False if the shapes differ)."""
    try: uk, seq, op = key_fields(mir, ex, got)
    except Exception: return BoolVal(False)
    if not isinstance(uk, list) or len(uk) != len(want[0]) or op is None or not is_bv(seq): return BoolVal(False)
    if op.size() != want[2].size(): op = ZeroExt(want[2].size() - op.size(), op) if op.size() < want[2].size() else Extract(want[2].size() - 1, 0, op)
    return And(lex_eq(uk, want[0]), seq == want[1], op == want[2])


def ikey_lt(a, b):
    """(user key bytes asc, sequence desc) on (uk, seq, op) triples."""
    return Or(lex_lt(a[0], b[0]), And(lex_eq(a[0], b[0]), UGT(a[1], b[1])))


def o13_6_block_codec(mir, tier):
    """(a) InternalKey::as_bytes followed by InternalKey::try_from, user keys of 0..3 (4) symbolic bytes, free 64-bit sequence number,
    operation Put / Delete: the decoded key equals the encoded one; any other operation byte and every buffer shorter than 9 bytes is
    rejected.  (b) BlockBuilder<InternalKey>::add_entry x n + finalize, then BlockReader::new on the produced bytes (deserialize_entries,
    deserialize_restart_offsets inlined), n = 1..3 entries, user keys of 0..2 symbolic bytes in strictly ascending internal-key order
    (equal user keys with descending sequence numbers included, so the shared prefix may reach into the sequence bytes), values of
    0..2 symbolic bytes, restart intervals 1, 2, 16.  Reference: no panic (the builder asserts that its own prefix compression is
    invertible); the reader accepts the block and yields exactly the entries added - same keys (user key bytes, sequence, operation), same
    values, same order - and the restart points are the entries 0, interval, 2 x interval ..."""
    res = Result('O13.6 InternalKey and block codecs over symbolic bytes', [], '')
    t0 = time.time()
    S, V, F = byte_summaries(mir)
    res.functions = [F['as_bytes'].path, F['try_from'].path, F['op_try_from'].path]
    # ---------------------------------------------------------------- (a) InternalKey codec
    KMAX = 3 if tier == 'quick' else 4
    for n in range(KMAX + 1):
        S, V, F = byte_summaries(mir)
        ex = Exec(mir, S, loop_bound=12, opaque_calls_ok=False)
        key, (uk, seq, op) = sym_key(mir, 'k', n)
        pre = [ULE(op, bv(1))]
        def encoded(buf, env, pc, ex=ex, n=n, uk=uk, seq=seq, op=op):
            l = V(ex, env, buf)
            want_bytes = list(uk) + [Extract(8 * i + 7, 8 * i, seq) for i in range(8)] + [Extract(7, 0, op)]
            posts = [('InternalKey::as_bytes does not produce user key, 8 little-endian sequence bytes, operation byte', lex_eq(l, want_bytes))]
            for label, post, m in ex.check_posts(posts, pc):
                res.violations.append({'label': label, 'user_key_len': n, 'replay': ['key_codec']})
            e = dict(env); e['$buf'] = l
            def decoded(ret, env2, pc2):
                ok = isinstance(ret, Enum) and ret.tag == 'Ok'
                posts = [('an encoded InternalKey does not decode', BoolVal(ok))]
                if ok: posts.append(('an InternalKey does not survive as_bytes + try_from (user key, sequence number, operation)', same_key(mir, ex, ret.fields[0], (uk, seq, op))))
                res.cases['key codec: user key of %d bytes' % n] = 1
                for label, post, m in ex.check_posts(posts, pc2):
                    res.violations.append({'label': label, 'user_key_len': n, 'replay': ['key_codec']})
            ex.run_fn(F['try_from'], [l], e, pc, decoded)
        ex.top(F['as_bytes'], [Ref('$key')], {'$state': {}, '$key': key}, pre, encoded)
        res.absorb(ex)
        _panics(res, ex, pre, 'key_codec')
    # arbitrary bytes: short buffers and foreign operation bytes are rejected, everything else decodes to the bytes' own fields
    for n in (0, 5, 8, 9, 10):
        S, V, F = byte_summaries(mir)
        ex = Exec(mir, S, loop_bound=12, opaque_calls_ok=False)
        raw = [BitVec('raw%d' % i, 8) for i in range(n)]
        def parsed(ret, env, pc, ex=ex, n=n, raw=raw):
            ok = isinstance(ret, Enum) and ret.tag == 'Ok'
            if n < 9: posts = [('a buffer shorter than 9 bytes is accepted as an InternalKey', BoolVal(not ok))]
            else:
                valid = ULE(raw[-1], b8(1))
                posts = [('InternalKey::try_from does not accept exactly the buffers whose last byte is 0 (Delete) or 1 (Put)', valid if ok else Not(valid))]
                if ok: posts.append(('InternalKey::try_from does not read user key / sequence / operation from their positions',
                                     same_key(mir, ex, ret.fields[0], (raw[:n - 9], Concat(*reversed(raw[n - 9:n - 1])), ZeroExt(56, raw[-1])))))
            res.cases['key parse: %d arbitrary bytes' % n] = 1
            for label, post, m in ex.check_posts(posts, pc):
                res.violations.append({'label': label, 'buffer_len': n, 'replay': ['key_codec']})
        ex.top(F['try_from'], [list(raw)], {'$state': {}}, [], parsed)
        res.absorb(ex)
    # ---------------------------------------------------------------- (b) block builder -> block reader
    add = mir.method('BlockBuilder', 'add_entry'); fin = mir.method('BlockBuilder', 'finalize'); newb = mir.method('BlockBuilder', 'reset')
    rd = mir.method('BlockReader', 'new')
    res.functions += [newb.path, add.path, fin.path, rd.path, 'BlockReader::deserialize_entries, deserialize_restart_offsets (inlined)']
    if tier == 'quick':
        shapes = [((1,), (1,)), ((0, 1), (0, 2)), ((1, 1), (1, 0)), ((2, 2), (0, 1)), ((1, 1, 1), (1, 0, 1)), ((2, 1, 2), (0, 0, 0))]
        intervals = (1, 2, 16)
    else:
        shapes = [(kl, vl) for n in (1, 2) for kl in itertools.product((0, 1, 2), repeat=n) for vl in ([(0,) * n, (1,) * n, (2, 0, 1)[:n]])] + [(kl, (1, 0, 1)) for kl in itertools.product((0, 1, 2), repeat=3)]
        intervals = (1, 2, 3, 16)
    res.bounds = ('(a) user keys of 0..%d symbolic bytes, free sequence / operation; raw buffers of 0, 5, 8, 9, 10 arbitrary bytes; (b) %d shapes (user key lengths, value lengths) of 1..3 entries, '
                  'restart intervals %s, all bytes symbolic, keys strictly ascending in internal-key order; larger blocks, multi-byte varints (lengths >= 128) are outside' % (KMAX, len(shapes), list(intervals)))
    bf = mir.struct_fields('BlockReader'); ef = mir.struct_fields('BlockEntry')
    for (klens, vlens), interval in itertools.product(shapes, intervals):
        S, V, F = byte_summaries(mir)
        ex = Exec(mir, S, loop_bound=24, opaque_calls_ok=False, budget_s=900)
        keys = [sym_key(mir, 'k%d' % i, kl) for i, kl in enumerate(klens)]
        vals = [[BitVec('v%d_%d' % (i, j), 8) for j in range(vl)] for i, vl in enumerate(vlens)]
        K = [k[1] for k in keys]
        pre = [ULE(k[2], bv(1)) for k in K] + [ikey_lt(K[i], K[i + 1]) for i in range(len(K) - 1)]
        case = 'block: user key lengths %s, value lengths %s, restart interval %d' % (list(klens), list(vlens), interval)
        # `BlockBuilder::new` lowers `vec![0]` to raw-pointer code outside the executor's subset; the builder starts instead as a USED one (a
        # finalized block of other content) that is `reset()` - which is how TableBuilder reuses its builders between blocks
        dirty = mir.mk_struct('BlockBuilder', prefix_compression_restart_interval=bv(interval), buffer=[BitVec('old_buf%d' % i, 8) for i in range(3)], restart_points=[BitVecVal(0, 32), BitVecVal(17, 32)],
                              curr_compressed_count=bv(1), block_finalized=BoolVal(True), last_key_bytes=[BitVec('old_key%d' % i, 8) for i in range(10)], key_type_marker=())
        def after_new(_unit, env, pc, ex=ex, keys=keys, vals=vals, K=K, interval=interval, case=case, klens=klens, vlens=vlens):
            e = dict(env)
            def add_i(i, env_i, pc_i):
                if i == len(keys):
                    def finished(buf, env_f, pc_f):
                        raw = V(ex, env_f, buf)
                        def read(ret, env_r, pc_r):
                            ok = isinstance(ret, Enum) and ret.tag == 'Ok'
                            posts = [('a block written by BlockBuilder is rejected by BlockReader::new', BoolVal(ok))]
                            if ok:
                                r = ret.fields[0]; ents = r[bf.index('block_entries')]
                                while isinstance(ents, Ref): ents = ex.deref(env_r, ents)
                                conds = [BoolVal(isinstance(ents, list) and len(ents) == len(keys))]
                                if isinstance(ents, list) and len(ents) == len(keys):
                                    for en, kk, vv in zip(ents, K, vals):
                                        gv = en[ef.index('value')]
                                        conds.append(same_key(mir, ex, en[ef.index('key')], kk))
                                        conds.append(lex_eq(gv, vv) if isinstance(gv, list) else BoolVal(False))
                                posts.append(('the entries read back from a block differ from the entries added (key bytes, sequence, operation, value, order)', And(*conds)))
                                rp = r[bf.index('restart_point_indexes')]
                                want_rp = list(range(0, len(keys), interval))
                                got_rp = [simplify(x).as_long() if is_bv(x) and is_bv_value(simplify(x)) else None for x in rp] if isinstance(rp, list) else None
                                posts.append(('the restart points of a block are not the entries 0, interval, 2 x interval, ...', BoolVal(got_rp == want_rp)))
                            res.cases[case] = res.cases.get(case, 0) + 1
                            for label, post, m in ex.check_posts(posts, pc_r):
                                res.violations.append({'label': label, 'case': case, 'replay': ['block_codec', ','.join(map(str, klens)), ','.join(map(str, vlens)), str(interval)],
                                                       'model': {str(d): str(m[d]) for d in m.decls()}})
                        ex.run_fn(rd, [raw], dict(env_f), pc_f, read)
                    return ex.run_fn(fin, [Ref('$bb')], env_i, pc_i, finished)
                ex.run_fn(add, [Ref('$bb'), keys[i][0], list(vals[i])], env_i, pc_i, lambda _r, e2, p2: add_i(i + 1, e2, p2))
            add_i(0, e, pc)
        ex.top(newb, [Ref('$bb')], {'$state': {}, '$bb': dirty}, pre, after_new)
        res.absorb(ex)
        _panics(res, ex, pre, 'block_codec', case)
    res.wall_s = time.time() - t0
    if res.violations: res.status = 'violation'
    return res


def _panics(res, ex, pre, replay, case=''):
    for pcx, msg, where in ex.panics:
        ex.solver.push(); ex.solver.add(*pre); ex.solver.add(*[c for c in pcx if not isinstance(c, bool)]); feas = str(ex.solver.check()) == 'sat'; ex.solver.pop()
        if feas:
            res.panic_paths += 1
            res.violations.append({'label': 'panic while encoding / decoding: ' + msg[:90], 'case': case, 'replay': [replay] if replay == 'key_codec' else ['block_codec', '1,1,1', '1,0,1', '2']})


def o13_6_confirm(v, out):
    """Native: (key_codec) internal keys with user keys of 0..4 bytes drawn from {0x00, 0x01, 0x7f, 0x80, 0xff}, extreme sequence numbers and both
    operations go through as_bytes / try_from; short buffers and foreign operation bytes must be rejected.  (block_codec) blocks of the
    counterexample's shape are built with the real BlockBuilder from a deterministic sweep of byte values (equal user keys with descending
    sequences, shared prefixes reaching into the sequence bytes, 0x00 / 0xff bytes) and read back with the real BlockReader and its iterator."""
    if out.get('_rc') != 0: return (True, 'native run panicked / failed: %s' % out.get('_stderr', '')[-300:]) if 'panicked' in out.get('_stderr', '') else (False, 'native run failed: %s' % out.get('_stderr', '')[-300:])
    return (out.get('mismatches', '0') != '0', 'native: %s of %s round trips differ (first: %s)' % (out.get('mismatches'), out.get('cases'), out.get('first_mismatch')))


# ======================================================================================== readers over byte lists (`&[u8]` as std::io::Read)
def reader_summaries(S, V):
    """A `&[u8]` reader is a byte list held in a local; reading consumes a prefix (the local is overwritten with the rest)."""
    P = {}
    eof = lambda: Enum('Err', ({'kind': 'UnexpectedEof', '__ty': 'io::Error'},))
    last_raw = ['']
    def on_call(se, env, raw, vals): last_raw[0] = raw
    S['$on_call'] = on_call
    def read_fixed(se, env, pc, r):
        l = V(se, env, r); w = 4 if '::<u32>' in last_raw[0] else 8
        if len(l) < w: return lib.one(env, eof())
        se.store(env, r, l[w:]); return lib.one(env, Enum('Ok', (simplify(Concat(*reversed(l[:w]))),)))
    P[r'<&\[u8\] as FixedIntReader>::read_fixedint'] = read_fixed; P[r'<R as FixedIntReader>::read_fixedint'] = read_fixed
    def read_var(se, env, pc, r):
        l = V(se, env, r); width = 32 if '::<u32>' in last_raw[0] else 64
        # one alternative per number of bytes the varint may occupy; continuation bits that are not fixed on the path fork it
        outs = []; conds = []; val = BitVecVal(0, width); shift = 0; ended = False
        for i, b in enumerate(l[:10]):
            top = simplify(Extract(7, 7, b))
            if shift < width: val = val | (ZeroExt(width - 7, Extract(6, 0, b)) << shift)
            shift += 7
            fixed = top.as_long() if is_bv_value(top) else None
            if fixed != 1:
                c = conds + ([top == 0] if fixed is None else [])
                outs.append((And(*c) if c else None, Enum('Ok', (simplify(val),)), env.get('$state'), [(r, l[i + 1:])]))
            if fixed == 0: ended = True; break
            if fixed is None: conds = conds + [top == 1]
        if not ended: outs.append((And(*conds) if conds else None, eof(), env.get('$state')))
        return outs
    P[r'<&\[u8\] as VarIntReader>::read_varint'] = read_var; P[r'<R as VarIntReader>::read_varint'] = read_var
    def read_exact(se, env, pc, r, dst):
        l = V(se, env, r); n = len(V(se, env, dst))
        if len(l) < n: return lib.one(env, eof())
        se.store(env, dst, l[:n]); se.store(env, r, l[n:]); return lib.one(env, Enum('Ok', ((),)))
    P[r'<&\[u8\] as (?:std::io::)?Read>::read_exact'] = read_exact; P[r'<R as (?:std::io::)?Read>::read_exact'] = read_exact
    # bounded readers: reader.by_ref().take(n).read_to_end(&mut vec) moves min(n, bytes left) bytes
    P[r'<&\[u8\] as (?:std::io::)?Read>::by_ref'] = lib.ident; P[r'<R as (?:std::io::)?Read>::by_ref'] = lib.ident
    def take(se, env, pc, r, n): return lib.one(env, {'take_of': r, 'limit': n, '__ty': 'Take'})
    P[r'<&mut &\[u8\] as (?:std::io::)?Read>::take'] = take; P[r'<&mut R as (?:std::io::)?Read>::take'] = take; P[r'<&\[u8\] as (?:std::io::)?Read>::take'] = take
    def take_read_to_end(se, env, pc, t, dst):
        tv = se.deref(env, t) if isinstance(t, Ref) else t
        if not (isinstance(tv, dict) and 'take_of' in tv): raise Inconclusive('read_to_end on %r' % (tv,))
        r = tv['take_of']; l = V(se, env, r); lim = tv['limit']
        outs = []
        for k in range(len(l) + 1):
            cond = (lim == BitVecVal(k, lim.size())) if k < len(l) else UGE(lim, BitVecVal(k, lim.size()))
            outs.append((cond, Enum('Ok', (BitVecVal(k, 64),)), env.get('$state'), [(dst, list(V(se, env, dst)) + l[:k]), (r, l[k:])]))
        return outs
    P[r'<(?:std::io::)?Take<.*> as (?:std::io::)?Read>::read_to_end'] = take_read_to_end
    P[r'<u64 as From<u32>>::from'] = lambda se, env, pc, x: lib.one(env, ZeroExt(32, x))
    def from_elem(se, env, pc, z, n):
        c = se.concretize(n)
        K = 40           # no buffer of these obligations is longer: a vector of K + 1 bytes makes the following read_exact fail
        if c is not None: return lib.one(env, [z] * min(c, 4096))           # longer than any buffer here: a following read_exact fails either way
        # a length decoded from symbolic bytes (only on paths of a misbehaving decoder): one alternative per length
        return [(n == BitVecVal(k, n.size()), [z] * k, env.get('$state')) for k in range(K + 1)] + [(UGT(n, BitVecVal(K, n.size())), [z] * (K + 1), env.get('$state'))]
    P[r'std::vec::from_elem'] = from_elem
    def range32(se, env, pc, r):
        a, b = se.concretize(r[0]), se.concretize(r[1])
        if a is None or b is None: raise Inconclusive('loop over a symbolic range')
        if b - a > 16: raise Inconclusive('range of %d steps' % (b - a))
        return lib.one(env, {'it': [BitVecVal(i, 32) for i in range(a, b)]})
    P[r'<std::ops::Range<u32> as IntoIterator>::into_iter'] = range32
    P[r'<std::ops::Range<u32> as Iterator>::next'] = lib.it_next
    P[r'<Vec<u8> as DerefMut>::deref_mut'] = lib.ident
    P[r'Vec::with_capacity'] = lambda se, env, pc, n: lib.one(env, [])
    S['$patterns'] = dict(list(P.items()) + [(k, v) for k, v in S['$patterns'].items() if k not in P])
    return S


def o6_5_batch_bytes(mir, tier):
    """Batch encoder (`From<&Batch> for Vec<u8>`, `From<&BatchElement>`) and decoder (`Batch::try_from`, `BatchElement::read_element`,
    `read_length_prefixed_slice`) executed from MIR over lists of symbolic bytes: batches of 0..2 (3) operations, every put / delete
    pattern, keys and values of 0..2 symbolic bytes, free starting sequence.  Reference: the decoded batch equals the encoded one (sequence,
    kinds, key bytes, value bytes, order); every strict prefix of the encoding is rejected (a cut record never decodes as a shorter
    batch); the layout is fixed64 sequence, varint count, then per operation: kind byte, varint key length, key, [varint value length, value]."""
    enc = [f for f in mir.fns.values() if f.name == 'from' and f.path.startswith('batch::') and f.trait and f.trait.startswith('From') and f.self_ty and 'Vec' in f.self_ty]
    encb = [f for f in enc if 'BatchElement' not in (f.trait_full or '')]; ence = [f for f in enc if 'BatchElement' in (f.trait_full or '')]
    dec = [f for f in mir.fns.values() if f.name == 'try_from' and f.path.startswith('batch::') and f.self_ty == 'Batch']
    if not (len(encb) == 1 and len(ence) == 1 and len(dec) == 1): raise Inconclusive('batch codec functions not found uniquely (%d %d %d)' % (len(encb), len(ence), len(dec)))
    encb, ence, dec = encb[0], ence[0], dec[0]
    NMAX = 2 if tier == 'quick' else 3
    lens = [(0, 0), (1, 2), (2, 1)] if tier == 'quick' else [(a, b) for a in range(3) for b in range(3)]
    res = Result('O6.5 batch codec over symbolic bytes', [encb.path, ence.path, dec.path, 'BatchElement::read_element, read_length_prefixed_slice, Batch::new / add_operation / set_starting_seq_number, BatchElement::new (inlined)'],
                 'batches of 0..%d operations, every put / delete pattern, (key, value) lengths from %s, all bytes and the starting sequence symbolic; every strict prefix of every encoding; lengths >= 128 (multi-byte varints) outside' % (NMAX, lens))
    t0 = time.time()
    bf = mir.struct_fields('Batch'); ef = mir.struct_fields('BatchElement')
    for n in range(NMAX + 1):
        for kinds in itertools.product((True, False), repeat=n):
            for li in range(len(lens)):
                S, V, F = byte_summaries(mir); S = reader_summaries(S, V); P = S['$patterns']
                def opd(se, env, v):
                    while isinstance(v, Ref): v = se.deref(env, v)
                    d = v if is_bv(v) else se.discr_of(v)
                    return ZeroExt(64 - d.size(), d) if d.size() < 64 else d
                P[r'<Operation as PartialEq>::eq'] = lambda se, env, pc, a, b: lib.one(env, opd(se, env, a) == opd(se, env, b))
                P[r'<Vec<u8> as From<&BatchElement>>::from'] = lambda se, env, pc, e: Delegate(ence, [e])
                P[r'<&\[u8\] as ReadHelpers>::read_length_prefixed_slice'] = lambda se, env, pc, r, f=[x for x in mir.fns.values() if x.path.endswith('::read_length_prefixed_slice') and 'utils::io' in x.path][0]: Delegate(f, [r])
                s0 = BitVec('starting_sequence', 64)
                keys = [[BitVec('key%d_%d' % (i, j), 8) for j in range(lens[(li + i) % len(lens)][0])] for i in range(n)]
                vals = [[BitVec('val%d_%d' % (i, j), 8) for j in range(lens[(li + i) % len(lens)][1])] for i in range(n)]
                ops = [mir.mk_struct('BatchElement', operation=bv(1 if kinds[i] else 0), user_key=list(keys[i]), value=Enum('Some', (list(vals[i]),)) if kinds[i] else Enum('None'), size=bv(0)) for i in range(n)]
                batch = mir.mk_struct('Batch', starting_seq_number=Enum('Some', (s0,)), operations=list(ops))
                ex = Exec(mir, S, loop_bound=NMAX + 6, opaque_calls_ok=False)
                case = '%d ops %s lengths %s' % (n, ''.join('P' if x else 'D' for x in kinds), [(len(k), len(v)) for k, v in zip(keys, vals)])
                def encoded(buf, env, pc, ex=ex, n=n, kinds=kinds, s0=s0, keys=keys, vals=vals, case=case):
                    raw = V(ex, env, buf)
                    want = [Extract(8 * i + 7, 8 * i, s0) for i in range(8)] + [b8(n)]
                    for i in range(n):
                        want += [b8(1 if kinds[i] else 0), b8(len(keys[i]))] + keys[i] + (([b8(len(vals[i]))] + vals[i]) if kinds[i] else [])
                    posts = [('the encoding of a batch is not: fixed64 sequence, varint count, then per operation kind byte, length-prefixed key, [length-prefixed value]', lex_eq(raw, want))]
                    for label, post, m in ex.check_posts(posts, pc):
                        res.violations.append({'label': label, 'case': case, 'replay': ['batch_codec']})
                    def decoded(ret, env2, pc2):
                        ok = isinstance(ret, Enum) and ret.tag == 'Ok'
                        posts = [('an encoded batch does not decode', BoolVal(ok))]
                        if ok:
                            b = ret.fields[0]; sq = b[bf.index('starting_seq_number')]; got = b[bf.index('operations')]
                            posts.append(('the starting sequence of a batch does not survive encode + decode', sq.fields[0] == s0 if isinstance(sq, Enum) and sq.tag == 'Some' and is_bv(sq.fields[0]) else BoolVal(False)))
                            posts.append(('a decoded batch does not hold as many operations as were encoded', BoolVal(isinstance(got, list) and len(got) == n)))
                            for i, g in enumerate(got[:n] if isinstance(got, list) else []):
                                k = g[ef.index('user_key')]; v = g[ef.index('value')]; o = opd(ex, env2, g[ef.index('operation')])
                                sk = lex_eq(k, keys[i]) if isinstance(k, list) else BoolVal(False)
                                if kinds[i]: sv = lex_eq(v.fields[0], vals[i]) if isinstance(v, Enum) and v.tag == 'Some' and isinstance(v.fields[0], list) else BoolVal(False)
                                else: sv = BoolVal(isinstance(v, Enum) and v.tag == 'None')
                                posts.append(('operation %d of a batch does not survive encode + decode (kind, key bytes, value bytes)' % i, And(o == bv(1 if kinds[i] else 0), sk, sv)))
                        res.cases[case] = res.cases.get(case, 0) + 1
                        for label, post, m in ex.check_posts(posts, pc2):
                            res.violations.append({'label': label, 'case': case, 'model': {str(d): str(m[d]) for d in m.decls()}, 'replay': ['batch_codec']})
                    ex.run_fn(dec, [list(raw)], dict(env), pc, decoded)
                    for cut in range(len(raw)):
                        def cut_decoded(ret, env3, pc3, cut=cut):
                            posts = [('a strict prefix of an encoded batch decodes (a record cut short is taken for a complete, shorter batch)', BoolVal(isinstance(ret, Enum) and ret.tag == 'Err'))]
                            for label, post, m in ex.check_posts(posts, pc3):
                                res.violations.append({'label': label, 'case': case, 'cut': cut, 'replay': ['truncated_batch']})
                        ex.run_fn(dec, [list(raw[:cut])], dict(env), pc, cut_decoded)
                ex.top(encb, [Ref('$b')], {'$state': {}, '$b': batch}, [], encoded)
                res.absorb(ex)
                _panics(res, ex, [], 'key_codec')
                if n == 0: break          # no lengths to vary
    res.wall_s = time.time() - t0
    if res.violations: res.status = 'violation'
    return res


def o6_5_confirm(v, out):
    """Native: `batch_codec` (495 real batches with key / value lengths 0, 1, 5, 127, 128, 300, 20000 through the real codec) or
    `truncated_batch` (every proper prefix of an encoded batch must be rejected)."""
    if out.get('_rc') != 0: return (False, 'native run failed: %s' % out.get('_stderr', '')[-300:])
    if v['replay'][0] == 'truncated_batch': return (out.get('accepted_prefixes', '0') != '0', 'native: %s of %s proper prefixes of an encoded batch decode' % (out.get('accepted_prefixes'), out.get('prefixes')))
    return (out.get('mismatches', '0') != '0', 'native: %s of %s encoded batches decode to something else (first: %s)' % (out.get('mismatches'), out.get('batches'), out.get('first_mismatch')))


# ======================================================================================== writers (`Vec<u8>` as std::io::Write / VarIntWriter)
def varint_bytes(x, L):
    """The L bytes of the varint encoding of x (valid when x needs exactly L bytes)."""
    w = x.size(); out = []
    for i in range(L):
        lo, hi = 7 * i, min(7 * i + 6, w - 1)
        chunk = Extract(hi, lo, x)
        if chunk.size() < 7: chunk = ZeroExt(7 - chunk.size(), chunk)
        out.append(simplify(Concat(BitVecVal(1 if i < L - 1 else 0, 1), chunk)))
    return out


def varint_len_cond(x, L):
    w = x.size(); maxL = (w + 6) // 7
    lo = BoolVal(True) if L == 1 else UGE(x, BitVecVal(1 << (7 * (L - 1)), w))
    hi = BoolVal(True) if L >= maxL else ULT(x, BitVecVal(1 << (7 * L), w))
    return And(lo, hi)


def writer_summaries(S, V, mir):
    P = {}
    def write_varint(se, env, pc, buf, x):
        x = se.deref(env, x) if isinstance(x, Ref) else x
        if not is_bv(x): raise Inconclusive('write_varint of %r' % (x,))
        c = simplify(x)
        l = V(se, env, buf)
        if is_bv_value(c):
            n = c.as_long(); L = 1
            while n >> (7 * L): L += 1
            return [(None, Enum('Ok', (bv(L),)), env.get('$state'), [(buf, l + varint_bytes(c, L))])]
        maxL = (x.size() + 6) // 7
        return [(varint_len_cond(x, L), Enum('Ok', (bv(L),)), env.get('$state'), [(buf, l + varint_bytes(x, L))]) for L in range(1, maxL + 1)]
    P[r'<Vec<u8> as VarIntWriter>::write_varint'] = write_varint; P[r'<W as VarIntWriter>::write_varint'] = write_varint
    def write_all(se, env, pc, buf, src):
        return [(None, Enum('Ok', ((),)), env.get('$state'), [(buf, V(se, env, buf) + V(se, env, src))])]
    P[r'<Vec<u8> as (?:std::io::)?Write>::write_all'] = write_all; P[r'<W as (?:std::io::)?Write>::write_all'] = write_all
    wl = [f for f in mir.fns.values() if f.path.endswith('::write_length_prefixed_slice') and 'utils::io' in f.path]
    rl = [f for f in mir.fns.values() if f.path.endswith('::read_length_prefixed_slice') and 'utils::io' in f.path]
    lv = [f for f in mir.fns.values() if f.path.endswith('::read_raindb_level') and 'utils::io' in f.path]
    if not (len(wl) == 1 and len(rl) == 1 and len(lv) == 1): raise Inconclusive('utils::io helpers not found uniquely')
    P[r'<Vec<u8> as WriteHelpers>::write_length_prefixed_slice'] = lambda se, env, pc, b, s: Delegate(wl[0], [b, s])
    P[r'<(?:&\[u8\]|R) as ReadHelpers>::read_length_prefixed_slice'] = lambda se, env, pc, r: Delegate(rl[0], [r])
    P[r'<(?:&\[u8\]|R) as ReadHelpers>::read_raindb_level'] = lambda se, env, pc, r: Delegate(lv[0], [r])
    asb = mir.method('InternalKey', 'as_bytes', trait='RainDbKeyType')
    P[r'<Vec<u8> as From<&InternalKey>>::from'] = lambda se, env, pc, k: Delegate(asb, [k])
    fm_enc = [f for f in mir.fns.values() if f.name == 'from' and 'file_metadata' in f.path and f.trait and f.trait.startswith('From') and f.self_ty and 'Vec' in f.self_ty]
    fm_dec = [f for f in mir.fns.values() if f.path.endswith('::deserialize') and 'file_metadata' in f.path]
    if len(fm_enc) != 1 or len(fm_dec) != 1: raise Inconclusive('FileMetadata codec not found uniquely (%d, %d)' % (len(fm_enc), len(fm_dec)))
    P[r'<Vec<u8> as From<&FileMetadata>>::from'] = lambda se, env, pc, f: Delegate(fm_enc[0], [f])
    P[r'FileMetadata::deserialize'] = lambda se, env, pc, r: Delegate(fm_dec[0], [r])
    P[r'<Vec<u8> as Deref>::deref'] = lib.ident
    P[r'<RainDBError as ToString>::to_string'] = lambda se, env, pc, e: lib.one(env, {'str': '<error text>'})
    P[r'std::io::Error::new'] = lambda se, env, pc, kind, msg: lib.one(env, {'kind': kind, '__ty': 'io::Error'})
    S['$patterns'] = dict(list(P.items()) + [(k, v) for k, v in S['$patterns'].items() if k not in P])
    return S, {'fm_enc': fm_enc[0], 'fm_dec': fm_dec[0]}


CLASSES = {'1 byte': lambda x: ULT(x, bv(128)), '2 bytes': lambda x: And(UGE(x, bv(128)), ULT(x, bv(1 << 14))), '10 bytes': lambda x: UGE(x, bv(1 << 63))}


def o10_11_metadata_bytes(mir, tier):
    """`From<&FileMetadata> for Vec<u8>` and `FileMetadata::deserialize` (with InternalKey::as_bytes / try_from, write_ / read_length_prefixed_slice inlined)
    over symbolic bytes: file number and size each in a varint class (1, 2 or 10 bytes - the class is a precondition, the value is free inside
    it), smallest / largest keys with user keys of 0..2 symbolic bytes, free sequence numbers, both operations.  Reference: the layout is varint
    number, varint size, length-prefixed smallest key, length-prefixed largest key; decode(encode(f)) = f field by field and consumes exactly
    the encoding; every strict prefix is rejected."""
    res = Result('O10.11 FileMetadata codec over symbolic bytes', [], '')
    t0 = time.time()
    klens = [(1, 1), (0, 2), (2, 0)] if tier == 'quick' else [(a, b) for a in range(3) for b in range(3)]
    classes = [(a, b) for a in CLASSES for b in CLASSES]
    ff = mir.struct_fields('FileMetadata')
    for (cn, cs), (l1, l2) in itertools.product(classes, klens):
        S, V, F = byte_summaries(mir); S = reader_summaries(S, V); S, G = writer_summaries(S, V, mir)
        res.functions = [G['fm_enc'].path, G['fm_dec'].path, F['as_bytes'].path, F['try_from'].path, 'utils::io write_length_prefixed_slice / read_length_prefixed_slice (inlined)']
        num, size = BitVec('file_number', 64), BitVec('file_size', 64)
        sm, SM = sym_key(mir, 'smallest', l1); lg, LG = sym_key(mir, 'largest', l2)
        pre = [CLASSES[cn](num), CLASSES[cs](size), ULE(SM[2], bv(1)), ULE(LG[2], bv(1))]
        f0 = mir.mk_struct('FileMetadata', allowed_seeks=Enum('None'), file_number=num, file_size=size, smallest_key=Enum('Some', (sm,)), largest_key=Enum('Some', (lg,)))
        ex = Exec(mir, S, loop_bound=14, opaque_calls_ok=False)
        case = 'number in %s, size in %s, user key lengths %d / %d' % (cn, cs, l1, l2)
        def key_bytes_of(K): return list(K[0]) + [Extract(8 * i + 7, 8 * i, K[1]) for i in range(8)] + [Extract(7, 0, K[2])]
        def encoded(buf, env, pc, ex=ex, num=num, size=size, SM=SM, LG=LG, cn=cn, cs=cs, case=case):
            raw = V(ex, env, buf)
            nL = {'1 byte': 1, '2 bytes': 2, '10 bytes': 10}
            kb1, kb2 = key_bytes_of(SM), key_bytes_of(LG)
            want = varint_bytes(num, nL[cn]) + varint_bytes(size, nL[cs]) + [b8(len(kb1))] + kb1 + [b8(len(kb2))] + kb2
            posts = [('the encoding of a file is not: varint number, varint size, length-prefixed smallest key, length-prefixed largest key', lex_eq(raw, want))]
            for label, post, m in ex.check_posts(posts, pc):
                res.violations.append({'label': label, 'case': case, 'replay': ['manifest_codec']})
            e = dict(env); e['$reader'] = list(raw)
            def decoded(ret, env2, pc2):
                ok = isinstance(ret, Enum) and ret.tag == 'Ok'
                posts = [('an encoded file description does not decode', BoolVal(ok))]
                if ok:
                    g = ret.fields[0]
                    gs, gl = g[ff.index('smallest_key')], g[ff.index('largest_key')]
                    posts.append(('file number / size do not survive encode + decode', And(g[ff.index('file_number')] == num, g[ff.index('file_size')] == size) if is_bv(g[ff.index('file_number')]) and is_bv(g[ff.index('file_size')]) else BoolVal(False)))
                    posts.append(('the key range of a file does not survive encode + decode (user key bytes, sequence, operation of both bounds)',
                                  And(same_key(mir, ex, gs.fields[0], SM) if isinstance(gs, Enum) and gs.tag == 'Some' else BoolVal(False), same_key(mir, ex, gl.fields[0], LG) if isinstance(gl, Enum) and gl.tag == 'Some' else BoolVal(False))))
                    posts.append(('the decoder does not consume exactly the encoding of the file', BoolVal(len(V(ex, env2, Ref('$reader'))) == 0)))
                res.cases[case] = res.cases.get(case, 0) + 1
                for label, post, m in ex.check_posts(posts, pc2):
                    res.violations.append({'label': label, 'case': case, 'model': {str(d): str(m[d]) for d in m.decls()}, 'replay': ['manifest_codec']})
            ex.run_fn(G['fm_dec'], [Ref('$reader')], e, pc, decoded)
            for cut in range(len(raw)):
                e3 = dict(env); e3['$reader'] = list(raw[:cut])
                def cut_decoded(ret, env3, pc3, cut=cut):
                    posts = [('a strict prefix of an encoded file description decodes', BoolVal(isinstance(ret, Enum) and ret.tag == 'Err'))]
                    for label, post, m in ex.check_posts(posts, pc3):
                        res.violations.append({'label': label, 'case': case, 'cut': cut, 'replay': ['manifest_codec']})
                ex.run_fn(G['fm_dec'], [Ref('$reader')], e3, pc, cut_decoded)
        ex.top(G['fm_enc'], [Ref('$f')], {'$state': {}, '$f': f0}, pre, encoded)
        res.absorb(ex)
        _panics(res, ex, pre, 'key_codec')
    res.bounds = 'file number / size classes %s, user key lengths %s, all bytes symbolic; every strict prefix' % (classes, klens)
    res.wall_s = time.time() - t0
    if res.violations: res.status = 'violation'
    return res


def o10_11_confirm(v, out):
    """Native: `manifest_codec` - version edits of several shapes (files with small and huge numbers / sizes) through the real encoder and decoder."""
    if v['replay'][0] == 'manifest_torn_prefixes':
        if out.get('_rc') != 0: return (True, 'native run panicked / failed: %s' % out.get('_stderr', '')[-300:])
        return (out.get('accepted_inside_a_field', '0') != '0', 'native: %s of %s proper prefixes of encoded edits decode although they end inside a field (first: %s)' % (out.get('accepted_inside_a_field'), out.get('prefixes'), out.get('first')))
    if out.get('_rc') != 0: return (False, 'native run failed: %s' % out.get('_stderr', '')[-300:])
    return (out.get('mismatches', '0') != '0', 'native: %s of %s encoded edits decode to something else (first: %s)' % (out.get('mismatches'), out.get('edits'), out.get('first_mismatch')))


def o10_12_manifest_bytes(mir, tier):
    """`From<&VersionChangeManifest> for Vec<u8>` and `VersionChangeManifest::try_from` with everything below them executed from MIR over
    symbolic bytes (tag and level varints, `ManifestFieldTags::try_from`, `read_raindb_level`, the FileMetadata and InternalKey codecs, the
    length-prefix helpers, `add_file` / `remove_file` / `add_compaction_pointer`): edits with every combination of the four optional numbers
    (each free inside a 1-byte or 2-byte varint class), 0..1 compaction pointers, 0..2 deleted files, 0..2 added files (user keys of 0..1
    symbolic bytes), among them a trivial move.  Reference: the decoded edit equals the encoded one field by field (key bytes included);
    every strict prefix of the encoding either fails to decode or decodes to an edit with fewer fields - never to different values."""
    enc = [f for f in mir.fns.values() if f.name == 'from' and 'version_manifest' in f.path and f.trait and f.trait.startswith('From') and f.self_ty and 'Vec' in f.self_ty]
    dec = [f for f in mir.fns.values() if f.name == 'try_from' and 'version_manifest' in f.path and f.self_ty == 'VersionChangeManifest']
    if len(enc) != 1 or len(dec) != 1: raise Inconclusive('manifest encoder / decoder not found uniquely (%d, %d)' % (len(enc), len(dec)))
    enc, dec = enc[0], dec[0]
    res = Result('O10.12 version-edit codec over symbolic bytes', [enc.path, dec.path, 'FileMetadata / InternalKey codecs, utils::io helpers, ManifestFieldTags::try_from, add_file / remove_file / add_compaction_pointer (inlined)'], '')
    t0 = time.time()
    mf = mir.struct_fields('VersionChangeManifest'); ff = mir.struct_fields('FileMetadata'); df = mir.struct_fields('DeletedFile')
    shapes = [((1, 0, 1, 1), 0, [(3, 7)], [(4, 7)]),              # trivial move: file 7 deleted at level 3, added at level 4
              ((1, 1, 1, 1), 1, [(0, 5), (1, 9)], [(1, 11), (1, 12)]),
              ((0, 0, 0, 0), 0, [], [(0, 3)]),
              ((1, 0, 0, 1), 0, [(5, 8)], []),
              ((0, 1, 1, 0), 1, [], [])]
    if tier != 'quick':
        shapes += [(bits, 1, [(2, 4)], [(3, 4), (6, 6)]) for bits in itertools.product((0, 1), repeat=4)]
    names = ('wal_file_number', 'prev_wal_file_number', 'curr_file_number', 'prev_sequence_number')
    for si, (opt_bits, nptr, dels, adds) in enumerate(shapes):
        if len(res.violations) >= 3: break
        S, V, F = byte_summaries(mir); S = reader_summaries(S, V); S, G = writer_summaries(S, V, mir)
        P = S['$patterns']
        P[r'<VersionChangeManifest as Default>::default'] = lambda se, env, pc: lib.one(env, mir.mk_struct('VersionChangeManifest', wal_file_number=Enum('None'), prev_wal_file_number=Enum('None'), prev_sequence_number=Enum('None'), curr_file_number=Enum('None'),
                                                                                                 new_files=[], deleted_files={'set': []}, compaction_pointers=[]))
        P[r'DeletedFile::new'] = lambda se, env, pc, l, n: lib.one(env, mir.mk_struct('DeletedFile', level=l, file_number=n))
        P[r'<std::slice::Iter<.*> as Iterator>::next'] = lib.it_next
        P[r'<&Vec<.*> as IntoIterator>::into_iter'] = lib.slice_iter
        optv = {n: BitVec('edit_' + n, 64) for n in names}
        cls = ['1 byte', '2 bytes']
        pre = [CLASSES[cls[(si + j) % 2]](optv[n]) for j, n in enumerate(names)]
        ptrs = []
        for i in range(nptr):
            k, K = sym_key(mir, 'ptr%d' % i, 1); ptrs.append((bv(2 + i), k, K)); pre.append(ULE(K[2], bv(1)))
        files = []
        for i, (lvl, num) in enumerate(adds):
            sm, SM = sym_key(mir, 'added%d_sm' % i, i % 2); lg, LG = sym_key(mir, 'added%d_lg' % i, 1)
            size = BitVec('added%d_size' % i, 64); pre += [CLASSES[cls[(si + i) % 2]](size), ULE(SM[2], bv(1)), ULE(LG[2], bv(1))]
            files.append((bv(lvl), mir.mk_struct('FileMetadata', allowed_seeks=Enum('None'), file_number=bv(num), file_size=size, smallest_key=Enum('Some', (sm,)), largest_key=Enum('Some', (lg,))), (num, size, SM, LG)))
        delv = [mir.mk_struct('DeletedFile', level=bv(l), file_number=bv(n)) for l, n in dels]
        m0 = mir.mk_struct('VersionChangeManifest', new_files=[(l, f) for l, f, _ in files], deleted_files={'set': list(delv)}, compaction_pointers=[(l, k) for l, k, _ in ptrs],
                           **{n: (Enum('Some', (optv[n],)) if b else Enum('None')) for n, b in zip(names, opt_bits)})
        ex = Exec(mir, S, loop_bound=16, opaque_calls_ok=False)
        case = 'opts=%s ptrs=%d deleted=%s added=%s' % (''.join(map(str, opt_bits)), nptr, dels, adds)
        def check_edit(ex, ret, env2, pc2, full, case=case, opt_bits=opt_bits, optv=optv, ptrs=ptrs, files=files, dels=dels):
            """full: every field must be there; else: every field that is there must carry the encoded value (prefix of the field list)."""
            posts = []
            d = ret.fields[0]
            for n, b in zip(names, opt_bits):
                x = d[mf.index(n)]
                if isinstance(x, Enum) and x.tag == 'Some': posts.append(('the %s of an edit does not survive encode + decode' % n.replace('_', ' '), (x.fields[0] == optv[n]) if (b and is_bv(x.fields[0])) else BoolVal(False)))
                elif full: posts.append(('the %s of an edit does not survive encode + decode' % n.replace('_', ' '), BoolVal(not b)))
            gp = d[mf.index('compaction_pointers')]
            okp = BoolVal(len(gp) == len(ptrs) if full else len(gp) <= len(ptrs))
            posts.append(('the compaction pointers of an edit do not survive encode + decode', And(okp, *[And(g[0] == p[0] if is_bv(g[0]) else BoolVal(False), same_key(mir, ex, g[1], p[2])) for g, p in zip(gp, ptrs)])))
            def _cl(x):
                x = simplify(x); return x.as_long() if is_bv_value(x) else None
            gd0 = [(_cl(x[df.index('level')]), _cl(x[df.index('file_number')])) for x in lib2.set_values(ex, env2, d[mf.index('deleted_files')])]
            symbolic = any(a is None or b is None for a, b in gd0)      # an entry decoded from bytes that are not a level / number of this edit
            gd = sorted(gd0) if not symbolic else gd0
            posts.append(('the deleted files of an edit do not survive encode + decode (a file deleted at one level and added at another - a trivial move - must keep its deletion)',
                          BoolVal(False) if symbolic else BoolVal(gd == sorted(dels) if full else all(x in dels for x in gd))))
            gn = d[mf.index('new_files')]
            conds = [BoolVal(len(gn) == len(files) if full else len(gn) <= len(files))]
            for (gl, gf), (fl, f, (num, size, SM, LG)) in zip(gn, files):
                gs, gg = gf[ff.index('smallest_key')], gf[ff.index('largest_key')]
                conds += [gl == fl if is_bv(gl) else BoolVal(False), gf[ff.index('file_number')] == bv(num), gf[ff.index('file_size')] == size,
                          same_key(mir, ex, gs.fields[0], SM) if isinstance(gs, Enum) and gs.tag == 'Some' else BoolVal(False), same_key(mir, ex, gg.fields[0], LG) if isinstance(gg, Enum) and gg.tag == 'Some' else BoolVal(False)]
            posts.append(('the added files of an edit (level, number, size, key range bytes) do not survive encode + decode', And(*conds)))
            return posts
        def encoded(buf, env, pc, ex=ex, case=case):
            raw = V(ex, env, buf)
            def decoded(ret, env2, pc2):
                ok = isinstance(ret, Enum) and ret.tag == 'Ok'
                posts = [('an encoded version edit does not decode', BoolVal(ok))]
                if ok: posts += check_edit(ex, ret, env2, pc2, True)
                res.cases[case] = res.cases.get(case, 0) + 1
                for label, post, m in ex.check_posts(posts, pc2):
                    res.violations.append({'label': label, 'case': case, 'model': {str(d_): str(m[d_]) for d_ in m.decls()}, 'replay': ['manifest_codec']})
            ex.run_fn(dec, [list(raw)], dict(env), pc, decoded)
            for cut in range(len(raw)):
                if len(res.violations) >= 3: break          # enough to report: a misaligned decoder forks over every symbolic byte it misreads
                def cut_decoded(ret, env3, pc3, cut=cut):
                    if not (isinstance(ret, Enum) and ret.tag == 'Ok'): return
                    posts = [(l.replace('does not survive encode + decode', 'is altered when the record is cut short (a torn edit must fail or lose whole fields, never change values)'), p) for l, p in check_edit(ex, ret, env3, pc3, False)]
                    for label, post, m in ex.check_posts(posts, pc3):
                        res.violations.append({'label': label, 'case': case, 'cut': cut, 'replay': ['manifest_codec']})
                    # an accepted prefix must be a complete encoding itself: re-encoding the decoded edit gives back exactly `cut` bytes
                    # (a record cut inside a field must be rejected - not decoded with the torn field dropped)
                    e4 = dict(env3); e4['$again'] = ret.fields[0]
                    def reencoded(buf2, env5, pc5, cut=cut):
                        n2 = len(V(ex, env5, buf2))
                        LBL = 'a version edit cut inside a field decodes (the torn field is dropped silently: the recovered state lacks a file / number the full record carries)'
                        res.checked = getattr(res, 'checked', 0) + 1
                        ex.record_formula(LBL, pc5, BoolVal(n2 != cut))
                        if n2 != cut and ex.model() is not None:
                            res.violations.append({'label': LBL, 'case': case, 'cut': cut, 'reencoded_length': n2, 'replay': ['manifest_torn_prefixes']})
                    ex.run_fn(enc, [Ref('$again')], e4, pc3, reencoded)
                ex.run_fn(dec, [list(raw[:cut])], dict(env), pc, cut_decoded)
        ex.top(enc, [Ref('$m')], {'$state': {}, '$m': m0}, pre, encoded)
        res.absorb(ex)
        _panics(res, ex, pre, 'key_codec')
    res.bounds = '%d edit shapes (optional numbers present / absent, each free in a 1- or 2-byte varint class; 0..1 compaction pointers; 0..2 deleted and 0..2 added files; user keys of 0..1 symbolic bytes); every prefix of every encoding' % len(shapes)
    res.wall_s = time.time() - t0
    if res.violations: res.status = 'violation'
    return res


def varint64_summaries(S, V):
    """u64 varints with symbolic values: one alternative per encoded length (infeasible ones are pruned on the path)."""
    P = {}
    def enc_var64(se, env, pc, x):
        x = se.deref(env, x) if isinstance(x, Ref) else x
        c = simplify(x)
        if is_bv_value(c):
            n = c.as_long(); L = 1
            while n >> (7 * L): L += 1
            return lib.one(env, varint_bytes(c, L))
        return [(varint_len_cond(x, L), varint_bytes(x, L), env.get('$state')) for L in range(1, 11)]
    P[r'<u64 as VarInt>::encode_var_vec'] = enc_var64
    def dec_var64(se, env, pc, s):
        l = V(se, env, s); outs = []; conds = []; val = BitVecVal(0, 64); shift = 0; ended = False
        for i, b in enumerate(l[:10]):
            top = simplify(Extract(7, 7, b))
            if shift < 64: val = val | (ZeroExt(57, Extract(6, 0, b)) << shift)
            shift += 7
            fixed = top.as_long() if is_bv_value(top) else None
            if fixed != 1:
                c = conds + ([top == 0] if fixed is None else [])
                outs.append((And(*c) if c else None, Enum('Some', ((simplify(val), bv(i + 1)),)), env.get('$state')))
            if fixed == 0: ended = True; break
            if fixed is None: conds = conds + [top == 1]
        if not ended: outs.append((And(*conds) if conds else None, Enum('None'), env.get('$state')))
        return outs
    P[r'<u64 as VarInt>::decode_var'] = dec_var64
    def concat(se, env, pc, parts):
        v = parts
        while isinstance(v, Ref): v = se.deref(env, v)
        out = []
        for p_ in v: out += V(se, env, p_)
        return lib.one(env, out)
    P[r'(?:std|core|alloc)::slice::<impl \[Vec<u8>\]>::concat'] = concat
    def append(se, env, pc, a, b):
        la, lb = V(se, env, a), V(se, env, b)
        return [(None, (), env.get('$state'), [(a, la + lb), (b, [])])]
    P[r'Vec::append'] = append
    S['$patterns'] = dict(list(P.items()) + [(k, v) for k, v in S['$patterns'].items() if k not in P])
    return S


def o13_7_footer_bytes(mir, tier):
    """`From<&BlockHandle> for Vec<u8>` / `BlockHandle::deserialize` and `TryFrom<&Footer> for Vec<u8>` / `Footer::try_from` over symbolic bytes:
    the four numbers of the two handles (offset, size of the metaindex and of the index block) each free inside a varint class (1, 2 or 10
    bytes).  Reference: a footer is exactly 48 bytes - the two handles, zero padding, the 8-byte magic number -, decodes to the same four
    numbers; a buffer of another length or with any other magic number is rejected; a block handle decodes to its own offset / size and
    reports the number of bytes it occupies."""
    fenc = [f for f in mir.fns.values() if f.name == 'try_from' and 'footer::' in f.path and f.self_ty and 'Vec' in f.self_ty]
    fdec = [f for f in mir.fns.values() if f.name == 'try_from' and 'footer::' in f.path and f.self_ty == 'Footer']
    henc = [f for f in mir.fns.values() if f.name == 'from' and 'block_handle::' in f.path and f.self_ty and 'Vec' in f.self_ty]
    hdec = [f for f in mir.fns.values() if f.path.endswith('::deserialize') and 'block_handle::' in f.path]
    if not (len(fenc) == 1 and len(fdec) == 1 and len(henc) == 1 and len(hdec) == 1): raise Inconclusive('footer / block handle codecs not found uniquely (%d %d %d %d)' % (len(fenc), len(fdec), len(henc), len(hdec)))
    fenc, fdec, henc, hdec = fenc[0], fdec[0], henc[0], hdec[0]
    res = Result('O13.7 block handle and footer codecs over symbolic bytes', [henc.path, hdec.path, fenc.path, fdec.path], '')
    t0 = time.time()
    names = list(CLASSES)
    combos = [(a, b, c, d) for a in names for b in names for c in names for d in names]
    if tier == 'quick': combos = [c for i, c in enumerate(combos) if i % 5 == 0] + [('10 bytes',) * 4]
    hf = mir.struct_fields('BlockHandle'); ftf = mir.struct_fields('Footer')
    nL = {'1 byte': 1, '2 bytes': 2, '10 bytes': 10}
    consts = {}
    for cls in combos:
        S, V, F = byte_summaries(mir); S = reader_summaries(S, V); S = varint64_summaries(S, V); P = S['$patterns']
        P[r'<Vec<u8> as From<&BlockHandle>>::from'] = lambda se, env, pc, h: Delegate(henc, [h])
        vals = [BitVec(n, 64) for n in ('metaindex_offset', 'metaindex_size', 'index_offset', 'index_size')]
        pre = [CLASSES[c](v) for c, v in zip(cls, vals)]
        mh = mir.mk_struct('BlockHandle', offset=vals[0], size=vals[1]); ih = mir.mk_struct('BlockHandle', offset=vals[2], size=vals[3])
        footer = mir.mk_struct('Footer', metaindex_handle=mh, index_handle=ih)
        ex = Exec(mir, S, loop_bound=14, opaque_calls_ok=False)
        case = 'varint classes %s' % (cls,)
        def encoded(ret, env, pc, ex=ex, vals=vals, cls=cls, case=case):
            ok = isinstance(ret, Enum) and ret.tag == 'Ok'
            posts = [('a footer does not serialise', BoolVal(ok))]
            raw = V(ex, env, ret.fields[0]) if ok else []
            if ok:
                hb = []
                for c, v in zip(cls, vals): hb += varint_bytes(v, nL[c])
                posts.append(('a serialised footer is not 48 bytes: the two block handles, zero padding, then the 8-byte magic number',
                              And(BoolVal(len(raw) == 48), lex_eq(raw[:len(hb)], hb), *[b == b8(0) for b in raw[len(hb):40]]) if len(raw) == 48 else BoolVal(False)))
            for label, post, m in ex.check_posts(posts, pc):
                res.violations.append({'label': label, 'case': case, 'replay': ['footer_codec']})
            if not ok or len(raw) != 48: return
            consts['magic'] = raw[40:]
            def decoded(ret2, env2, pc2):
                ok2 = isinstance(ret2, Enum) and ret2.tag == 'Ok'
                posts = [('a serialised footer does not parse', BoolVal(ok2))]
                if ok2:
                    f = ret2.fields[0]; m_, i_ = f[ftf.index('metaindex_handle')], f[ftf.index('index_handle')]
                    got = [m_[hf.index('offset')], m_[hf.index('size')], i_[hf.index('offset')], i_[hf.index('size')]]
                    posts.append(('the block handles of a footer (offset / size of the metaindex and index blocks) do not survive serialise + parse', And(*[g == v for g, v in zip(got, vals)]) if all(is_bv(g) for g in got) else BoolVal(False)))
                res.cases[case] = res.cases.get(case, 0) + 1
                for label, post, m in ex.check_posts(posts, pc2):
                    res.violations.append({'label': label, 'case': case, 'model': {str(d): str(m[d]) for d in m.decls()}, 'replay': ['footer_codec']})
            ex.run_fn(fdec, [list(raw)], dict(env), pc, decoded)
        ex.top(fenc, [Ref('$f')], {'$state': {}, '$f': footer}, pre, encoded)
        res.absorb(ex)
        _panics(res, ex, pre, 'footer_codec')
    # arbitrary buffers: wrong length, wrong magic number
    for n in (0, 47, 48, 49):
        S, V, F = byte_summaries(mir); S = reader_summaries(S, V); S = varint64_summaries(S, V)
        ex = Exec(mir, S, loop_bound=14, opaque_calls_ok=False)
        raw = [BitVec('raw%d' % i, 8) for i in range(n)]
        def parsed(ret, env, pc, ex=ex, n=n, raw=raw):
            ok = isinstance(ret, Enum) and ret.tag == 'Ok'
            if n != 48: posts = [('a buffer that is not 48 bytes long parses as a footer', BoolVal(not ok))]
            else: posts = [('a 48-byte buffer whose last 8 bytes are not the magic number parses as a footer', Or(BoolVal(not ok), lex_eq(raw[40:], consts['magic'])))]
            res.cases['arbitrary buffer of %d bytes' % n] = res.cases.get('arbitrary buffer of %d bytes' % n, 0) + 1
            for label, post, m in ex.check_posts(posts, pc):
                res.violations.append({'label': label, 'buffer_len': n, 'replay': ['footer_codec']})
        ex.top(fdec, [list(raw)], {'$state': {}}, [], parsed)
        res.absorb(ex)
    res.bounds = '%d combinations of varint classes (1 / 2 / 10 bytes) for the four numbers of a footer, values free inside their class; arbitrary buffers of 0, 47, 48, 49 bytes' % len(combos)
    res.wall_s = time.time() - t0
    if res.violations: res.status = 'violation'
    return res


def o13_7_confirm(v, out):
    """Native: footers with offsets / sizes at the varint boundaries go through the real serialiser and parser; buffers of other lengths and
    with an altered magic number must be rejected."""
    if out.get('_rc') != 0: return (True, 'native run panicked: %s' % out.get('_stderr', '')[-300:]) if 'panicked' in out.get('_stderr', '') else (False, 'native run failed: %s' % out.get('_stderr', '')[-300:])
    return (out.get('mismatches', '0') != '0', 'native: %s of %s footers / buffers are handled wrongly (first: %s)' % (out.get('mismatches'), out.get('cases'), out.get('first_mismatch')))


def o14_9_filter_block_bytes(mir, tier):
    """FilterBlockBuilder (`notify_new_data_block`, `add_key`, `finalize`, `generate_filter`) -> bytes -> `FilterBlockReader::new`
    (`deserialize_offsets`, `split_filters_with_offset`) -> `key_may_match`, all from MIR over symbolic bytes, with a *set policy* by contract
    (create_filter(keys) = the keys' bytes, key_may_match = membership): data blocks at concrete offsets on both sides of the 2 KiB filter
    ranges, 0..2 one-byte keys (symbolic) per block.  Reference: the reader accepts the block the builder wrote and answers "may match"
    for every key, asked with the offset of the data block the key was added under."""
    nb = mir.method('FilterBlockBuilder', 'notify_new_data_block'); ak = mir.method('FilterBlockBuilder', 'add_key'); fin = mir.method('FilterBlockBuilder', 'finalize')
    rd = mir.method('FilterBlockReader', 'new'); km = mir.method('FilterBlockReader', 'key_may_match')
    res = Result('O14.9 filter block builder -> bytes -> reader', [nb.path, ak.path, fin.path, rd.path, km.path, 'generate_filter, deserialize_offsets, split_filters_with_offset (inlined)'], '')
    t0 = time.time()
    layouts = [[(0, 1)], [(0, 2), (100, 1)], [(0, 1), (2048, 1)], [(0, 1), (3000, 2), (4096, 1)], [(0, 0), (5000, 1)], [(0, 1), (2047, 1), (2049, 0), (9000, 2)], [(0, 2), (4095, 1), (4096, 1), (6143, 1)],
               [(0, 1), (5000, 1), (7000, 1)], [(0, 1), (4096, 1), (8192, 1)], [(0, 0), (6000, 1), (6100, 1), (12000, 1)]]       # a block several ranges on, then another one
    if tier != 'quick': layouts += [[(0, 1), (o, 1), (o + 1, 1)] for o in (2046, 2047, 4094, 4095, 8191, 10239)] + [[(0, 1), (2048 * k, 1)] for k in range(2, 7)]
    for layout in layouts:
        S, V, F = byte_summaries(mir); S = reader_summaries(S, V); S = varint64_summaries(S, V); P = S['$patterns']
        def create(se, env, pc, policy, keys):
            ks = keys
            while isinstance(ks, Ref): ks = se.deref(env, ks)
            out = []
            for k in ks: out += V(se, env, k)
            return lib.one(env, out)
        P[r'<dyn FilterPolicy as FilterPolicy>::create_filter'] = create
        def may_match(se, env, pc, policy, key, filt):
            kb, fb = V(se, env, key), V(se, env, filt)
            return lib.one(env, Enum('Ok', (Or(*[b == kb[0] for b in fb]) if fb and kb else BoolVal(False),)))
        P[r'<dyn FilterPolicy as FilterPolicy>::key_may_match'] = may_match
        P[r'<Arc<dyn FilterPolicy> as Clone>::clone'] = lambda se, env, pc, p_: lib.one(env, {'policy': 'set'})
        def chunks(se, env, pc, s, n):
            l = V(se, env, s); k = se.concretize(n)
            return lib.one(env, {'it': [l[i:i + k] for i in range(0, len(l), k)]})
        P[r'core::slice::<impl \[u8\]>::chunks'] = chunks
        P[r'Vec::pop'] = lambda se, env, pc, v: (lib.one(env, Enum('None')) if not V(se, env, v) else [(None, Enum('Some', (V(se, env, v)[-1],)), env.get('$state'), [(v, V(se, env, v)[:-1])])])
        P[r'Vec::push'] = lib.vec_push
        keys = [[[BitVec('key_b%d_%d' % (bi, j), 8)] for j in range(nk)] for bi, (off, nk) in enumerate(layout)]
        bb = mir.mk_struct('FilterBlockBuilder', filter_policy={'policy': 'set'}, keys=[], filters=[])
        ex = Exec(mir, S, loop_bound=12, opaque_calls_ok=False)
        case = 'data blocks (offset, keys): %s' % layout
        def feed(bi, ki, env, pc):
            if bi == len(layout):
                def finished(buf, env_f, pc_f):
                    raw = V(ex, env_f, buf)
                    def read(ret, env_r, pc_r):
                        ok = isinstance(ret, Enum) and ret.tag == 'Ok'
                        for label, post, m in ex.check_posts([('a filter block written by FilterBlockBuilder is rejected by FilterBlockReader::new', BoolVal(ok))], pc_r):
                            res.violations.append({'label': label, 'case': case, 'replay': ['filter_block_layout'] + ['%d:%d' % x for x in layout]})
                        if not ok: return
                        e2 = dict(env_r); e2['$reader'] = ret.fields[0]
                        asks = [(bi2, ki2) for bi2 in range(len(layout)) for ki2 in range(layout[bi2][1])]
                        def ask(i, env_a, pc_a):
                            if i == len(asks):
                                res.cases[case] = res.cases.get(case, 0) + 1; return
                            bi2, ki2 = asks[i]
                            def answered(r, env_b, pc_b):
                                post = r if not isinstance(r, bool) else BoolVal(r)
                                for label, _p, m in ex.check_posts([('a key stored in a data block is rejected by the filter consulted with that block\'s offset (a lookup would be cut short)', post)], pc_b):
                                    res.violations.append({'label': label, 'case': case, 'block': bi2, 'offset': layout[bi2][0], 'replay': ['filter_block_layout'] + ['%d:%d' % x for x in layout]})
                                ask(i + 1, env_b, pc_b)
                            ex.run_fn(km, [Ref('$reader'), bv(layout[bi2][0]), list(keys[bi2][ki2])], env_a, pc_a, answered)
                        ask(0, e2, pc_r)
                    ex.run_fn(rd, [{'policy': 'set'}, list(raw)], dict(env_f), pc_f, read)
                return ex.run_fn(fin, [Ref('$bb')], env, pc, finished)
            if ki == -1:
                return ex.run_fn(nb, [Ref('$bb'), bv(layout[bi][0])], env, pc, lambda _r, e, p: feed(bi, 0, e, p))
            if ki == layout[bi][1]: return feed(bi + 1, -1, env, pc)
            ex.run_fn(ak, [Ref('$bb'), list(keys[bi][ki])], env, pc, lambda _r, e, p: feed(bi, ki + 1, e, p))
        ex.solver.push()
        try: feed(0, -1, {'$state': {}, '$bb': bb}, [])
        finally: ex.solver.pop()
        res.absorb(ex)
        _panics(res, ex, [], 'key_codec')
    res.bounds = '%d layouts of 1..4 data blocks at offsets around the 2 KiB filter ranges, 0..2 one-byte symbolic keys per block; filter policy = set membership by contract' % len(layouts)
    res.wall_s = time.time() - t0
    if res.violations: res.status = 'violation'
    return res


def o14_9_confirm(v, out):
    """Native: the same layout of data-block offsets and keys through the real builder and reader with the Bloom policy (no false negatives)."""
    if out.get('_rc') != 0: return (True, 'native run panicked: %s' % out.get('_stderr', '')[-300:]) if 'panicked' in out.get('_stderr', '') else (False, 'native run failed: %s' % out.get('_stderr', '')[-300:])
    return (out.get('rejected', '0') != '0', 'native: %s of %s stored keys are rejected by the filter of their own block (first: %s)' % (out.get('rejected'), out.get('keys'), out.get('first_rejected')))
