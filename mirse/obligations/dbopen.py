"""O11.2 DB::open: the order of the steps of opening a database and the clean-up at its end."""
import time
from z3 import BitVec, Bool, BoolVal, And, Or, Not
from ..exec import Exec, Enum, Ref, Opaque, Inconclusive, bv
from ..ob import Result, mval
from .. import lib, lib2

GUARD = r'<parking_lot::lock_api::MutexGuard<.*> as Deref(?:Mut)?>::deref(?:_mut)?'


def o11_2_db_open(mir, tier, variant='cleanup'):
    """Every step (directory creation, compaction worker, lock file, recover, new WAL, log_and_apply) succeeds or fails (free);
    recovery reports a reusable WAL or none, and whether a new manifest snapshot is needed (free).  Reference: open succeeds iff
    every executed step does; a WAL is created iff recovery left none, and is installed before the manifest edit; the manifest
    edit is logged iff recovery asked for it; obsolete files are removed exactly once on EVERY successful open, after recovery
    and the manifest edit; compaction is scheduled iff needed."""
    fn = mir.method('DB', 'open')
    res = Result('O11.2 DB::open step order and clean-up' if variant == 'cleanup' else 'O17.1 DB::open takes the lock before it touches the database', [fn.path], 'each step succeeds or fails (free); recovered WAL present/absent, snapshot needed or not, compaction needed or not (free)')
    t0 = time.time()
    S = lib2.install(lib.std_summaries()); P = S['$patterns']
    P[GUARD] = lib.ptr_deref
    dirs_ok, worker_ok, lock_ok, rec_ok, wal_ok, apply_ok = [Bool(n) for n in ('dirs_ok', 'worker_ok', 'lock_ok', 'recover_ok', 'new_wal_ok', 'log_and_apply_ok')]
    wal_null, need_snapshot, need_compaction = Bool('no_wal_after_recovery'), Bool('recovery_needs_manifest_edit'), Bool('compaction_needed')
    def ev(env, e):
        st = dict(env['$state']); st['events'] = st['events'] + [e]; return st
    def step(name, okv, okval=lambda: ()):
        def f(se, env, pc, *a):
            st = ev(env, name)
            return [(okv, Enum('Ok', (okval(),)), st), (Not(okv), Enum('Err', (Enum('IO', (Opaque('e'),), 'RainDBError'),)), st)]
        return f
    P[r'DB::create_database_directories'] = step('create_dirs', dirs_ok)
    P[r'CompactionWorker::new'] = step('worker', worker_ok, lambda: {'abstract': True, '__ty': 'CompactionWorker'})
    P[r'<dyn FileSystem as FileSystem>::lock_file'] = step('lock', lock_ok, lambda: {'abstract': True, '__ty': 'FileLock'})
    vcm = lambda: mir.mk_struct('VersionChangeManifest', wal_file_number=Enum('None'), prev_wal_file_number=Enum('Some', (bv(3),)))
    P[r'DB::recover'] = step('recover', rec_ok, lambda: (vcm(), need_snapshot))
    P[r'LogWriter::new'] = step('new_wal', wal_ok, lambda: {'abstract': True, '__ty': 'LogWriter'})
    def set_wal(se, env, pc, db, g, n, w):
        st = ev(env, 'set_wal'); return [(None, (), st)]
    P[r'DB::set_wal'] = set_wal
    def laa(se, env, pc, g, m):
        mv = se.deref(env, m)
        st = dict(env['$state']); st['events'] = st['events'] + ['log_and_apply']; st['edit'] = mv
        return [(apply_ok, Enum('Ok', ((),)), st), (Not(apply_ok), Enum('Err', (Enum('ManifestWrite', (Opaque('e'),), 'WriteError'),)), st)]
    P[r'VersionSet::log_and_apply'] = laa
    def rof(se, env, pc, *a):
        st = ev(env, 'remove_obsolete_files'); return [(None, (), st)]
    P[r'DB::remove_obsolete_files'] = rof
    P[r'DB::should_schedule_compaction'] = lambda se, env, pc, *a: lib.one(env, need_compaction)
    def sched(se, env, pc, *a):
        st = ev(env, 'schedule_compaction'); return [(None, (), st)]
    P[r'CompactionWorker::schedule_task'] = sched
    P[r'(?:AtomicPtr|Atomic)::load'] = lambda se, env, pc, p, o: lib.one(env, {'ptr': 'wal', 'null': wal_null})
    P[r'std::ptr::mut_ptr::<impl \*mut .*>::is_null'] = lambda se, env, pc, p: lib.one(env, p['null'] if isinstance(p, dict) and 'null' in p else Opaque('is_null'))
    P[r'(?:core|std)::ptr::mut_ptr::<impl \*mut .*>::is_null'] = P[r'std::ptr::mut_ptr::<impl \*mut .*>::is_null']
    P[r'DB::memtable'] = lambda se, env, pc, db: lib.one(env, {'abstract': True, '__ty': 'MemTable'})
    P[r'<dyn MemTable as MemTable>::is_empty'] = lambda se, env, pc, m: lib.one(env, BoolVal(True))
    P[r'VersionSet::get_new_file_number'] = lambda se, env, pc, vs: lib.one(env, bv(77))
    P[r'parking_lot::lock_api::Mutex::lock'] = lambda se, env, pc, m: lib.one(env, Ref('$g'))
    P[r'parking_lot::lock_api::Mutex::new'] = lib.ident
    P[r'VersionSet::new'] = lambda se, env, pc, *a: lib.one(env, {'abstract': True, '__ty': 'VersionSet'})
    P[r'<Result<.*> as FromResidual<Result<Infallible, .*>>>::from_residual'] = lambda se, env, pc, r: lib.one(env, r)
    P[r'<RainDBError as From<.*>>::from'] = lib.ident
    ex = Exec(mir, S, loop_bound=4, opaque_calls_ok=True, max_paths=4000)
    vf = mir.struct_fields('VersionChangeManifest')
    def k_lock(ret, env, pc):
        evs = env['$state']['events']
        ok = isinstance(ret, Enum) and ret.tag == 'Ok'
        touching = ('recover', 'new_wal', 'set_wal', 'log_and_apply', 'remove_obsolete_files', 'schedule_compaction')
        posts = [('DB::open succeeds although the database lock could not be taken', Or(BoolVal(not ok), lock_ok)),
                 ('DB::open recovers, writes or removes files of the database before it holds the database lock', BoolVal(all(evs.index('lock') < evs.index(x) for x in touching if x in evs) if 'lock' in evs else not any(x in evs for x in touching))),
                 ('DB::open goes on (recovery, log creation, manifest edit, file removal) although the database lock could not be taken', Or(lock_ok, BoolVal(not any(x in evs for x in touching)))),
                 ('DB::open does not request the database lock on a path that reaches recovery', BoolVal('lock' in evs or 'recover' not in evs))]
        res.cases[('Ok ' if ok else 'Err ') + ','.join(evs)] = 1
        for label, post, m in ex.check_posts(posts, pc):
            rep = 'although the database lock could not be taken' in label or 'before it holds the database lock' in label
            res.violations.append({'label': label, 'events': evs, 'replay': ['second_open'] if rep else None,
                                   'confirmed_by': None if rep else {'reproduced': False, 'detail': 'no native scenario for this label'}})
    def k(ret, env, pc):
        if variant == 'lock': return k_lock(ret, env, pc)
        evs = env['$state']['events']
        ok = isinstance(ret, Enum) and ret.tag == 'Ok'
        steps_ok = And(dirs_ok, worker_ok, lock_ok, rec_ok, Or(Not(wal_null), wal_ok), Or(Not(need_snapshot), apply_ok))
        posts = [('DB::open succeeds although a step failed, or fails although every step succeeded', BoolVal(ok) == steps_ok)]
        if ok:
            posts.append(('a new write-ahead log is not created exactly when recovery left none', wal_null == BoolVal('new_wal' in evs and 'set_wal' in evs)))
            posts.append(('the manifest edit of the recovery is not logged exactly when recovery asked for it', need_snapshot == BoolVal('log_and_apply' in evs)))
            posts.append(('obsolete files are not removed exactly once at the end of a successful open (files left by a crashed run are kept, or files are removed before the recovered state is durable)',
                          BoolVal(evs.count('remove_obsolete_files') == 1 and all(evs.index(x) < evs.index('remove_obsolete_files') for x in ('recover', 'log_and_apply', 'set_wal') if x in evs))))
            posts.append(('a compaction is not scheduled exactly when one is needed', need_compaction == BoolVal('schedule_compaction' in evs)))
            if 'log_and_apply' in evs and 'set_wal' in evs:
                posts.append(('the new WAL is installed after the manifest edit that names it', BoolVal(evs.index('set_wal') < evs.index('log_and_apply'))))
            if 'log_and_apply' in evs:
                edit = env['$state'].get('edit')
                w = edit[vf.index('wal_file_number')] if edit else None
                posts.append(('the manifest edit written at open does not name the current WAL', BoolVal(isinstance(w, Enum) and w.tag == 'Some')))
                pw = edit[vf.index('prev_wal_file_number')] if edit else None
                posts.append(('the manifest edit written at open keeps a previous-WAL number', BoolVal(isinstance(pw, Enum) and pw.tag == 'None')))
        else:
            posts.append(('a failed open removes files', BoolVal('remove_obsolete_files' not in evs)))
        res.cases[('Ok ' if ok else 'Err ') + ','.join(evs)] = 1
        for label, post, m in ex.check_posts(posts, pc):
            rep = 'obsolete files are not removed' in label and not mval(m, wal_null) and not mval(m, need_snapshot)
            walrep = 'does not name the current WAL' in label
            res.violations.append({'label': label, 'events': evs, 'model': {str(x): mval(m, x) for x in (wal_null, need_snapshot, need_compaction)},
                                   'replay': ['reopen_orphan'] if rep else (['two_wal_crash_reopen'] if walrep else None),
                                   'confirmed_by': None if (rep or walrep) else {'reproduced': False, 'detail': 'no native scenario for this label / case'}})
    g = mir.mk_struct('GuardedDbFields', curr_wal_file_number=bv(5), version_set={'abstract': True, '__ty': 'VersionSet'})
    env = {'$state': {'events': []}, '$g': g}
    ex.top(fn, [{'abstract': True, '__ty': 'DbOptions'}], env, [], k)
    ex.bound_hits = []
    res.absorb(ex)
    for pc, msg, where in ex.panics:
        res.panic_paths += 1; res.violations.append({'label': 'panic path: ' + msg[:80], 'replay': None, 'confirmed_by': {'reproduced': False, 'detail': 'no native scenario'}})
    res.wall_s = time.time() - t0
    if res.violations: res.status = 'violation'
    return res


def o11_2_confirm(v, out):
    """Native: a closed database holds an orphan table file; a reopen that reuses log and manifest must remove it."""
    if out.get('_rc') != 0: return (False, 'native run failed: %s' % out.get('_stderr', '')[-300:])
    if v['replay'][0] == 'two_wal_crash_reopen':
        bad = out.get('dead_wal_kept') != 'false' or out.get('tables_after_first_reopen') != out.get('tables_after_second_reopen') or out.get('lost') != '0' or out.get('second_reopen') != 'ok'
        return (bad, 'crash image with logs %s, reopened twice with log reuse: logs after the first reopen %s (a replayed log kept: %s), tables after the first / second reopen %s / %s, unreadable keys %s'
                % (out.get('wals_at_crash'), out.get('wals_after_first_reopen'), out.get('dead_wal_kept'), out.get('tables_after_first_reopen'), out.get('tables_after_second_reopen'), out.get('lost')))
    return ('999' in out.get('after', '').split(','), 'table files before the reopen: [%s], after: [%s]' % (out.get('before'), out.get('after')))


def o17_1_open_lock(mir, tier):
    """Same exploration of DB::open as O11.2; reference: the database lock is requested before recovery, before a write-ahead
    log is created, before the manifest is edited and before any file is removed; if it cannot be taken, open fails and none of
    these happened (flock itself is by contract: lock_file fails while another handle holds the lock)."""
    return o11_2_db_open(mir, tier, variant='lock')


def o17_1_confirm(v, out):
    """Native: a database is open on the disk file system (real flock); a second DB::open of the same path must fail and the
    first instance must keep working; destroy_database must refuse."""
    if out.get('_rc') != 0: return (False, 'native run failed: %s' % out.get('_stderr', '')[-300:])
    bad = out.get('second_open') == 'ok' or out.get('destroy_while_open') == 'ok' or out.get('first_still_works') != 'true' or out.get('files_changed_by_refused_open') == 'true' or out.get('files_changed_by_refused_destroy') == 'true'
    return (bad, 'second open: %s (files changed by it: %s), destroy while open: %s (files changed by it: %s), first instance still works: %s' % (out.get('second_open'), out.get('files_changed_by_refused_open'), out.get('destroy_while_open'), out.get('files_changed_by_refused_destroy'), out.get('first_still_works')))
