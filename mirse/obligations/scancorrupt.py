"""O15.7 a forward scan over a table that runs into an unreadable data block."""
import time
from z3 import BitVec, BitVecVal, Bool, BoolVal, And, Or, Not, Extract
from ..exec import Exec, Enum, Ref, Opaque, Inconclusive, bv
from ..ob import Result, World, mval, klt, kle, key_bytes
from .. import lib, absiter
from .version import base_summaries


LABEL = 'a forward scan that runs into an unreadable data block ends as if the table ended there: no call reports an error and the entries behind the block are never seen'


def o15_7_scan_into_unreadable_block(mir, tier):
    """Tables with data blocks of the given shapes; data block `bad` >= 1 cannot be read (Table::get_block_reader fails).  The scan
    is seek_to_first followed by next until the cursor is invalid.  Reference (C15: an affected scan fails with an error): if the
    scan ends before the last entry of the table, some call of the scan must have reported an error."""
    ops = {n: mir.method('TwoLevelIterator', n, 'RainDbIterator') for n in ('seek_to_first', 'next', 'is_valid')}
    shapes = [(1, 1), (2, 1), (1, 1, 1)] if tier == 'quick' else [(1, 1), (2, 1), (1, 2), (1, 1, 1), (2, 2, 1)]
    res = Result('O15.7 forward scan into an unreadable data block', [f.path for f in ops.values()] + ['init_data_block, skip_empty_data_blocks_forward (inlined)'],
                 'tables with data blocks of %s entries, every block but the first unreadable in turn; block cursors = RainDbIterator contract' % (shapes,))
    t0 = time.time()
    for shape in shapes:
        for bad in range(1, len(shape)):
            w = World(mir)
            ents, blocks = [], []
            for bi, cnt in enumerate(shape):
                blk = []
                for j in range(cnt):
                    i = len(ents); e = (w.key('e%d' % i), BitVec('v%d' % i, 8)); ents.append(e); blk.append(e)
                blocks.append(blk)
            KE = [w.K(e[0]) for e in ents]
            pre = list(w.pre) + [klt(KE[i], KE[i + 1]) for i in range(len(ents) - 1)]
            index = [(blk[-1][0], mir.mk_struct('BlockHandle', offset=bv(1000 * bi), size=bv(100))) for bi, blk in enumerate(blocks)]
            S = base_summaries(mir)
            S.update(absiter.summaries(['<BlockIter<InternalKey> as RainDbIterator>::'], w.K))
            S['BlockReader::iter'] = lambda se, env, pc, r: lib.one(env, dict(absiter.make(se.deref(env, r)['entries']), pos=0))
            S['<BlockHandle as TryFrom<&Vec<u8>>>::try_from'] = lambda se, env, pc, v: lib.one(env, Enum('Ok', (se.deref(env, v),)))
            hoff = mir.field('BlockHandle', 'offset')
            def get_block(se, env, pc, tbl, opts, h, blocks=blocks, bad=bad):
                j = lib.as_int(se.deref(env, h)[hoff]) // 1000
                if j == bad: return lib.one(env, Enum('Err', (Enum('BlockDecompression', (Opaque('corrupt block'),), 'ReadError'),)))
                return lib.one(env, Enum('Ok', ({'entries': blocks[j]},)))
            S['table::Table::get_block_reader'] = get_block; S['Table::get_block_reader'] = get_block
            S['$patterns'][r'<Arc<BlockReader<InternalKey>> as Deref>::deref'] = lib.ident
            S['$patterns'][r'<Arc<Table> as Deref>::deref'] = lib.ptr_deref
            S['$patterns'][r'<RainDBError as From<.*>>::from'] = lambda se, env, pc, e: lib.one(env, Enum('TableRead', (e,), 'RainDBError'))
            ex = Exec(mir, S, loop_bound=len(shape) + 5)
            table = mir.mk_struct('Table', index_block={'entries': index}, maybe_filter_block=Enum('None'))
            it = mir.mk_struct('TwoLevelIterator', table=Ref('$table'), read_options={'abstract': True}, index_block_iter=absiter.make(index),
                               maybe_data_block_iter=Enum('None'), data_block_handle=Enum('None'))
            env0 = {'$state': {}, '$table': table, '$it': it}
            total = len(ents)
            def argv(ex, pc, shape=shape, bad=bad, KE=KE, ents=ents):
                m = ex.model(*[Extract(7, 0, ke[0]) != BitVecVal(0, 8) for ke in KE])
                if m is None: return None
                return ['table_scan_corrupt', str(bad), ','.join(str(c) for c in shape)] + ['%s:%d:%d:%02x' % (key_bytes(mval(m, ke[0])), mval(m, ke[1]), mval(m, ke[2]), mval(m, ents[i][1])) for i, ke in enumerate(KE)]
            def step(seen, errors, env, pc, ex=ex, shape=shape, bad=bad, total=total):
                def after_valid(v, env2, pc2):
                    valid = v if isinstance(v, bool) else (True if str(v) == 'True' else (False if str(v) == 'False' else None))
                    if valid is None: raise Inconclusive('is_valid is symbolic')
                    if not valid or seen >= total + 1:
                        ex.paths += 1; res.checked += 1
                        res.cases['%s bad=%d: %d of %d entries seen, errors reported: %d' % (shape, bad, seen, total, errors)] = 1
                        ex.record_formula(LABEL, pc2, BoolVal(seen < total and errors == 0))
                        if seen < total and errors == 0:
                            res.violations.append({'label': LABEL,
                                                   'shape': list(shape), 'bad_block': bad, 'seen': seen, 'total': total, 'replay': argv(ex, pc2)})
                        return
                    ex.run_fn(ops['next'], [Ref('$it')], env2, pc2, lambda r, e3, p3: step(seen + 1, errors, e3, p3))
                ex.run_fn(ops['is_valid'], [Ref('$it')], env, pc, after_valid)
            def first(r, env1, pc1):
                step(0, 1 if isinstance(r, Enum) and r.tag == 'Err' else 0, env1, pc1)
            ex.top(ops['seek_to_first'], [Ref('$it')], env0, pre, first)
            res.absorb(ex)
    res.wall_s = time.time() - t0
    if res.violations: res.status = 'violation'
    return res


def o15_7_confirm(v, out):
    """Native: the table is built with the real TableBuilder, one byte of the chosen data block is flipped on disk, the table is
    scanned with seek_to_first / next until the cursor is invalid."""
    if out.get('_rc') != 0: return (False, 'native run failed: %s' % out.get('_stderr', '')[-300:])
    try: seen, total = int(out.get('seen', '0')), int(out.get('total', '0'))
    except ValueError: return (False, 'unparsable native output')
    return (seen < total, 'native scan saw %d of %d entries and then reported the end of the table; RainDbIterator::next has no way to report the read error' % (seen, total))
