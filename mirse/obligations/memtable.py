"""O1.2 SkipListMemTable::get and O4.7 SkipListMemTableIter over a skip list given by contract (a sorted map of symbolic entries)."""
import itertools, time
from z3 import BitVec, BitVecVal, Bool, BoolVal, And, Or, Not, If, ULT, ULE, UGT, UGE
from ..exec import Exec, Enum, Ref, Opaque, Inconclusive, bv
from ..ob import Result, World, mval, klt, kle, keq, key_bytes
from .. import lib
from .version import base_summaries
from .iters import drive_cursor, QUICK_PATTERNS, ref_cursor


def skiplist_summaries(S, mir, K):
    """Contract of nerdondon_hopscotch::ConcurrentSkipList as used by the memtable: an ordered map.  A list value is
    {'skiplist': True, 'entries': [(key struct, value)]} stored in cell $store; a node is {'node': i}."""
    P = S['$patterns']
    def store(se, env, r):
        v = se.deref(env, r) if isinstance(r, Ref) else r
        while isinstance(v, Ref): v = se.deref(env, v)
        if not (isinstance(v, dict) and v.get('skiplist')): raise Inconclusive('not a skip list: %r' % (v,))
        return v
    def node(i): return Enum('Some', ({'node': i},))
    def ge(se, env, pc, sl, target):
        ents = store(se, env, sl)['entries']; t = K(se.deref(env, target) if isinstance(target, Ref) else target); outs = []
        for pos in range(len(ents) + 1):
            cond = [klt(K(e[0]), t) for e in ents[:pos]] + ([Not(klt(K(ents[pos][0]), t))] if pos < len(ents) else [])
            outs.append((And(*cond) if cond else BoolVal(True), node(pos) if pos < len(ents) else Enum('None'), env.get('$state')))
        return outs
    def lt(se, env, pc, sl, target):
        ents = store(se, env, sl)['entries']; t = K(se.deref(env, target) if isinstance(target, Ref) else target); outs = []
        for pos in range(len(ents) + 1):      # pos = number of entries < target
            cond = [klt(K(e[0]), t) for e in ents[:pos]] + ([Not(klt(K(ents[pos][0]), t))] if pos < len(ents) else [])
            outs.append((And(*cond) if cond else BoolVal(True), node(pos - 1) if pos > 0 else Enum('None'), env.get('$state')))
        return outs
    P[r'ConcurrentSkipList::find_greater_or_equal_node'] = ge
    P[r'ConcurrentSkipList::find_less_than_node'] = lt
    # the non-node variants hand out (key, value) pairs
    def pair_of(outs):
        res = []
        for o in outs:
            r = o[1]
            if isinstance(r, Enum) and r.tag == 'Some':
                i = r.fields[0]['node']; r = Enum('Some', ((Ref('$store', ('entries', i, 0)), Ref('$store', ('entries', i, 1))),))
            res.append((o[0], r) + tuple(o[2:]))
        return res
    P[r'ConcurrentSkipList::find_greater_or_equal'] = lambda se, env, pc, sl, t: pair_of(ge(se, env, pc, sl, t))
    P[r'ConcurrentSkipList::find_less_than'] = lambda se, env, pc, sl, t: pair_of(lt(se, env, pc, sl, t))
    P[r'ConcurrentSkipList::first_node'] = lambda se, env, pc, sl: lib.one(env, node(0) if store(se, env, sl)['entries'] else Enum('None'))
    P[r'ConcurrentSkipList::last_node'] = lambda se, env, pc, sl: lib.one(env, node(len(store(se, env, sl)['entries']) - 1) if store(se, env, sl)['entries'] else Enum('None'))
    P[r'ConcurrentSkipList::len'] = lambda se, env, pc, sl: lib.one(env, bv(len(store(se, env, sl)['entries'])))
    def nxt(se, env, pc, n):
        i = (se.deref(env, n) if isinstance(n, Ref) else n)['node']; ents = se.deref(env, Ref('$store'))['entries']
        return lib.one(env, node(i + 1) if i + 1 < len(ents) else Enum('None'))
    P[r'SkipNode::next'] = nxt
    def entry(se, env, pc, n):
        i = (se.deref(env, n) if isinstance(n, Ref) else n)['node']
        return lib.one(env, (Ref('$store', ('entries', i, 0)), Ref('$store', ('entries', i, 1))))
    P[r'SkipNode::get_entry'] = entry
    def get(se, env, pc, sl, key):
        ents = store(se, env, sl)['entries']; k = K(se.deref(env, key) if isinstance(key, Ref) else key); outs = []; none = []
        for i, e in enumerate(ents):
            c = And(keq(K(e[0]), k), K(e[0])[2] == k[2]); none.append(Not(c))
            outs.append((And(c, *none[:-1]), Enum('Some', (Ref('$store', ('entries', i, 1)),)), env.get('$state')))
        outs.append((And(*none) if none else BoolVal(True), Enum('None'), env.get('$state')))
        return outs
    P[r'ConcurrentSkipList::get'] = get
    P[r'<Arc<ConcurrentSkipList<.*>> as Deref>::deref'] = lib.ptr_deref
    P[r'<Arc<ConcurrentSkipList<.*>> as Clone>::clone'] = lambda se, env, pc, a: lib.one(env, a if isinstance(a, Ref) else Ref('$store'))
    P[r'Arc::clone'] = lambda se, env, pc, a: lib.one(env, a)
    P[r'<InternalKey as Clone>::clone'] = lib.clone_deep
    P[r'<Vec<u8> as Clone>::clone'] = lib.clone_deep
    # dynamic dispatch on the boxed memtable iterator (Box is transparent in the value model)
    from ..exec import Delegate
    for meth in ('seek', 'seek_to_first', 'seek_to_last', 'next', 'prev', 'is_valid', 'current'):
        f = mir.method('SkipListMemTableIter', meth, 'RainDbIterator')
        P[r'<dyn RainDbIterator<.*> as RainDbIterator>::%s' % meth] = (lambda f: lambda se, env, pc, *a: Delegate(f, list(a), lambda r: r))(f)


def o1_2_memtable_get(mir, tier):
    """N = 0..3 entries in internal-key order (user keys may repeat), free lookup key (user key, sequence bound).  Reference: the
    newest entry of the user key whose sequence is <= the bound decides: a put returns its value, a delete returns None
    (deleted); without such an entry the answer is KeyNotFound (so that older sources are consulted)."""
    fn = mir.method('SkipListMemTable', 'get', 'MemTable')
    NMAX = 3 if tier == 'quick' else 4
    res = Result('O1.2 SkipListMemTable::get', [fn.path, 'SkipListMemTable::iter, SkipListMemTableIter::seek / is_valid / current (inlined)'], 'skip list by contract (ordered map) with 0..%d entries, free lookup key' % NMAX)
    t0 = time.time()
    for N in range(0, NMAX + 1):
        w = World(mir)
        ents = [(w.key('e%d' % i), BitVec('v%d' % i, 8)) for i in range(N)]
        KE = [w.K(e[0]) for e in ents]
        tk = w.key('t', op=bv(1)); T = w.K(tk)       # seek keys carry the Put operation tag (InternalKey::new_for_seeking)
        pre = list(w.pre) + [klt(KE[i], KE[i + 1]) for i in range(N - 1)]
        S = base_summaries(mir); skiplist_summaries(S, mir, w.K)
        uk = mir.field('InternalKey', 'user_key'); opf = mir.field('InternalKey', 'operation')
        ex = Exec(mir, S, loop_bound=6)
        def k(ret, env, pc, N=N, KE=KE, ents=ents, T=T, ex=ex):
            # reference
            decided = BoolVal(False); kind = BitVecVal(2, 8); val = BitVecVal(0, 8)     # 0 value, 1 deleted, 2 not found
            for i in range(N):
                hit = And(Not(decided), KE[i][0] == T[0], ULE(KE[i][1], T[1]))
                kind = If(hit, If(KE[i][2] == 1, BitVecVal(0, 8), BitVecVal(1, 8)), kind); val = If(hit, ents[i][1], val)
                decided = Or(decided, hit)
            if isinstance(ret, Enum) and ret.tag == 'Ok':
                o = ret.fields[0]
                if isinstance(o, Enum) and o.tag == 'Some':
                    got = ex.deref(env, o.fields[0]) if isinstance(o.fields[0], Ref) else o.fields[0]
                    post = And(kind == 0, got == val)
                else: post = kind == 1
            else: post = kind == 2
            posts = [('the memtable answers a lookup with something else than the newest entry of the user key at or below the sequence bound (value / deleted / not found)', post)]
            res.cases['N=%d %s' % (N, getattr(ret, 'tag', '?'))] = 1
            def argv(m):
                return ['db_scenario'] + sum(([('P%s=%02x' % (key_bytes(mval(m, KE[i][0])), mval(m, ents[i][1]))) if mval(m, KE[i][2]) == 1 else 'D%s' % key_bytes(mval(m, KE[i][0]))] for i in range(N)), []) + ['G%s' % key_bytes(mval(m, T[0]))]
            for label, post_, m in ex.check_posts(posts, pc):
                res.violations.append({'label': label, 'entries': N, 'model': {'target': (mval(m, T[0]), mval(m, T[1])), 'entries': [(mval(m, x[0]), mval(m, x[1]), mval(m, x[2])) for x in KE]}, 'replay': ['memtable_versions']})
        env = {'$state': {}, '$store': {'skiplist': True, 'entries': list(ents)}, '$mt': mir.mk_struct('SkipListMemTable', store=Ref('$store')), '$t': tk}
        ex.top(fn, [Ref('$mt'), Ref('$t')], env, pre, k)
        res.absorb(ex)
        for pcx, msg, where in ex.panics:
            res.panic_paths += 1; res.violations.append({'label': 'panic path: ' + msg[:80], 'entries': N, 'replay': None, 'confirmed_by': {'reproduced': False, 'detail': 'no native scenario'}})
    res.wall_s = time.time() - t0
    if res.violations: res.status = 'violation'
    return res


def o1_2_confirm(v, out):
    """Native: a database whose memtable holds several versions of keys (puts, a delete, a re-put) with snapshots taken in
    between; every snapshot and the latest state are read back with DB::get (nothing is flushed)."""
    if out.get('_rc') != 0: return (False, 'native run failed: %s' % out.get('_stderr', '')[-300:])
    return (out.get('mismatches', '0') != '0', '%s of %s memtable reads differ from the written history (first: %s)' % (out.get('mismatches'), out.get('reads'), out.get('first_mismatch')))


def o4_7_memtable_iter(mir, tier):
    """SkipListMemTableIter over the skip-list contract = cursor over the sorted entries, for the cursor patterns of O4.1-O4.3."""
    ops = {n: mir.method('SkipListMemTableIter', n, 'RainDbIterator') for n in ('seek', 'seek_to_first', 'seek_to_last', 'next', 'prev', 'is_valid', 'current')}
    sizes = (1, 2, 3) if tier == 'quick' else (0, 1, 2, 3, 4)
    patterns = QUICK_PATTERNS if tier == 'quick' else [list(p) for L in (3, 4) for p in itertools.product(['first', 'last', 'seek', 'next', 'prev'], repeat=L) if p[0] in ('first', 'last', 'seek')]
    res = Result('O4.7 SkipListMemTableIter vs sorted entries', [f.path for f in ops.values()], 'skip list by contract with %s entries; %d cursor patterns of length <= 4 with a free seek target' % (sizes, len(patterns)))
    t0 = time.time()
    for N in sizes:
        w = World(mir)
        ents = [(w.key('e%d' % i), BitVec('v%d' % i, 8)) for i in range(N)]
        KE = [w.K(e[0]) for e in ents]
        pre = list(w.pre) + [klt(KE[i], KE[i + 1]) for i in range(N - 1)]
        for pat in patterns:
            tk = w.key('t'); T = w.K(tk)
            S = base_summaries(mir); skiplist_summaries(S, mir, w.K)
            ex = Exec(mir, S, loop_bound=6)
            it = mir.mk_struct('SkipListMemTableIter', store=Ref('$store'), current_entry=Enum('None'))
            env0 = {'$state': {}, '$store': {'skiplist': True, 'entries': list(ents)}, '$it': it, '$t': tk}
            def argv(m, pat): return None
            drive_cursor(ex, ops, Ref('$it'), pat, [(KE[i], ents[i][1]) for i in range(N)], T, env0, pre + list(w.pre), res,
                         lambda opn: 'memtable iterator: after %s the cursor differs from the sorted entries of the memtable (validity, key or value)' % opn, argv, w.K)
            res.absorb(ex)
    for v in res.violations:
        v['replay'] = ['memtable_versions']
    res.wall_s = time.time() - t0
    if res.violations: res.status = 'violation'
    return res
