"""O4.5 Version::get_representative_iterators: a scan sees every table of the version."""
import time
from z3 import BitVec, Bool, BoolVal, And, Or, Not, simplify
from ..exec import Exec, Enum, Ref, Opaque, Inconclusive, bv
from ..ob import Result, World, mval, key_bytes
from .. import lib
from .version import base_summaries, mk_version, sorted_disjoint, _levels_argv


def o4_5_representative_iterators(mir, tier):
    """Shapes: number of files per level 0..6.  Reference: one table iterator per level-0 file, one concatenating iterator per
    non-empty level >= 1 holding exactly the files of that level; a table that cannot be opened is reported."""
    fn = mir.method('Version', 'get_representative_iterators')
    shapes = [(2, 1, 1, 1, 1, 1, 1), (0, 0, 0, 0, 0, 0, 2), (1, 0, 2, 0, 0, 1, 0), (0, 0, 0, 0, 0, 0, 0)]
    if tier != 'quick': shapes += [(3, 2, 0, 0, 0, 0, 1), (0, 1, 0, 1, 0, 1, 0), (1, 0, 0, 0, 0, 0, 0), (0, 0, 0, 1, 1, 1, 1)]
    res = Result('O4.5 Version::get_representative_iterators', [fn.path], 'files per level in shapes %s; TableCache::find_table succeeds or fails per level-0 file (free); Table::iter_with and FilesEntryIterator::new by contract' % (shapes,))
    t0 = time.time()
    numf = mir.field('FileMetadata', 'file_number')
    for shape in shapes:
        w = World(mir)
        lv = {l: [w.file('f%d_%d' % (l, i), number=100 * l + i + 1) for i in range(n)] for l, n in enumerate(shape)}
        opens = {100 * 0 + i + 1: Bool('open_ok_%d' % i) for i in range(shape[0])}
        S = base_summaries(mir); P = S['$patterns']
        def find(se, env, pc, tc, num, opens=opens):
            n = simplify(num).as_long(); st = env.get('$state')
            return [(opens[n], Enum('Ok', ({'table_of': n},)), st), (Not(opens[n]), Enum('Err', (Enum('TableRead', (Opaque('e'),), 'RainDBError'),)), st)]
        P[r'TableCache::find_table'] = find
        P[r'FileMetadata::file_number'] = lambda se, env, pc, f: lib.one(env, (se.deref(env, f) if isinstance(f, Ref) else f)[numf])
        P[r'(?:table::)?Table::iter_with'] = lambda se, env, pc, t, ro: lib.one(env, {'iter_of_table': t['table_of']})
        P[r'FilesEntryIterator::new'] = lambda se, env, pc, files, tc, ro: lib.one(env, {'iter_of_files': [simplify((se.deref(env, f) if isinstance(f, Ref) else f)[numf]).as_long() for f in files]})
        P[r'<ReadOptions as Clone>::clone'] = lib.ident
        P[r'<Result<.*> as FromResidual<Result<Infallible, .*>>>::from_residual'] = lambda se, env, pc, r: lib.one(env, r)
        P[r'<RainDBError as From<.*>>::from'] = lib.ident
        ex = Exec(mir, S, loop_bound=12, opaque_calls_ok=True)
        def k(ret, env, pc, shape=shape, opens=opens, ex=ex):
            all_open = And(*opens.values()) if opens else BoolVal(True)
            ok = isinstance(ret, Enum) and ret.tag == 'Ok'
            posts = [('get_representative_iterators succeeds although a level-0 table could not be opened (or fails although all could)', BoolVal(ok) == all_open)]
            if ok:
                its = ret.fields[0]
                tabs = sorted(i['iter_of_table'] for i in its if isinstance(i, dict) and 'iter_of_table' in i)
                lists = sorted(tuple(i['iter_of_files']) for i in its if isinstance(i, dict) and 'iter_of_files' in i)
                want_tabs = sorted(opens)
                want_lists = sorted(tuple(100 * l + i + 1 for i in range(n)) for l, n in enumerate(shape) if l >= 1 and n)
                posts.append(('a scan does not get exactly one table iterator per level-0 file', BoolVal(tabs == want_tabs)))
                posts.append(('a scan does not get one concatenating iterator per non-empty level >= 1 holding the files of that level (a level is missing)', BoolVal(lists == want_lists)))
                posts.append(('a scan gets iterators that are neither table nor level iterators', BoolVal(len(its) == len(tabs) + len(lists))))
                res.cases['%s -> %d table iterators, levels %s' % (shape, len(tabs), lists)] = 1
            for label, post, m in ex.check_posts(posts, pc):
                rep = 'level is missing' in label
                no_l0 = {l: [w.F(f) for f in fs] for l, fs in lv.items() if l >= 1 and fs}
                res.violations.append({'label': label, 'shape': list(shape), 'replay': ['representative_iterators'] + _levels_argv(ex.model(), no_l0) if rep else None,
                                       'expected_levels': len([n for l, n in enumerate(shape) if l >= 1 and n]),
                                       'confirmed_by': None if rep else {'reproduced': False, 'detail': 'no native scenario for this label'}})
        pre = list(w.pre)
        for l in range(1, 7): pre += sorted_disjoint([w.F(f) for f in lv[l]])
        env = {'$state': {}, '$v': mk_version(mir, lv), '$ro': {'abstract': True, '__ty': 'ReadOptions'}}
        ex.top(fn, [Ref('$v'), Ref('$ro')], env, pre, k)
        res.absorb(ex)
        for pc, msg, where in ex.panics:
            res.panic_paths += 1; res.violations.append({'label': 'panic path: ' + msg[:80], 'shape': list(shape), 'replay': None, 'confirmed_by': {'reproduced': False, 'detail': 'no native scenario'}})
    res.wall_s = time.time() - t0
    if res.violations: res.status = 'violation'
    return res


def o4_5_confirm(v, out):
    """Native: a version holding the model's files at levels >= 1; the number of iterators handed to a scan must equal the number
    of non-empty levels."""
    if out.get('_rc') != 0: return (False, 'native run failed: %s' % out.get('_stderr', '')[-300:])
    return (out.get('iterators') != str(v['expected_levels']), 'native iterators=%s, non-empty levels >= 1: %d' % (out.get('iterators'), v['expected_levels']))
