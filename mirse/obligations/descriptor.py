"""O10.14 Version::debug_summary (the text behind the SSTables descriptor): every file of every level is reported once, under its own
level, with its own number / size / bounds, and the files of a level in the order the version stores them (key order for levels >= 1)."""
import time
from z3 import BitVec, BoolVal, simplify
from ..exec import Exec, Enum, Ref, Opaque, Inconclusive, bv
from ..ob import World, Result, mval
from .. import lib
from .version import base_summaries, mk_version


def o10_14_descriptor(mir, tier):
    fn = mir.method('Version', 'debug_summary')
    res = Result('O10.14 the SSTables descriptor lists the files of every level in stored order', [fn.path],
                 'a version with 2 files in level 0, 3 in level 2 (file numbers descending while keys ascend), 1 in level 6; formatting by contract: every write_fmt is recorded with its arguments')
    t0 = time.time()
    w = World(mir)
    lv = {0: [w.file('a0', number=41), w.file('a1', number=40)], 2: [w.file('c0', number=33), w.file('c1', number=32), w.file('c2', number=31)], 6: [w.file('g0', number=7)]}
    S = base_summaries(mir); P = {}
    def full(se, env, v):
        n = 0
        while isinstance(v, Ref) and n < 10: v = se.deref(env, v); n += 1
        return v
    P[r'<str as ToOwned>::to_owned'] = lambda se, env, pc, s: lib.one(env, {'str': 'summary'})
    P[r'core::fmt::rt::Argument::(?:<.*>::)?new_(?:display|debug)(?:::<.*>)?'] = lambda se, env, pc, x: lib.one(env, ('arg', full(se, env, x)))
    def fmt_args(se, env, pc, pieces, args):
        a = full(se, env, args)
        return lib.one(env, {'fmtargs': [full(se, env, x) for x in a] if isinstance(a, (list, tuple)) else [a]})
    P[r'Arguments::(?:<.*>::)?new(?:::<.*>)?'] = fmt_args
    P[r'Arguments::(?:<.*>::)?new_const(?:::<.*>)?'] = lambda se, env, pc, *a: lib.one(env, {'fmtargs': []})
    def write_fmt(se, env, pc, s, a):
        st = dict(env['$state']); st['lines'] = st['lines'] + [full(se, env, a)]
        return [(None, Enum('Ok', ((),)), st)]
    P[r'<String as std::fmt::Write>::write_fmt'] = write_fmt
    P[r'<String as std::fmt::Write>::write_str'] = lambda se, env, pc, s, a: lib.one(env, Enum('Ok', ((),)))
    S['$patterns'] = dict(list(P.items()) + [(k_, v_) for k_, v_ in S['$patterns'].items() if k_ not in P])      # these summaries take precedence over the generic formatting ones
    ex = Exec(mir, S, loop_bound=40)
    numf = mir.field('FileMetadata', 'file_number')
    def k(ret, env, pc):
        lines = env['$state']['lines']
        # a line with one argument announces a level, a line with four arguments describes a file
        got = {l: [] for l in range(7)}; level = None; bad_shape = False
        for ln in lines:
            args = [a[1] if isinstance(a, tuple) and a and a[0] == 'arg' else a for a in ln.get('fmtargs', [])] if isinstance(ln, dict) else None
            if args is None: bad_shape = True; continue
            if len(args) == 1:
                c = ex.concretize(args[0]) if not isinstance(args[0], int) else args[0]
                level = c
            elif len(args) == 4 and level is not None and level in got:
                got[level].append(args)
            else: bad_shape = True
        posts = []
        def num(x):
            x = simplify(x) if hasattr(x, 'sort') else x
            try: return x.as_long()
            except Exception: return None
        for l in range(7):
            want = [simplify(f[numf]).as_long() for f in lv.get(l, [])]
            have = [num(a[0]) for a in got[l]]
            posts.append(('the SSTables descriptor does not list exactly the files of a level, each once, under that level', sorted(have, key=str) == sorted(want, key=str)))
            posts.append(('the SSTables descriptor lists the files of a level in another order than the version stores them (levels >= 1 are reported out of key order)', have == want or sorted(have, key=str) != sorted(want, key=str)))
            if have == want:
                sizef = mir.field('FileMetadata', 'file_size') if 'file_size' in mir.struct_fields('FileMetadata') else None
                for a, f in zip(got[l], lv.get(l, [])):
                    def ks(t): return tuple(str(simplify(c)) for c in t)
                    try: same = ks(w.K(full(ex, env, a[2]))) == ks(w.F(f)['sm']) and ks(w.K(full(ex, env, a[3]))) == ks(w.F(f)['lg']) and str(simplify(a[1])) == str(simplify(w.F(f)['size']))
                    except Exception as e_: same = False
                    posts.append(('a file is reported with the size or bounds of another file', same))
        posts.append(('the descriptor text is not built from one line per level and one line per file', not bad_shape))
        res.checked += len(posts); res.cases['lines'] = len(lines)
        seen = set()
        for label, ok in posts:
            ex.record_formula(label, pc, BoolVal(not ok))
            if not ok and label not in seen:
                seen.add(label); res.violations.append({'label': label, 'reported': {l: [num(a[0]) for a in got[l]] for l in got if got[l]}, 'replay': ['sstables_descriptor']})
    env = {'$state': {'lines': []}, '$v': mk_version(mir, lv)}
    ex.top(fn, [Ref('$v')], env, list(w.pre), k)
    res.absorb(ex)
    for pc, msg, where in ex.panics:
        res.panic_paths += 1; res.violations.append({'label': 'panic path: ' + msg[:80], 'replay': ['sstables_descriptor']})
    res.wall_s = time.time() - t0
    if res.violations: res.status = 'violation'
    return res


def o10_14_confirm(v, out):
    """Native: tables flushed in descending key order settle in one deeper level; the SSTables descriptor text is parsed."""
    if out.get('_rc') != 0: return (True, 'native run panicked / failed: %s' % out.get('_stderr', '')[-300:])
    return (out.get('problems', '0') != '0', 'native SSTables descriptor (%s tables listed): %s problem(s), first: %s' % (out.get('listed'), out.get('problems'), out.get('first_problem')))
