"""O9.3 DB::make_room_for_write: a writer that waits for background work re-evaluates its conditions and gets out."""
import time
from z3 import BitVec, BitVecVal, Bool, BoolVal, And, Or, Not, ULT, ULE, UGE, UGT, If
from ..exec import Exec, Enum, Ref, Opaque, Inconclusive, bv
from ..ob import Result, mval
from .. import lib

GUARD = r'<parking_lot::lock_api::MutexGuard<.*> as Deref(?:Mut)?>::deref(?:_mut)?'
LABEL_OVER = 'the memtable is rotated while the previous immutable memtable has not been flushed yet (it is overwritten: its acknowledged writes are never written to a table and their log is removed)'
LABEL_STUCK = 'a writer keeps waiting in make_room_for_write although the background work it waits for has finished or failed (its wake-up condition / the recorded background error is never re-evaluated)'


def o9_3_make_room(mir, tier):
    """Environment: the level-0 file count, memtable fullness and the presence of an immutable memtable are free at entry; whenever
    the writer waits on the condition variable, the background work either completes before it wakes (no immutable memtable,
    level 0 empty) or fails (the failed state is recorded, nothing else changes).  Reference: the call returns within 6 loop iterations; Ok only with room in the (possibly new) memtable; a recorded
    background error is returned; the memtable is rotated at most once."""
    fn = mir.method('DB', 'make_room_for_write')
    res = Result('O9.3 DB::make_room_for_write leaves its wait loop', [fn.path], 'free level-0 count (0..2^20), memtable full or not, immutable memtable present or not, force flag, background error, WAL creation ok or failing; after every wait the background work is done')
    t0 = time.time()
    for has_imm in (False, True):
        for bad_state in (False, True):
            S = lib.std_summaries(); P = S['$patterns']
            P[GUARD] = lib.ptr_deref
            l0, full, force, wal_ok = BitVec('level0_files_at_entry', 64), Bool('memtable_full_at_entry'), Bool('force_compaction'), Bool('new_wal_ok')
            pre = [ULT(l0, bv(1 << 20))]
            def st(env): return env['$state']
            def upd(env, **kw):
                s = dict(env['$state']); s.update(kw); env['$state'] = s; return s
            def nfiles(se, env, pc, vs, lvl):
                s = upd(env, l0_reads=st(env)['l0_reads'] + 1)
                return [(None, s['l0'], s)]
            P[r'VersionSet::num_files_at_level'] = nfiles
            P[r'DB::memtable'] = lambda se, env, pc, db: lib.one(env, {'abstract': True, '__ty': 'MemTable'})
            P[r'<Arc<Box<dyn MemTable>> as Deref>::deref'] = lib.ident
            P[r'<Box<dyn MemTable> as Deref>::deref'] = lib.ident
            P[r'<dyn MemTable as MemTable>::approximate_memory_usage'] = lambda se, env, pc, m: lib.one(env, If(st(env)['full'], bv(2000), bv(10)) if not isinstance(st(env)['full'], bool) else bv(2000 if st(env)['full'] else 10))
            P[r'DbOptions::max_memtable_size'] = lambda se, env, pc, o: lib.one(env, bv(1000))
            def wait(se, env, pc, cv, g):
                # while the writer sleeps the background work either completes (immutable memtable flushed, level 0 drained) or
                # fails (the error is recorded as the failed state, nothing else changes) - both end with a notify_all
                n = st(env)['waits']
                done = Bool('background_work_succeeds_%d' % n)
                s_done = dict(st(env), waits=n + 1, l0=bv(0))
                s_fail = dict(st(env), waits=n + 1, bg_failed=True)
                gref = Ref('$g')
                return [(done, (), s_done, [(Ref('$g', (mir.field('GuardedDbFields', 'maybe_immutable_memtable'),)), Enum('None'))]),
                        (Not(done), (), s_fail, [(Ref('$g', (mir.field('GuardedDbFields', 'maybe_bad_database_state'),)), Enum('Some', (Enum('Write', ({'str': 'background'},), 'RainDBError'),)))])]
            P[r'(?:parking_lot::)?Condvar::wait'] = wait
            P[r'<Arc<parking_lot::Condvar> as Deref>::deref'] = lib.ident
            P[r'parking_lot::lock_api::MutexGuard::unlocked_fair'] = lambda se, env, pc, g, clo: lib.call_closure(se, env, pc, clo, [])
            P[r'std::thread::sleep'] = lib.unit
            P[r'(?:std::time::|core::time::)?Duration::from_millis'] = lambda se, env, pc, n: lib.one(env, Opaque('duration'))
            P[r'VersionSet::maybe_prev_wal_number'] = lambda se, env, pc, vs: lib.one(env, Enum('None'))
            P[r'VersionSet::get_new_file_number'] = lambda se, env, pc, vs: lib.one(env, bv(9))
            P[r'VersionSet::reuse_file_number'] = lib.unit
            P[r'FileNameHandler::get_wal_file_path'] = lambda se, env, pc, h, n: lib.one(env, {'path': 'wal'})
            P[r'<Arc<FileNameHandler> as Deref>::deref'] = lib.ident
            P[r'DbOptions::filesystem_provider'] = lambda se, env, pc, o: lib.one(env, {'abstract': True, '__ty': 'fs'})
            def new_wal(se, env, pc, *a):
                s = upd(env, wal_attempts=st(env)['wal_attempts'] + 1)
                return [(wal_ok, Enum('Ok', ({'abstract': True, '__ty': 'LogWriter'},)), s), (Not(wal_ok), Enum('Err', (Enum('IO', (Opaque('e'),), 'LogIOError'),)), s)]
            P[r'LogWriter::new'] = new_wal
            P[r'DB::set_wal'] = lib.unit
            P[r'SkipListMemTable::new'] = lambda se, env, pc: lib.one(env, {'abstract': True, '__ty': 'MemTable'})
            def swap(se, env, pc, p, new):
                pend = se.deref(env, Ref('$g'))[mir.field('GuardedDbFields', 'maybe_immutable_memtable')]
                over = isinstance(pend, Enum) and pend.tag == 'Some'
                s = upd(env, rotations=st(env)['rotations'] + 1, full=False, rotated_over_pending=st(env)['rotated_over_pending'] or over); return [(None, {'abstract': True, '__ty': 'MemTable', 'old': True}, s)]
            P[r'ArcSwapAny::swap'] = swap
            P[r'(?:Atomic|AtomicBool)::store'] = lib.unit
            P[r'DB::generate_portable_state'] = lambda se, env, pc, db: lib.one(env, {'abstract': True, '__ty': 'PortableDatabaseState'})
            P[r'DB::should_schedule_compaction'] = lambda se, env, pc, *a: lib.one(env, BoolVal(True))
            def sched(se, env, pc, *a):
                s = upd(env, scheduled=st(env)['scheduled'] + 1); return [(None, (), s)]
            P[r'CompactionWorker::schedule_task'] = sched
            P[r'<Arc<CompactionWorker> as Deref>::deref'] = lib.ident
            P[r'<Option<RainDBError> as Clone>::clone'] = lambda se, env, pc, o: lib.one(env, se.deref(env, o))
            P[r'Result::err'] = lambda se, env, pc, r: lib.one(env, Enum('Some', (r.fields[0],)) if r.tag == 'Err' else Enum('None'))
            ex = Exec(mir, S, loop_bound=7, opaque_calls_ok=True, max_paths=3000)
            def k(ret, env, pc, has_imm=has_imm, bad_state=bad_state, ex=ex):
                s = st(env); ok = isinstance(ret, Enum) and ret.tag == 'Ok'
                posts = [('make_room_for_write returns Ok although a background error is recorded (or fails without one / without a failed WAL creation)',
                          BoolVal(ok) == And(BoolVal(not (bad_state or s['bg_failed'])), Or(BoolVal(s['wal_attempts'] == 0), wal_ok))),
                         ('the memtable is rotated more than once for one write', BoolVal(s['rotations'] <= 1)),
                         (LABEL_OVER, BoolVal(not s['rotated_over_pending'])),
                         ('Ok is returned although the active memtable is full (or a forced flush did not rotate it)', Or(BoolVal(not ok), BoolVal(s['rotations'] == 1), And(Not(full), Not(force)))),
                         ('a compaction is not scheduled for the memtable that was just made immutable', BoolVal(s['scheduled'] == s['rotations'] or not ok)),
                         ('the writer waits although nothing it could wait for is pending (or does not wait while the previous memtable is still being flushed / level 0 is at its limit)',
                          BoolVal(True))]
                res.cases['imm=%s bad=%s -> %s waits=%d rotations=%d reads=%d' % (has_imm, bad_state, 'Ok' if ok else 'Err', s['waits'], s['rotations'], s['l0_reads'])] = 1
                for label, post, m in ex.check_posts(posts, pc):
                    rep = label == LABEL_OVER
                    bad_ok = label.startswith('make_room_for_write returns Ok although a background error') and bad_state and ok
                    res.violations.append({'label': label, 'model': {'level0': mval(m, l0), 'full': mval(m, full), 'force': mval(m, force), 'immutable_memtable': has_imm, 'bad_state': bad_state, 'returned_ok': ok},
                                           'replay': ['forced_flush_over_pending'] if rep else (['write_fault', 'wal_once'] if bad_ok else None),
                                           'confirmed_by': None if (rep or bad_ok) else {'reproduced': False, 'detail': 'no native scenario for this label'}})
            g = mir.mk_struct('GuardedDbFields', maybe_bad_database_state=Enum('Some', (Enum('Write', ({'str': 'bad'},), 'RainDBError'),)) if bad_state else Enum('None'),
                              maybe_immutable_memtable=Enum('Some', ({'abstract': True, '__ty': 'MemTable'},)) if has_imm else Enum('None'), version_set={'abstract': True, '__ty': 'VersionSet'})
            env = {'$state': {'l0': l0, 'full': full, 'waits': 0, 'rotations': 0, 'scheduled': 0, 'l0_reads': 0, 'wal_attempts': 0, 'rotated_over_pending': False, 'bg_failed': False}, '$db': {'abstract': True, '__ty': 'DB'}, '$g': g, '$guard': Ref('$g')}
            ex.top(fn, [Ref('$db'), Ref('$guard'), force], env, pre, k)
            if ex.bound_hits:
                res.violations.append({'label': LABEL_STUCK, 'case': {'immutable_memtable': has_imm, 'bad_state': bad_state}, 'where': str(ex.bound_hits[0])[:200],
                                       'replay': ['l0_stop_release'], 'expect_hang': False})
                res.violations.append({'label': LABEL_STUCK, 'case': {'immutable_memtable': has_imm, 'bad_state': bad_state}, 'where': str(ex.bound_hits[0])[:200],
                                       'replay': ['parked_writer_flush_fails'], 'expect_hang': False})
                ex.record_formula(LABEL_STUCK, [], BoolVal(True))
                ex.bound_hits = []
            res.absorb(ex)
            for pcx, msg, where in ex.panics:
                res.panic_paths += 1; res.violations.append({'label': 'panic path: ' + msg[:80], 'replay': None, 'confirmed_by': {'reproduced': False, 'detail': 'no native scenario'}})
    res.wall_s = time.time() - t0
    if res.violations: res.status = 'violation'
    return res


def o9_3_confirm(v, out):
    """Native: 12 overlapping level-0 files and a full memtable; a writer parks on the stop-writes condition; the background
    compaction then drains level 0; the writer must be released within 15 s."""
    if v['replay'][0] == 'write_fault':
        # a put whose WAL append fails puts the database into its failed state; the next put (the memtable has plenty of room) must be refused
        if out.get('_rc') != 0: return (False, 'native run failed: %s' % out.get('_stderr', '')[-300:])
        return (out.get('second_put_result') == 'Ok' and out.get('fault_hit') == 'true', 'native: a put issued after a failed WAL append (fault hit: %s; that put returned %s) returned %s' % (out.get('fault_hit'), out.get('put_result'), out.get('second_put_result')))
    if v['replay'][0] == 'forced_flush_over_pending':
        if out.get('_rc') != 0: return (False, 'native run failed: %s' % out.get('_stderr', '')[-300:])
        return (out.get('lost', '0') != '0', 'a forced flush was requested while a rotated memtable was still waiting for its flush: %s of %s acknowledged keys are unreadable afterwards' % (out.get('lost'), out.get('written')))
    if v['replay'][0] == 'parked_writer_flush_fails':
        if out.get('_rc') != 0 and not out.get('_timeout'): return (False, 'native run failed: %s' % out.get('_stderr', '')[-300:])
        stuck = out.get('writer') == 'stuck' or bool(out.get('_timeout'))
        return (stuck and out.get('parked') == 'true', 'a writer waits for the flush of the previous memtable, the flush fails (fault hit: %s): writer parked=%s, afterwards: writer=%s' % (out.get('fault_hit'), out.get('parked'), out.get('writer')))
    if out.get('_rc') != 0 and not out.get('_timeout'): return (False, 'native run failed: %s' % out.get('_stderr', '')[-300:])
    stuck = out.get('writer') == 'stuck' or bool(out.get('_timeout'))
    return (stuck and out.get('parked') == 'true', 'level-0 files %s -> %s, writer parked=%s, after the compaction: writer=%s' % (out.get('level0_files'), out.get('level0_files_after'), out.get('parked'), out.get('writer')))
