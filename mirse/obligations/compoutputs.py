"""O11.3 CompactionState::open_compaction_output_file: the outputs of a running compaction stay protected from obsolete-file
removal (they are in no version until the compaction is installed)."""
import time
from z3 import BitVec, Bool, BoolVal, And, Or, Not, simplify
from ..exec import Exec, Enum, Ref, Opaque, Inconclusive, bv
from ..ob import Result, mval
from .. import lib, lib2

GUARD = r'<parking_lot::lock_api::MutexGuard<.*> as Deref(?:Mut)?>::deref(?:_mut)?'


def o11_3_compaction_outputs(mir, tier):
    """k = 0..2 outputs were opened earlier (numbers 40, 41); the protected set holds them and a table of another job (7).
    Reference after the call: the protected set still holds everything it held plus the number of the new output; the new output
    is appended to the compaction's output list with a fresh number; TableBuilder::new is asked for that number; its failure is
    reported."""
    fn = mir.method('CompactionState', 'open_compaction_output_file')
    res = Result('O11.3 CompactionState::open_compaction_output_file', [fn.path, mir.method('VersionSet', 'get_new_file_number').path],
                 '0..2 earlier outputs (concrete numbers), file counter 50, TableBuilder::new succeeds or fails (free)')
    t0 = time.time()
    numf = mir.field('FileMetadata', 'file_number')
    for k_prev in (0, 1, 2):
        S = lib2.install(lib.std_summaries()); P = S['$patterns']
        P[GUARD] = lib.ptr_deref
        new_ok = Bool('builder_new_ok')
        P[r'parking_lot::lock_api::Mutex::lock'] = lambda se, env, pc, m: lib.one(env, Ref('$g'))
        P[r'CompactionState::has_table_builder'] = lambda se, env, pc, s: lib.one(env, BoolVal(False))
        P[r'FileMetadata::new'] = lambda se, env, pc, n: lib.one(env, mir.mk_struct('FileMetadata', allowed_seeks=Enum('None'), file_number=n, file_size=bv(0), smallest_key=Enum('None'), largest_key=Enum('None')))
        P[r'FileMetadata::file_number'] = lambda se, env, pc, f: lib.one(env, (se.deref(env, f) if isinstance(f, Ref) else f)[numf])
        P[r'<DbOptions as Clone>::clone'] = lib.ident
        def tb_new(se, env, pc, o, n):
            st = dict(env['$state']); st['builder_for'] = st['builder_for'] + [n]
            return [(new_ok, Enum('Ok', ({'abstract': True, '__ty': 'TableBuilder', 'for': n},)), st), (Not(new_ok), Enum('Err', (Enum('IO', (Opaque('e'),), 'TableBuildError'),)), st)]
        P[r'TableBuilder::new'] = tb_new
        P[r'<Result<.*> as FromResidual<Result<Infallible, .*>>>::from_residual'] = lambda se, env, pc, r: lib.one(env, r)
        P[r'<RainDBError as From<.*>>::from'] = lambda se, env, pc, e: lib.one(env, Enum('TableBuild', (e,), 'RainDBError'))
        P[r'<Arc<parking_lot::lock_api::Mutex<.*>> as Deref>::deref'] = lib.ident
        ex = Exec(mir, S, loop_bound=5, opaque_calls_ok=True)
        sf = mir.struct_fields('CompactionState'); gf = mir.struct_fields('GuardedDbFields'); vf = mir.struct_fields('VersionSet')
        prev = [40 + i for i in range(k_prev)]
        def k(ret, env, pc, prev=prev, ex=ex):
            st = ex.deref(env, Ref('$cs')); g = ex.deref(env, Ref('$g'))
            inuse = [simplify(x).as_long() for x in lib2.set_values(ex, env, g[gf.index('tables_in_use')])]
            outs = [simplify(f[numf]).as_long() for f in st[sf.index('output_files')]]
            ok = isinstance(ret, Enum) and ret.tag == 'Ok'
            posts = [('open_compaction_output_file succeeds although the table file could not be created (or the reverse)', BoolVal(ok) == new_ok),
                     ('an earlier output of the running compaction (or a table of another job) loses its protection from obsolete-file removal', BoolVal(all(x in inuse for x in prev + [7]))),
                     ('the new output is not appended to the compaction outputs with a fresh number', BoolVal(outs[:len(prev)] == prev and len(outs) == len(prev) + 1 and outs[-1] == 51)),
                     ('the new output is not protected from obsolete-file removal', BoolVal(len(outs) > 0 and outs[-1] in inuse)),
                     ('the table builder is not created for the number of the new output', BoolVal([simplify(x).as_long() for x in env['$state']['builder_for']] == [outs[-1]] if outs else False))]
            res.cases['earlier outputs %s -> outputs %s, protected %s' % (prev, outs, sorted(inuse))] = 1
            for label, post, m in ex.check_posts(posts, pc):
                rep = 'loses its protection' in label
                res.violations.append({'label': label, 'earlier_outputs': prev, 'outputs': outs, 'protected': sorted(inuse), 'replay': ['compaction_outputs'] if rep else None,
                                       'confirmed_by': None if rep else {'reproduced': False, 'detail': 'no native scenario for this label'}})
        mk = lambda n: mir.mk_struct('FileMetadata', allowed_seeks=Enum('None'), file_number=bv(n), file_size=bv(100), smallest_key=Enum('None'), largest_key=Enum('None'))
        cs = mir.mk_struct('CompactionState', output_files=[mk(n) for n in prev], compaction_manifest={'abstract': True, '__ty': 'CompactionManifest'}, smallest_snapshot=bv(0),
                           total_size_bytes=bv(0), table_builder=Enum('None'))
        vs = mir.mk_struct('VersionSet', curr_file_number=bv(50))
        g = mir.mk_struct('GuardedDbFields', version_set=vs, tables_in_use={'set': [bv(7)] + [bv(n) for n in prev]})
        dbs = mir.mk_struct('PortableDatabaseState', options={'abstract': True, '__ty': 'DbOptions'}, guarded_db_fields='mutex')
        env = {'$state': {'builder_for': []}, '$cs': cs, '$g': g, '$dbs': dbs}
        ex.top(fn, [Ref('$cs'), Ref('$dbs')], env, [], k)
        res.absorb(ex)
        for pc, msg, where in ex.panics:
            res.panic_paths += 1; res.violations.append({'label': 'panic path: ' + msg[:80], 'replay': None, 'confirmed_by': {'reproduced': False, 'detail': 'no native scenario'}})
    res.wall_s = time.time() - t0
    if res.violations: res.status = 'violation'
    return res


def o11_3_confirm(v, out):
    """Native: a compaction state opens three outputs in a row on a real database; all three must be in the protected set."""
    if out.get('_rc') != 0: return (False, 'native run failed: %s' % out.get('_stderr', '')[-300:])
    outs = [x for x in out.get('outputs', '').split(',') if x]; inuse = [x for x in out.get('in_use', '').split(',') if x]
    return (not all(x in inuse for x in outs), 'outputs %s, protected %s' % (outs, inuse))
