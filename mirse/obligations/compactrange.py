"""O7.8 VersionSet::compact_range: which files a manual compaction of a level starts from."""
import time
from z3 import BitVec, Bool, BoolVal, And, Or, Not, Implies, ULT, ULE, UGT, UGE, If, simplify
from ..exec import Exec, Enum, Ref, Opaque, Inconclusive, bv
from ..ob import Result, World, mval, klt, kle, key_bytes
from .. import lib
from .version import base_summaries, mk_version, sorted_disjoint, _levels_argv, _parse_levels


def o7_8_compact_range(mir, tier):
    """Level 0 with 2 files and level 1 with 3 files (free ranges and sizes), compaction of level 0 or 1 over a range with free /
    absent ends.  Reference: no compaction iff no file of the level overlaps the range; a level-0 compaction is never truncated
    (every level-0 file overlapping the chosen inputs is an input); a compaction of level >= 1 takes a non-empty prefix of the
    overlapping files that ends at the first file where the running size reaches max_file_size."""
    fn = mir.method('VersionSet', 'compact_range')
    res = Result('O7.8 VersionSet::compact_range inputs', [fn.path, 'Version::get_overlapping_compaction_inputs_strong (inlined)'],
                 'level 0 with 2 files, level 1 with 3 files (free ranges, sizes < 2^40), level 0 or 1, range ends free or absent, max_file_size free; finalize_compaction_inputs by contract (records the inputs)')
    t0 = time.time()
    numf = mir.field('FileMetadata', 'file_number')
    for level in (0, 1):
        for has_b in (False, True):
            for has_e in (False, True):
                w = World(mir)
                lv = {0: [w.file('z%d' % i, number=10 + i) for i in range(2)], 1: [w.file('a%d' % i, number=20 + i) for i in range(3)]}
                LF = {l: [w.F(f) for f in fs] for l, fs in lv.items()}
                bk, ek = w.key('begin'), w.key('end'); B, E = w.K(bk), w.K(ek)
                limit = BitVec('max_file_size', 64)
                pre = list(w.pre) + [kle(f['sm'], f['lg']) for f in LF[0]] + sorted_disjoint(LF[1]) + [ULT(f['size'], bv(1 << 40)) for l in LF for f in LF[l]]
                if has_b and has_e: pre.append(ULE(B[0], E[0]))
                S = base_summaries(mir); P = S['$patterns']
                node = mir.mk_struct('Node', element=mk_version(mir, lv))
                P[r'VersionSet::get_current_version'] = lambda se, env, pc, vs: lib.one(env, Ref('$node'))
                P[r'VersionSet::release_version'] = lib.unit
                P[r'DbOptions::max_file_size'] = lambda se, env, pc, o, limit=limit: lib.one(env, limit)
                P[r'<VersionChangeManifest as Default>::default'] = lambda se, env, pc: lib.one(env, {'abstract': True, '__ty': 'VersionChangeManifest'})
                P[r'<\[Vec<.*>; 2\] as Default>::default'] = lambda se, env, pc: lib.one(env, [[], []])
                P[r'<\[usize; 7\] as Default>::default'] = lambda se, env, pc: lib.one(env, [bv(0)] * 7)
                P[r'Vec::truncate'] = lambda se, env, pc, v, n: (se.store(env, v, lib.the_list(se, env, v)[:simplify(n).as_long()]), lib.one(env, ()))[1]
                P[r'FileMetadata::get_file_size'] = lambda se, env, pc, f: lib.one(env, (se.deref(env, f) if isinstance(f, Ref) else f)[mir.field('FileMetadata', 'file_size')])
                cmf = mir.struct_fields('CompactionManifest')
                def finalize(se, env, pc, cm):
                    st = dict(env['$state']); c = se.deref(env, cm)
                    st['inputs'] = [f[numf] for f in c[cmf.index('input_files')][0]]; st['level'] = c[cmf.index('level')]
                    return [(None, {'next_key_of': 'finalize'}, st)]
                P[r'CompactionManifest::finalize_compaction_inputs'] = finalize
                ex = Exec(mir, S, loop_bound=14)
                def k(ret, env, pc, level=level, has_b=has_b, has_e=has_e, LF=LF, B=B, E=E, limit=limit, ex=ex):
                    st = env['$state']; files = LF[level]
                    def in_range(f):
                        c = []
                        if has_b: c.append(UGE(f['lg'][0], B[0]))
                        if has_e: c.append(ULE(f['sm'][0], E[0]))
                        return And(*c) if c else BoolVal(True)
                    some = isinstance(ret, Enum) and ret.tag == 'Some'
                    posts = [('compact_range returns no compaction although a file of the level overlaps the range (or the reverse)', BoolVal(some) == Or(*[in_range(f) for f in files]))]
                    got = []
                    if some:
                        got = [simplify(x).as_long() for x in st.get('inputs', [])]
                        ins = [f['num'].as_long() in got for f in files]
                        posts.append(('the compaction is built for another level', st.get('level') == bv(level) if 'level' in st else BoolVal(False)))
                        posts.append(('a manual compaction has no input file', BoolVal(len(got) >= 1)))
                        if level == 0:
                            a, b = files
                            overlap = And(ULE(a['sm'][0], b['lg'][0]), ULE(b['sm'][0], a['lg'][0]))
                            posts.append(('a level-0 file overlapping the inputs of a level-0 compaction is left out (an older version of a key would stay above the compacted one)',
                                          Or(Not(overlap), BoolVal(all(ins) or not any(ins)))))
                            for i, f in enumerate(files):
                                posts.append(('a level-0 file overlapping the requested range is not an input', Or(Not(in_range(f)), BoolVal(ins[i]))))
                        else:
                            # overlapping files form a contiguous run (sorted disjoint level); inputs must be a prefix of that run
                            for i, f in enumerate(files):
                                posts.append(('a file outside the requested range is compacted', Or(in_range(f), BoolVal(not ins[i]))))
                                earlier = [in_range(g) for g in files[:i]]
                                first = And(in_range(f), *[Not(x) for x in earlier])
                                posts.append(('the first file overlapping the range is not an input', Or(Not(first), BoolVal(ins[i]))))
                            for i in range(len(files)):
                                for j in range(i + 1, len(files)):
                                    if ins[j] and not ins[i]: posts.append(('the inputs are not a prefix of the overlapping files', Not(in_range(files[i]))))
                            # truncation rule: file j (in range) is an input iff the running size of the in-range files before it stays below the limit
                            run = bv(0); stopped = BoolVal(False)
                            for i, f in enumerate(files):
                                want = And(in_range(f), Not(stopped))
                                posts.append(('the inputs of a level >= 1 compaction do not stop at the first file where the running size reaches max_file_size', want == BoolVal(ins[i])))
                                run = If(in_range(f), run + f['size'], run)
                                stopped = Or(stopped, And(in_range(f), UGE(run, limit)))
                        ptr = ex.deref(env, Ref('$vs'))[mir.field('VersionSet', 'compaction_pointers')][level]
                        posts.append(('the compaction pointer of the level is not advanced to the key returned by finalize_compaction_inputs', BoolVal(isinstance(ptr, Enum) and ptr.tag == 'Some' and isinstance(ptr.fields[0], dict) and ptr.fields[0].get('next_key_of') == 'finalize')))
                    res.cases['L%d begin=%s end=%s -> %s' % (level, has_b, has_e, got if some else None)] = 1
                    def argv(m):
                        return ['compact_range', str(level), ('%s:%d' % (key_bytes(mval(m, B[0])), mval(m, B[1]))) if has_b else 'none', ('%s:%d' % (key_bytes(mval(m, E[0])), mval(m, E[1]))) if has_e else 'none'] + _levels_argv(m, LF)
                    hint = [limit == bv(64)] + [Or(ULT(g['lg'][0], f['sm'][0]), UGT(g['sm'][0], f['lg'][0])) for g in LF[1] for f in LF[0]]
                    for label, post in posts:
                        ex.record_formula(label, pc, Not(post))
                        m = ex.model(Not(post))
                        if m is not None:
                            m = ex.model(Not(post), *hint) or ex.model(Not(post), hint[0]) or m
                            res.violations.append({'label': label, 'level': level, 'executor_result': got, 'max_file_size': mval(m, limit), 'replay': argv(m) if mval(m, limit) == 64 else None,
                                                   'confirmed_by': None if mval(m, limit) == 64 else {'reproduced': False, 'detail': 'no model with the native max_file_size'}})
                vs = mir.mk_struct('VersionSet', options={'abstract': True, '__ty': 'DbOptions'}, compaction_pointers=[Enum('None')] * 7)
                rng = {0: Enum('Some', (bk,)) if has_b else Enum('None'), 1: Enum('Some', (ek,)) if has_e else Enum('None'), '__ty': 'Range'}
                env = {'$state': {}, '$vs': vs, '$node': node}
                ex.top(fn, [Ref('$vs'), bv(level), rng], env, pre, k)
                res.absorb(ex)
                for pc, msg, where in ex.panics:
                    res.panic_paths += 1; res.violations.append({'label': 'panic path: ' + msg[:80], 'level': level, 'replay': None, 'confirmed_by': {'reproduced': False, 'detail': 'no native scenario'}})
    res.wall_s = time.time() - t0
    if res.violations: res.status = 'violation'
    return res


def o7_8_confirm(v, out):
    """Native: VersionSet::compact_range on a version set holding the model's files (max_file_size 64); the level-L inputs are
    compared with the reference computed from the concrete files."""
    if out.get('_rc') != 0:
        # setting up the compaction panics (e.g. the assertion that a compaction has inputs): on the background thread this kills the worker
        if 'panicked' in out.get('_stderr', ''): return (True, 'native: VersionSet::compact_range panics for this layout: %s' % out.get('_stderr', '').split('panicked')[1][:200].replace('\n', ' '))
        return (False, 'native run failed: %s' % out.get('_stderr', '')[-300:])
    a = v['replay']; level = int(a[1]); lv = _parse_levels(a[4:])
    b = None if a[2] == 'none' else int(a[2].split(':')[0], 16); e = None if a[3] == 'none' else int(a[3].split(':')[0], 16)
    files = lv.get(level, [])
    got = sorted(int(x) for x in out.get('inputs0', '').split(',') if x)
    def in_range(f): return (b is None or f['lg'][0] >= b) and (e is None or f['sm'][0] <= e)
    inr = [f for f in files if in_range(f)]
    if not inr: return (out.get('picked') != 'none', 'no file overlaps the range, native picked=%s' % out.get('picked'))
    if out.get('picked') != 'some': return (True, 'files %s overlap the range, native picked none' % [f['num'] for f in inr])
    if level == 0:
        sel = {f['num'] for f in inr}; changed = True
        while changed:
            changed = False
            for f in files:
                if f['num'] in sel: continue
                if any(not (f['lg'][0] < g['sm'][0] or g['lg'][0] < f['sm'][0]) for g in files if g['num'] in sel): sel.add(f['num']); changed = True
        return (not sel <= set(got), 'native level-0 inputs %s, files overlapping the range (closed under overlap) %s' % (got, sorted(sel)))
    exp, run = [], 0
    for f in inr:
        exp.append(f['num']); run += f['size']
        if run >= 64: break
    return (got[:len(exp)] != exp and set(got) != set(exp) and not set(exp) <= set(got), 'native inputs %s, reference prefix %s' % (got, exp))
