"""O7.11 CompactionState::finish_compaction_output_file and CompactionWorker::cleanup_compaction."""
import time
from z3 import BitVec, Bool, BoolVal, And, Or, Not, UGT, ULT, simplify
from ..exec import Exec, Enum, Ref, Opaque, Inconclusive, bv
from ..ob import Result, mval
from .. import lib, lib2

GUARD = r'<parking_lot::lock_api::MutexGuard<.*> as Deref(?:Mut)?>::deref(?:_mut)?'


def o7_11_finish_output(mir, tier):
    """finish_compaction_output_file: the merge iterator carries an error or not, TableBuilder::finalize and the verification open
    succeed or fail (free), entry count and file size free.  Reference: an iterator error abandons the table and is returned; a
    failed finalize or verification is returned; otherwise the built size is recorded in the output's metadata and added to the
    total; in every case the builder is given up (the next output can be opened).
    cleanup_compaction: a pending builder is abandoned and every output leaves the protected set."""
    fn = mir.method('CompactionState', 'finish_compaction_output_file'); cl = mir.method('CompactionWorker', 'cleanup_compaction')
    res = Result('O7.11 finishing / cleaning up compaction outputs', [fn.path, cl.path], 'iterator error present or not; finalize / verification succeed or fail; entry count, size and previous total free')
    t0 = time.time()
    S = lib2.install(lib.std_summaries()); P = S['$patterns']; P[GUARD] = lib.ptr_deref
    it_err, fin_ok, open_ok = Bool('iterator_has_error'), Bool('finalize_ok'), Bool('table_opens')
    nent, size, total0 = BitVec('entries_in_table', 64), BitVec('built_size', 64), BitVec('total_before', 64)
    pre = [ULT(size, bv(1 << 40)), ULT(total0, bv(1 << 40))]
    mf = mir.struct_fields('FileMetadata'); sf = mir.struct_fields('CompactionState')
    def ev(env, e):
        st = dict(env['$state']); st['events'] = st['events'] + [e]; return st
    P[r'CompactionState::has_table_builder'] = lambda se, env, pc, s: lib.one(env, BoolVal(isinstance(se.deref(env, s)[sf.index('table_builder')], Enum) and se.deref(env, s)[sf.index('table_builder')].tag == 'Some'))
    P[r'CompactionState::current_output_mut'] = lambda se, env, pc, s: lib.one(env, Ref('$cs', (sf.index('output_files'), 0)))
    P[r'CompactionState::table_builder_mut'] = lambda se, env, pc, s: lib.one(env, Ref('$tb'))
    P[r'FileMetadata::file_number'] = lambda se, env, pc, f: lib.one(env, se.deref(env, f)[mf.index('file_number')])
    def set_size(se, env, pc, f, n):
        fv = dict(se.deref(env, f)); fv[mf.index('file_size')] = n; se.store(env, f, fv); return lib.one(env, ())
    P[r'FileMetadata::set_file_size'] = set_size
    P[r'TableBuilder::get_num_entries'] = lambda se, env, pc, b: lib.one(env, nent)
    P[r'TableBuilder::file_size'] = lambda se, env, pc, b: lib.one(env, size)
    P[r'TableBuilder::abandon'] = lambda se, env, pc, b: [(None, (), ev(env, 'abandon'))]
    def fin(se, env, pc, b):
        st = ev(env, 'finalize'); return [(fin_ok, Enum('Ok', ((),)), st), (Not(fin_ok), Enum('Err', (Enum('IO', (Opaque('e'),), 'BuilderError'),)), st)]
    P[r'TableBuilder::finalize'] = fin
    P[r'MergingIterator::get_error'] = lambda se, env, pc, it: [(it_err, Enum('Some', (Enum('IO', ({'which': 'iterator error'},), 'RainDBError'),)), env['$state']), (Not(it_err), Enum('None'), env['$state'])]
    def find(se, env, pc, tc, n):
        st = ev(env, 'verify_open'); return [(open_ok, Enum('Ok', ({'abstract': True},)), st), (Not(open_ok), Enum('Err', (Enum('IO', (Opaque('e'),), 'ReadError'),)), st)]
    P[r'TableCache::find_table'] = find
    P[r'<Arc<TableCache> as Deref>::deref'] = lib.ident
    P[r'CompactionManifest::level'] = lambda se, env, pc, m: lib.one(env, bv(1))
    P[r'<RainDBError as From<.*>>::from'] = lambda se, env, pc, e: lib.one(env, Enum('TableRead', (e,), 'RainDBError'))
    P[r'<Result<.*> as FromResidual<Result<Infallible, .*>>>::from_residual'] = lambda se, env, pc, r: lib.one(env, r)
    ex = Exec(mir, S, loop_bound=4, opaque_calls_ok=True)
    def k(ret, env, pc):
        evs = env['$state']['events']; cs = ex.deref(env, Ref('$cs')); ok = isinstance(ret, Enum) and ret.tag == 'Ok'
        out0 = cs[sf.index('output_files')][0]
        tbf = cs[sf.index('table_builder')]
        want_ok = And(Not(it_err), fin_ok, Or(nent == 0, open_ok))
        posts = [('finishing a compaction output reports success although the merge iterator failed, the table could not be finalized or the finished table cannot be opened (or the reverse)', BoolVal(ok) == want_ok),
                 ('the table builder is kept after the output was finished (the next output cannot be opened)', BoolVal(isinstance(tbf, Enum) and tbf.tag == 'None')),
                 ('a table is finalized although the merge iterator reported an error (a truncated table would be installed)', Or(Not(it_err), BoolVal('finalize' not in evs and 'abandon' in evs))),
                 ('the built size is not recorded in the metadata of the output and added to the compaction total', And(out0[mf.index('file_size')] == size, cs[sf.index('total_size_bytes')] == total0 + size))]
        if ok: posts.append(('a non-empty output is not opened for verification before it is installed', Or(nent == 0, BoolVal('verify_open' in evs))))
        res.cases[('Ok ' if ok else 'Err ') + ','.join(evs)] = 1
        for label, post, m in ex.check_posts(posts, pc):
            # what finishing an output does with the builder / the sizes under failures is replayed by a fault sweep over the writes of a manual compaction
            rep = 'table builder is kept' in label or 'not recorded in the metadata' in label or 'failure' in label
            res.violations.append({'label': label, 'events': evs, 'replay': ['compaction_write_fault_sweep'] if rep else None, 'confirmed_by': None if rep else {'reproduced': False, 'detail': 'no native scenario for this label'}})
    out = mir.mk_struct('FileMetadata', allowed_seeks=Enum('None'), file_number=bv(41), file_size=bv(0), smallest_key=Enum('None'), largest_key=Enum('None'))
    cs = mir.mk_struct('CompactionState', output_files=[out], compaction_manifest={'abstract': True, '__ty': 'CompactionManifest'}, smallest_snapshot=bv(0), total_size_bytes=total0, table_builder=Enum('Some', ({'abstract': True, '__ty': 'TableBuilder'},)))
    ex.top(fn, [Ref('$cs'), {'abstract': True, '__ty': 'TableCache'}, Ref('$it')], {'$state': {'events': []}, '$cs': cs, '$tb': {'abstract': True, '__ty': 'TableBuilder'}, '$it': {'abstract': True, '__ty': 'MergingIterator'}}, pre, k)
    res.absorb(ex)
    for pcx, msg, where in ex.panics:
        ex.solver.push(); ex.solver.add(*pre); ex.solver.add(*[c for c in pcx if not isinstance(c, bool)]); feas = str(ex.solver.check()) == 'sat'; ex.solver.pop()
        if feas: res.panic_paths += 1; res.violations.append({'label': 'panic path: ' + msg[:80], 'replay': None, 'confirmed_by': {'reproduced': False, 'detail': 'no native scenario'}})
    # ---- cleanup_compaction
    gf = mir.struct_fields('GuardedDbFields')
    for has_builder in (False, True):
        S = lib2.install(lib.std_summaries()); P = S['$patterns']; P[GUARD] = lib.ptr_deref
        P[r'CompactionState::has_table_builder'] = lambda se, env, pc, s, hb=has_builder: lib.one(env, BoolVal(hb))
        P[r'CompactionState::table_builder_mut'] = lambda se, env, pc, s: lib.one(env, Ref('$tb'))
        P[r'TableBuilder::abandon'] = lambda se, env, pc, b: [(None, (), ev(env, 'abandon'))]
        P[r'CompactionState::get_output_files'] = lambda se, env, pc, s: lib.one(env, Ref('$cs', (sf.index('output_files'),)))
        P[r'FileMetadata::file_number'] = lambda se, env, pc, f: lib.one(env, se.deref(env, f)[mf.index('file_number')])
        ex = Exec(mir, S, loop_bound=6, opaque_calls_ok=True)
        def k2(ret, env, pc, has_builder=has_builder, ex=ex):
            inuse = sorted(simplify(x).as_long() for x in lib2.set_values(ex, env, ex.deref(env, Ref('$g'))[gf.index('tables_in_use')]))
            posts = [('after the clean-up of a compaction its outputs are still protected from obsolete-file removal, or a table of another job is released', BoolVal(inuse == [7])),
                     ('a half-built output is not abandoned by the clean-up (or a builder is abandoned that does not exist)', BoolVal(('abandon' in env['$state']['events']) == has_builder))]
            res.cases['cleanup builder=%s -> protected %s' % (has_builder, inuse)] = 1
            for label, post, m in ex.check_posts(posts, pc):
                res.violations.append({'label': label, 'replay': None, 'confirmed_by': {'reproduced': False, 'detail': 'no native scenario for this label'}})
        mk = lambda n: mir.mk_struct('FileMetadata', allowed_seeks=Enum('None'), file_number=bv(n), file_size=bv(10), smallest_key=Enum('None'), largest_key=Enum('None'))
        cs2 = mir.mk_struct('CompactionState', output_files=[mk(40), mk(41)], compaction_manifest={'abstract': True}, smallest_snapshot=bv(0), total_size_bytes=bv(0), table_builder=Enum('None'))
        g = mir.mk_struct('GuardedDbFields', tables_in_use={'set': [bv(7), bv(40), bv(41)]})
        ex.top(cl, [Ref('$guard'), Ref('$cs')], {'$state': {'events': []}, '$g': g, '$guard': Ref('$g'), '$cs': cs2, '$tb': {'abstract': True}}, [], k2)
        res.absorb(ex)
    res.wall_s = time.time() - t0
    if res.violations: res.status = 'violation'
    return res


def o7_11_confirm(v, out):
    """Native: for k = 1..14 the k-th file-system operation on a table file (and every later one) fails while a manual compaction of two overlapping
    level-0 tables runs: the requester must return, the background thread must not panic, the database must close (10 s watchdogs)."""
    if out.get('_rc') != 0 and not out.get('_timeout'): return (False, 'native run failed: %s' % out.get('_stderr', '')[-300:])
    bad = out.get('first_bad', 'none')
    return (bad != 'none' or bool(out.get('_timeout')), 'native fault sweep over the table writes of a manual compaction: first failing step %s (%s)' % (bad, out.get(bad, 'watchdog') if bad != 'none' else 'all 14 steps end with the requester released, no panic, database closed'))
