"""O1.5 Version::get: which table answers a lookup, what happens on a table read error, which file is charged a seek."""
import itertools, time
from z3 import BitVec, BitVecVal, Bool, BoolVal, And, Or, Not, Implies, ULT, ULE, UGT, UGE, If, is_bv
from ..exec import Exec, Enum, Ref, Opaque, Inconclusive, bv
from ..ob import Result, World, mval
from .. import lib
from .version import base_summaries, mk_version


def o1_5_version_get(mir, tier):
    """The files to consult are given by contract (Version::get_overlapping_files is O1.4): a shape (n0, n1, n2, n3) of files at
    levels 0..3.  Every table answers by contract with a free outcome: 0 = value, 1 = tombstone, 2 = not in this file,
    3 = read error.  Reference: the answer of the first consulted file (level ascending, list order within level 0) whose outcome is
    not 2; a read error is reported, never skipped; without such a file the key is absent."""
    fn = mir.method('Version', 'get')
    shapes = [s for s in itertools.product(range(0, 3 if tier == 'quick' else 4), (0, 1), (0, 1), (0, 1)) if sum(s) >= 1]
    res = Result('O1.5 Version::get', [fn.path], 'consulted files per level: every shape with <= %d level-0 files and <= 1 file at each of levels 1..3 (%d shapes); per-file outcome (value / tombstone / not in file / read error) free' % (2 if tier == 'quick' else 3, len(shapes)))
    t0 = time.time()
    numf = mir.field('FileMetadata', 'file_number')
    for shape in shapes:
        w = World(mir)
        per_level = [[w.file('l%d_%d' % (l, i), number=100 * l + i + 1) for i in range(n)] for l, n in enumerate(shape)]
        order = [(l, i) for l, n in enumerate(shape) for i in range(n)]
        outcome = {100 * l + i + 1: BitVec('outcome_l%d_%d' % (l, i), 8) for l, i in order}
        pre = [ULE(o, BitVecVal(3, 8)) for o in outcome.values()]
        S = base_summaries(mir); P = S['$patterns']
        P[r'Version::get_overlapping_files'] = lambda se, env, pc, v, k, per_level=per_level: lib.one(env, [list(fs) for fs in per_level] + [[] for _ in range(7 - len(per_level))])
        P[r'FileMetadata::file_number'] = lambda se, env, pc, f: lib.one(env, (se.deref(env, f) if isinstance(f, Ref) else f)[numf])
        def tget(se, env, pc, tc, ro, num, key, outcome=outcome):
            n = num.as_long() if hasattr(num, 'as_long') else None
            if n is None:
                from z3 import simplify
                n = simplify(num).as_long()
            st = dict(env['$state']); st['consulted'] = st['consulted'] + [n]; o = outcome[n]
            return [(o == 0, Enum('Ok', (Enum('Some', ({'value_of': n},)),)), st), (o == 1, Enum('Ok', (Enum('None'),)), st),
                    (o == 2, Enum('Err', (Enum('KeyNotFound', (), 'ReadError'),)), st),
                    (o == 3, Enum('Err', (Enum('IO', ({'error_of': n},), 'ReadError'),)), st)]
        P[r'TableCache::get'] = tget
        P[r'SeekChargeMetadata::new'] = lambda se, env, pc: lib.one(env, mir.mk_struct('SeekChargeMetadata', seek_file=Enum('None'), seek_file_level=Enum('None')))
        P[r'Option::cloned'] = lambda se, env, pc, o: lib.one(env, Enum('Some', (se.deref(env, o.fields[0]) if isinstance(o.fields[0], Ref) else o.fields[0],)) if o.tag == 'Some' else o)
        ex = Exec(mir, S, loop_bound=sum(shape) + 10)
        gf = mir.struct_fields('GetResponse'); cf = mir.struct_fields('SeekChargeMetadata')
        def k(ret, env, pc, ex=ex, order=order, outcome=outcome, shape=shape):
            consulted = env['$state']['consulted']
            nums = [100 * l + i + 1 for l, i in order]
            # reference
            decided = BoolVal(False); exp_kind = BitVecVal(4, 8); exp_file = bv(0); n_consulted = bv(0)
            for idx, n in enumerate(nums):
                hit = And(Not(decided), outcome[n] != 2)
                exp_kind = If(hit, outcome[n], exp_kind); exp_file = If(hit, bv(n), exp_file)
                n_consulted = If(Not(decided), bv(idx + 1), n_consulted)
                decided = Or(decided, outcome[n] != 2)
            posts = []
            if isinstance(ret, Enum) and ret.tag == 'Ok':
                resp = ret.fields[0]; val = resp[gf.index('value')]; charge = resp[gf.index('charge_metadata')]
                if isinstance(val, Enum) and val.tag == 'Some':
                    posts.append(('a value is returned that is not the answer of the first table that knows the key', And(exp_kind == 0, exp_file == bv(val.fields[0]['value_of']))))
                else:
                    posts.append(('the key is reported absent although the first table that knows it holds a value or cannot be read', Or(exp_kind == 1, exp_kind == 4)))
            elif isinstance(ret, Enum) and ret.tag == 'Err':
                e = ret.fields[0]
                inner = e.fields[0][0] if isinstance(e, Enum) and e.tag == 'TableRead' else None
                who = inner.fields[0].get('error_of') if isinstance(inner, Enum) and inner.fields and isinstance(inner.fields[0], dict) else None
                posts.append(('an error is returned that is not the read error of the first table that knows the key', And(exp_kind == 3, exp_file == bv(who if who is not None else 0))))
                charge = e.fields[0][1].fields[0] if isinstance(e, Enum) and e.tag == 'TableRead' and isinstance(e.fields[0][1], Enum) and e.fields[0][1].tag == 'Some' else None
            else:
                posts.append(('unexpected return value', BoolVal(False))); charge = None
            posts.append(('tables are not consulted newest-first (level ascending, level-0 order as given), stopping at the first that knows the key',
                          And(n_consulted == bv(len(consulted)), BoolVal(consulted == nums[:len(consulted)]))))
            if charge is not None:
                sf, sl = charge[cf.index('seek_file')], charge[cf.index('seek_file_level')]
                if len(consulted) >= 2:
                    first_level = order[0][0]
                    okc = isinstance(sf, Enum) and sf.tag == 'Some' and isinstance(sl, Enum) and sl.tag == 'Some'
                    posts.append(('after more than one table read the first table read is not the one charged a seek (with its own level)',
                                  And(sf.fields[0][numf] == bv(nums[0]), sl.fields[0] == bv(first_level)) if okc else BoolVal(False)))
                else:
                    posts.append(('a seek is charged although at most one table was read', BoolVal(isinstance(sf, Enum) and sf.tag == 'None')))
            res.cases['%s %s consulted=%d' % (shape, getattr(ret, 'tag', '?'), len(consulted))] = 1
            for label, post in posts:
                ex.record_formula(label, pc, Not(post))
                m = ex.model(Not(post))
                if m is not None:
                    res.violations.append({'label': label, 'shape': list(shape), 'outcomes': {str(n): mval(m, outcome[n]) for n in nums}, 'consulted': consulted,
                                           'replay': ['get_unreadable_newest'] if 'charged' not in label else None,
                                           'confirmed_by': None if 'charged' not in label else {'reproduced': False, 'detail': 'no native scenario for this label'}})
        env = {'$state': {'consulted': []}, '$v': mk_version(mir, {}), '$t': w.key('t'), '$ro': {'abstract': True, '__ty': 'ReadOptions'}}
        ex.top(fn, [Ref('$v'), Ref('$ro'), Ref('$t')], env, pre + list(w.pre), k)
        res.absorb(ex)
        for pc, msg, where in ex.panics:
            res.panic_paths += 1; res.violations.append({'label': 'panic path: ' + msg[:80], 'shape': list(shape), 'replay': None, 'confirmed_by': {'reproduced': False, 'detail': 'no native scenario'}})
    res.wall_s = time.time() - t0
    if res.violations: res.status = 'violation'
    return res


def o1_5_confirm(v, out):
    """Native: a key has versions in three table files at three levels; the newest file gets one flipped data-block byte, the
    database is reopened; get must report an error (not an older value, not absence)."""
    if out.get('_rc') != 0: return (False, 'native run failed: %s' % out.get('_stderr', '')[-300:])
    return (out.get('get_after_damage', '').startswith('Ok') or out.get('get_after_damage') == 'Err(KeyNotFound)', 'levels %s; get of the key whose newest table is damaged returns %s' % (out.get('levels'), out.get('get_after_damage')))
