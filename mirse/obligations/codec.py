"""O10.8 version-edit codec over an abstract token stream.

Byte contents are not represented.  A buffer is the list of the primitive values written to it: write_varint(x) appends ('v', x),
write_length_prefixed_slice(s) appends ('slice', s), write_all(bytes of a nested encoder) appends ('raw', what was encoded).
read_varint / read_length_prefixed_slice / FileMetadata::deserialize pop the matching token (anything else is a read error).  The
primitives are taken to be inverse to each other (varint and key / file-metadata codecs are separate units); what is decided is the
field logic of the encoder and the decoder: which fields are written, under which tag, in which order, and what the decoder makes of
them."""
import itertools, time
from z3 import BitVec, BitVecVal, Bool, BoolVal, And, Or, Not, ULT, ULE, UGE, Extract, ZeroExt, simplify, is_bv
from ..exec import Exec, Enum, Ref, Opaque, Inconclusive, bv
from ..ob import Result, World, mval
from .. import lib, lib2


def token_summaries(S, mir, w):
    P = S['$patterns']
    def P_(se, env, v):
        v = se.deref(env, v) if isinstance(v, Ref) else v
        while isinstance(v, Ref): v = se.deref(env, v)
        return v
    def toks(se, env, r):
        v = P_(se, env, r)
        if isinstance(v, dict) and 'tokens' in v: return v
        if isinstance(v, list) and not v: return {'tokens': []}
        raise Inconclusive('not a token buffer: %r' % (v,))
    def put(se, env, r, tok):
        b = toks(se, env, r); se.store(env, r, {'tokens': b['tokens'] + [tok]})
    P[r'Vec::new'] = lambda se, env, pc: lib.one(env, {'tokens': []})
    def wv(se, env, pc, buf, x):
        put(se, env, buf, ('v', x)); return lib.one(env, Enum('Ok', (bv(1),)))
    P[r'<Vec<u8> as VarIntWriter>::write_varint'] = wv
    def wl(se, env, pc, buf, s):
        put(se, env, buf, ('slice', P_(se, env, s))); return lib.one(env, Enum('Ok', (bv(1),)))
    P[r'<Vec<u8> as WriteHelpers>::write_length_prefixed_slice'] = wl
    def wa(se, env, pc, buf, s):
        put(se, env, buf, ('raw', P_(se, env, s))); return lib.one(env, Enum('Ok', ((),)))
    P[r'<Vec<u8> as (?:std::io::)?Write>::write_all'] = wa
    P[r'<Vec<u8> as From<&InternalKey>>::from'] = lambda se, env, pc, k: lib.one(env, {'encoded_key': P_(se, env, k)})
    P[r'<Vec<u8> as From<&FileMetadata>>::from'] = lambda se, env, pc, f: lib.one(env, {'encoded_file': P_(se, env, f)})
    P[r'<Vec<u8> as Deref>::deref'] = lib.ident
    # ---- reader side: a `&[u8]` cursor over the same token list
    def pop(se, env, r, kind):
        b = toks(se, env, r)
        if not b['tokens'] or b['tokens'][0][0] != kind: return None
        se.store(env, r, {'tokens': b['tokens'][1:]}); return b['tokens'][0][1]
    def rv(width):
        def f(se, env, pc, r):
            x = pop(se, env, r, 'v')
            if x is None: return lib.one(env, Enum('Err', ({'kind': 'UnexpectedEof', '__ty': 'io::Error'},)))
            if is_bv(x) and x.size() > width: x = Extract(width - 1, 0, x)
            if is_bv(x) and x.size() < width: x = ZeroExt(width - x.size(), x)
            return lib.one(env, Enum('Ok', (x,)))
        return f
    # the turbofish is stripped from callee names: the token keeps the width it was written with (u32 tags / levels, u64 numbers)
    def rv_any(se, env, pc, r):
        x = pop(se, env, r, 'v')
        return lib.one(env, Enum('Ok', (x,)) if x is not None else Enum('Err', ({'kind': 'UnexpectedEof', '__ty': 'io::Error'},)))
    P[r'<&\[u8\] as VarIntReader>::read_varint'] = rv_any
    P[r'<R as VarIntReader>::read_varint'] = rv_any
    # the blanket impl `impl<R: Read> ReadHelpers for R`: run read_raindb_level from its own MIR
    from ..exec import Delegate
    lvl = [f for f in mir.fns.values() if f.path.endswith('::read_raindb_level') and 'utils::io' in f.path]
    if len(lvl) == 1: P[r'<&\[u8\] as ReadHelpers>::read_raindb_level'] = lambda se, env, pc, r, f=lvl[0]: Delegate(f, [r], lambda x: x)
    def rl(se, env, pc, r):
        x = pop(se, env, r, 'slice')
        return lib.one(env, Enum('Ok', (x,)) if x is not None else Enum('Err', ({'kind': 'UnexpectedEof', '__ty': 'io::Error'},)))
    P[r'<&\[u8\] as ReadHelpers>::read_length_prefixed_slice'] = rl
    def de(se, env, pc, r):
        x = pop(se, env, r, 'raw')
        ok = isinstance(x, dict) and 'encoded_file' in x
        return lib.one(env, Enum('Ok', (x['encoded_file'],)) if ok else Enum('Err', (Opaque('e'),)))
    P[r'FileMetadata::deserialize'] = de
    P[r'<InternalKey as TryFrom<Vec<u8>>>::try_from'] = lambda se, env, pc, v: lib.one(env, Enum('Ok', (v['encoded_key'],)) if isinstance(v, dict) and 'encoded_key' in v else Enum('Err', (Opaque('e'),)))
    def over(key, f):
        old = P.get(key)
        def g(se, env, pc, r, *a):
            v = P_(se, env, r)
            if isinstance(v, dict) and 'tokens' in v: return f(se, env, pc, r)
            return old(se, env, pc, r, *a)
        P[key] = g
    over(r'core::slice::<impl \[.*\]>::is_empty', lambda se, env, pc, r: lib.one(env, BoolVal(len(toks(se, env, r)['tokens']) == 0)))
    over(r'core::slice::<impl \[.*\]>::len', lambda se, env, pc, r: lib.one(env, bv(len(toks(se, env, r)['tokens']))))
    return P_


def o10_8_manifest_codec(mir, tier):
    """Edits with every combination of the four optional numbers, 0..1 compaction pointers, 0..2 deleted files and 0..2 new files -
    among them the shape of a trivial move (file n deleted at level L, added at level L + 1) and two added files.  Reference: the
    decoded edit equals the encoded one field by field; the reader consumes every token."""
    enc = [f for f in mir.fns.values() if f.name == 'from' and 'version_manifest' in f.path and f.trait and f.trait.startswith('From') and f.self_ty and 'Vec' in f.self_ty]
    dec = [f for f in mir.fns.values() if f.name == 'try_from' and 'version_manifest' in f.path and f.self_ty == 'VersionChangeManifest']
    if len(enc) != 1 or len(dec) != 1: raise Inconclusive('manifest encoder / decoder not found uniquely (%d, %d)' % (len(enc), len(dec)))
    enc, dec = enc[0], dec[0]
    res = Result('O10.8 version-edit codec (field logic over a token stream)', [enc.path, dec.path, 'VersionChangeManifest::add_file / remove_file / add_compaction_pointer, ReadHelpers::read_raindb_level (inlined)'],
                 'optional numbers present / absent (free values), 0..1 compaction pointers, 0..2 deleted files, 0..2 new files (free levels <= 6, metadata free); varint / key / file-metadata primitives by contract')
    t0 = time.time()
    mf = mir.struct_fields('VersionChangeManifest'); ff = mir.struct_fields('FileMetadata'); df = mir.struct_fields('DeletedFile')
    shapes = [((1, 0, 1, 1), 0, [(3, 7)], [(4, 7)]),              # trivial move: file 7 deleted at level 3, added at level 4
              ((1, 1, 1, 1), 1, [(0, 5), (1, 9)], [(1, 11), (1, 12)]),
              ((0, 0, 0, 0), 0, [], [(0, 3)]),
              ((1, 0, 0, 1), 0, [(5, 8)], []),
              ((0, 1, 1, 0), 1, [], [])]
    if tier != 'quick':
        shapes += [(bits, 1, [(2, 4)], [(3, 4), (6, 6)]) for bits in itertools.product((0, 1), repeat=4)]
    for opt_bits, nptr, dels, adds in shapes:
        w = World(mir)
        names = ('wal_file_number', 'prev_wal_file_number', 'curr_file_number', 'prev_sequence_number')
        optv = {n: BitVec('edit_' + n, 64) for n in names}
        ptrs = [(BitVec('ptr_level%d' % i, 64), w.key('ptr%d' % i)) for i in range(nptr)]
        files = []
        for i, (lvl, num) in enumerate(adds):
            files.append((bv(lvl), w.file('added%d' % i, number=num)))
        delv = [mir.mk_struct('DeletedFile', level=bv(l), file_number=bv(n)) for l, n in dels]
        pre = list(w.pre) + [ULT(p[0], bv(7)) for p in ptrs]
        m0 = mir.mk_struct('VersionChangeManifest', new_files=[(l, f) for l, f in files], deleted_files={'set': list(delv)}, compaction_pointers=[(l, k) for l, k in ptrs],
                           **{n: (Enum('Some', (optv[n],)) if b else Enum('None')) for n, b in zip(names, opt_bits)})
        S = lib2.install(lib.std_summaries()); S['$patterns'].update(lib.ref_partial_ord(mir, 'InternalKey'))
        P_ = token_summaries(S, mir, w)
        P = S['$patterns']
        P[r'<std::slice::Iter<.*> as Iterator>::next'] = lib.it_next
        P[r'<&Vec<.*> as IntoIterator>::into_iter'] = lib.slice_iter
        P[r'<VersionChangeManifest as Default>::default'] = lambda se, env, pc: lib.one(env, mir.mk_struct('VersionChangeManifest', wal_file_number=Enum('None'), prev_wal_file_number=Enum('None'), prev_sequence_number=Enum('None'), curr_file_number=Enum('None'),
                                                                                                     new_files=[], deleted_files={'set': []}, compaction_pointers=[]))
        P[r'FileMetadata::file_number'] = lambda se, env, pc, f: lib.one(env, P_(se, env, f)[ff.index('file_number')])
        P[r'FileMetadata::get_file_size'] = lambda se, env, pc, f: lib.one(env, P_(se, env, f)[ff.index('file_size')])
        P[r'FileMetadata::clone_key_range'] = lambda se, env, pc, f: lib.one(env, {0: P_(se, env, f)[ff.index('smallest_key')].fields[0], 1: P_(se, env, f)[ff.index('largest_key')].fields[0], '__ty': 'Range'})
        P[r'FileMetadata::new'] = lambda se, env, pc, n: lib.one(env, mir.mk_struct('FileMetadata', allowed_seeks=Enum('None'), file_number=n, file_size=bv(0), smallest_key=Enum('None'), largest_key=Enum('None')))
        def setter(field):
            def f(se, env, pc, r, v):
                fv = dict(se.deref(env, r)); fv[ff.index(field)] = v; se.store(env, r, fv); return lib.one(env, ())
            return f
        P[r'FileMetadata::set_file_size'] = setter('file_size'); P[r'FileMetadata::set_smallest_key'] = setter('smallest_key'); P[r'FileMetadata::set_largest_key'] = setter('largest_key')
        P[r'DeletedFile::new'] = lambda se, env, pc, l, n: lib.one(env, mir.mk_struct('DeletedFile', level=l, file_number=n))
        P[r'<Result<.*> as FromResidual<Result<Infallible, .*>>>::from_residual'] = lambda se, env, pc, r: lib.one(env, r)
        ex = Exec(mir, S, loop_bound=12, opaque_calls_ok=False)
        def encoded(buf, env, pc, ex=ex, m0=m0, opt_bits=opt_bits, optv=optv, ptrs=ptrs, files=files, dels=dels, names=names):
            tokens = buf['tokens'] if isinstance(buf, dict) else None
            if tokens is None: raise Inconclusive('encoder result %r' % (buf,))
            e = dict(env); e['$reader'] = {'tokens': list(tokens)}
            def decoded(ret, env2, pc2):
                posts = [('an encoded version edit does not decode', BoolVal(isinstance(ret, Enum) and ret.tag == 'Ok'))]
                if isinstance(ret, Enum) and ret.tag == 'Ok':
                    d = ret.fields[0]
                    for n, b in zip(names, opt_bits):
                        x = d[mf.index(n)]
                        posts.append(('the %s of an edit does not survive encode + decode' % n.replace('_', ' '), (x.fields[0] == optv[n]) if (b and isinstance(x, Enum) and x.tag == 'Some') else BoolVal((not b) and isinstance(x, Enum) and x.tag == 'None')))
                    gp = d[mf.index('compaction_pointers')]
                    posts.append(('the compaction pointers of an edit do not survive encode + decode', And(BoolVal(len(gp) == len(ptrs)), *[And(g[0] == p[0], *[a == b_ for a, b_ in zip(w.K(g[1]), w.K(p[1]))]) for g, p in zip(gp, ptrs)])))
                    gd = sorted((simplify(x[df.index('level')]).as_long(), simplify(x[df.index('file_number')]).as_long()) for x in lib2.set_values(ex, env2, d[mf.index('deleted_files')]))
                    posts.append(('the deleted files of an edit do not survive encode + decode (a file deleted at one level and added at another - a trivial move - must keep its deletion)', BoolVal(gd == sorted(dels))))
                    gn = d[mf.index('new_files')]
                    conds = [BoolVal(len(gn) == len(files))]
                    for (gl, gf), (fl, f) in zip(gn, files):
                        F1, F2 = w.F(gf), w.F(f)
                        conds += [gl == fl, F1['num'] == F2['num'], F1['size'] == F2['size']] + [a == b_ for a, b_ in zip(F1['sm'] + F1['lg'], F2['sm'] + F2['lg'])]
                    posts.append(('the added files of an edit (level, number, size, key range) do not survive encode + decode', And(*conds)))
                    posts.append(('the decoder does not consume the whole encoding', BoolVal(len(ex.deref(env2, Ref('$reader'))['tokens']) == 0)))
                res.cases['opts=%s ptrs=%d deleted=%s added=%s' % (''.join(map(str, opt_bits)), len(ptrs), dels, [(simplify(l).as_long(), simplify(f[ff.index('file_number')]).as_long()) for l, f in files])] = 1
                for label, post, m in ex.check_posts(posts, pc2):
                    res.violations.append({'label': label, 'deleted': dels, 'replay': ['manifest_codec']})
            ex.run_fn(dec, [Ref('$reader')], e, pc, decoded)
        ex.top(enc, [Ref('$m')], {'$state': {}, '$m': m0}, pre, encoded)
        res.absorb(ex)
        for pcx, msg, where in ex.panics:
            ex.solver.push(); ex.solver.add(*pre); ex.solver.add(*[c for c in pcx if not isinstance(c, bool)]); feas = str(ex.solver.check()) == 'sat'; ex.solver.pop()
            if feas and 'overflow' not in msg: res.panic_paths += 1; res.violations.append({'label': 'panic path: ' + msg[:80], 'replay': None, 'confirmed_by': {'reproduced': False, 'detail': 'no native scenario'}})
    res.wall_s = time.time() - t0
    if res.violations: res.status = 'violation'
    return res


def o10_8_confirm(v, out):
    """Native: edits of the shapes above (among them trivial moves at every level) are encoded and decoded by the real codec."""
    if out.get('_rc') != 0: return (False, 'native run failed: %s' % out.get('_stderr', '')[-300:])
    return (out.get('mismatches', '0') != '0', '%s of %s encoded edits decode to something else (first: %s)' % (out.get('mismatches'), out.get('edits'), out.get('first_mismatch')))


# =============================================================== batch codec (byte-accurate token stream)
def o6_3_batch_codec(mir, tier):
    """Batch encoder (`From<&Batch> for Vec<u8>`, `From<&BatchElement> for Vec<u8>`) and decoder (`Batch::try_from`,
    `BatchElement::read_element`, `read_length_prefixed_slice`) over a token stream whose tokens carry a byte length: fixed64
    (8 bytes), varint (1..5 bytes, free), one byte, a byte string (its own free length).  Buffer lengths, `starting_len - buf.len()`
    and `&buf[n..]` are computed from those lengths (the cut position is found by the solver).  Reference: a batch of 0..3
    operations (every put / delete pattern, free key / value lengths incl. 0, free starting sequence) decodes to the same starting
    sequence and the same operations in order; the decoder consumes the whole encoding."""
    enc = [f for f in mir.fns.values() if f.name == 'from' and f.path.startswith('batch::') and f.trait and f.trait.startswith('From') and f.self_ty and 'Vec' in f.self_ty]
    encb = [f for f in enc if 'BatchElement' not in (f.trait_full or '')]; ence = [f for f in enc if 'BatchElement' in (f.trait_full or '')]
    dec = [f for f in mir.fns.values() if f.name == 'try_from' and f.path.startswith('batch::') and f.self_ty == 'Batch']
    rel = [f for f in mir.fns.values() if f.path.endswith('::read_element') and f.path.startswith('batch::')]
    rlp = [f for f in mir.fns.values() if f.path.endswith('::read_length_prefixed_slice') and 'utils::io' in f.path]
    if not (len(encb) == 1 and len(ence) == 1 and len(dec) == 1 and len(rel) == 1 and len(rlp) == 1):
        raise Inconclusive('batch codec functions not found uniquely (%d %d %d %d %d)' % (len(encb), len(ence), len(dec), len(rel), len(rlp)))
    encb, ence, dec, rel, rlp = encb[0], ence[0], dec[0], rel[0], rlp[0]
    NMAX = 2 if tier == 'quick' else 3
    res = Result('O6.3 batch codec (field logic over a byte-accurate token stream)', [encb.path, ence.path, dec.path, rel.path, rlp.path],
                 'batches of 0..%d operations, every put / delete pattern, key and value lengths free (0 allowed, < 2^20), starting sequence free; fixed-int / varint primitives by contract' % NMAX)
    t0 = time.time()
    bf = mir.struct_fields('Batch'); ef = mir.struct_fields('BatchElement')
    from ..exec import Delegate
    for n in range(0, NMAX + 1):
        for kinds in itertools.product((True, False), repeat=n):
            S = lib.std_summaries(); P = S['$patterns']
            s0 = BitVec('starting_sequence', 64)
            klen = [BitVec('key_len%d' % i, 64) for i in range(n)]; vlen = [BitVec('value_len%d' % i, 64) for i in range(n)]
            pre = [ULT(x, bv(1 << 20)) for x in klen + vlen]
            fresh = [0]
            def P_(se, env, v):
                v = se.deref(env, v) if isinstance(v, Ref) else v
                while isinstance(v, Ref): v = se.deref(env, v)
                return v
            def tb(tokens):
                tot = bv(0)
                for t in tokens: tot = tot + t[2]
                return {'tokens': list(tokens), 'len': tot}
            def as_tokens(v):
                if isinstance(v, dict) and 'tokens' in v: return v['tokens']
                if isinstance(v, dict) and 'len' in v: return [('bytes', v, v['len'])]
                if isinstance(v, list): return [('byte', x, bv(1)) for x in v]
                raise Inconclusive('cannot extend with %r' % (v,))
            P[r'Vec::with_capacity'] = lambda se, env, pc, c: lib.one(env, tb([]))
            def extend(se, env, pc, buf, x):
                b = P_(se, env, buf); se.store(env, buf, tb(b['tokens'] + as_tokens(P_(se, env, x)))); return lib.one(env, ())
            P[r'<Vec<u8> as Extend<.*>>::extend'] = extend
            P[r'<u64 as FixedInt>::encode_fixed_vec'] = lambda se, env, pc, v: lib.one(env, tb([('fixed64', v, bv(8))]))
            def var(se, env, pc, v):
                fresh[0] += 1; sz = BitVec('varint_bytes%d' % fresh[0], 64)
                st = dict(env['$state']); st['assume'] = st['assume'] + [And(UGE(sz, bv(1)), ULE(sz, bv(5)))]
                return [(st['assume'][-1], tb([('var', v, sz)]), st)]
            P[r'<u32 as VarInt>::encode_var_vec'] = var
            P[r'Batch::get_approximate_size'] = lambda se, env, pc, b: lib.one(env, bv(0)); P[r'BatchElement::size'] = lambda se, env, pc, b: lib.one(env, bv(0))
            P[r'BatchElement::get_operation'] = lambda se, env, pc, e: lib.one(env, P_(se, env, e)[ef.index('operation')])
            P[r'<Operation as PartialEq>::eq'] = lambda se, env, pc, a, b: lib.one(env, _opv(se, env, a) == _opv(se, env, b))
            P[r'Vec::len'] = lambda se, env, pc, v: lib.one(env, P_(se, env, v)['len'] if isinstance(P_(se, env, v), dict) else bv(len(P_(se, env, v))))
            P[r'<Vec<u8> as From<&BatchElement>>::from'] = lambda se, env, pc, e: Delegate(ence, [e], lambda r: r)
            # ---- reader
            def pop(se, env, r, kind):
                b = P_(se, env, r)
                if not (isinstance(b, dict) and 'tokens' in b): raise Inconclusive('not a token reader: %r' % (b,))
                if not b['tokens'] or b['tokens'][0][0] != kind: return None
                se.store(env, r, tb(b['tokens'][1:])); return b['tokens'][0]
            eof = lambda: Enum('Err', ({'kind': 'UnexpectedEof', '__ty': 'io::Error'},))
            def read_fixed(se, env, pc, r):
                t = pop(se, env, r, 'fixed64'); return lib.one(env, Enum('Ok', (t[1],)) if t else eof())
            P[r'<&\[u8\] as FixedIntReader>::read_fixedint'] = read_fixed
            def read_var(se, env, pc, r):
                t = pop(se, env, r, 'var'); return lib.one(env, Enum('Ok', (t[1],)) if t else eof())
            P[r'<&\[u8\] as VarIntReader>::read_varint'] = read_var; P[r'<R as VarIntReader>::read_varint'] = read_var
            def read_exact(se, env, pc, r, buf):
                b = P_(se, env, buf)
                if isinstance(b, list) and len(b) == 1:
                    t = pop(se, env, r, 'byte')
                    if t is None: return lib.one(env, eof())
                    se.store(env, buf, [t[1]]); return lib.one(env, Enum('Ok', ((),)))
                want = b['len']
                rd = P_(se, env, r)
                if not rd['tokens'] or rd['tokens'][0][0] != 'bytes':
                    # nothing (or something else) left: only a zero-length read succeeds
                    return [(want == 0, Enum('Ok', ((),)), env['$state']), (want != 0, eof(), env['$state'])]
                t = rd['tokens'][0]
                outs = []
                e_ok = dict(env); se.store(e_ok, r, tb(rd['tokens'][1:])); se.store(e_ok, buf, dict(t[1]))
                outs.append((t[2] == want, Enum('Ok', ((),)), env['$state'], [(r, tb(rd['tokens'][1:])), (buf, dict(t[1]))]))
                outs.append((t[2] != want, Enum('Err', ({'kind': 'length mismatch (abstraction limit)', '__ty': 'io::Error'},)), env['$state']))
                return outs
            P[r'<&\[u8\] as (?:std::io::)?Read>::read_exact'] = read_exact; P[r'<R as (?:std::io::)?Read>::read_exact'] = read_exact
            P[r'<&\[u8\] as ReadHelpers>::read_length_prefixed_slice'] = lambda se, env, pc, r: Delegate(rlp, [r], lambda x: x)
            P[r'std::vec::from_elem'] = lambda se, env, pc, z, k: lib.one(env, {'len': ZeroExt(64 - k.size(), k) if is_bv(k) and k.size() < 64 else k, 'kind': 'zeros', 'off': bv(0)})
            P[r'<Vec<u8> as DerefMut>::deref_mut'] = lib.ident
            def op_try_from(se, env, pc, b):
                st = env['$state']
                return [(b == 1, Enum('Ok', (bv(1),)), st), (b == 0, Enum('Ok', (bv(0),)), st), (And(b != 0, b != 1), Enum('Err', (Enum('Other', ({'str': 'op'},), 'RainDBError'),)), st)]
            P[r'<Operation as TryFrom<u8>>::try_from'] = op_try_from
            P[r'BatchElement::new'] = lambda se, env, pc, o, k, v: lib.one(env, mir.mk_struct('BatchElement', operation=o, user_key=k, value=v, size=bv(0)))
            P[r'Batch::new'] = lambda se, env, pc: lib.one(env, mir.mk_struct('Batch', starting_seq_number=Enum('None'), operations=[]))
            def set_seq(se, env, pc, b, s):
                bv_ = dict(se.deref(env, b)); bv_[bf.index('starting_seq_number')] = Enum('Some', (s,)); se.store(env, b, bv_); return lib.one(env, ())
            P[r'Batch::set_starting_seq_number'] = set_seq
            P[r'Batch::add_operation'] = lambda se, env, pc, b, e: (se.store(env, Ref(lib.base_ref(se, env, b).local, lib.base_ref(se, env, b).path + (bf.index('operations'),)), se.deref(env, b)[bf.index('operations')] + [e]), lib.one(env, ()))[1]
            def cut(se, env, pc, r, rng):
                b = P_(se, env, r)
                if not (isinstance(b, dict) and 'tokens' in b): raise Inconclusive('index into %r' % (b,))
                start = rng[0]; pref = bv(0)
                for k in range(len(b['tokens']) + 1):
                    if se.model(pref != start) is None:       # on this path the cut falls exactly after k tokens
                        return lib.one(env, tb(b['tokens'][k:]))
                    if k < len(b['tokens']): pref = pref + b['tokens'][k][2]
                # the decoder continues somewhere else than at the end of the element it has just read
                prefs = [bv(0)]
                for t in b['tokens']: prefs.append(prefs[-1] + t[2])
                m = se.model(And(*[p != start for p in prefs])) or se.model(prefs[0] != start)
                res.violations.append({'label': 'after decoding one operation the batch decoder does not continue at the first byte behind it', 'ops': n,
                                       'model': {str(d): str(m[d]) for d in m.decls()} if m is not None else {}, 'replay': ['batch_codec']})
                return []
            _vi = P[r'<\[.*\] as Index(?:Mut)?<.*>>::index(?:_mut)?']
            def index(se, env, pc, r, i, _vi=_vi):
                b = P_(se, env, r)
                if isinstance(b, dict) and 'tokens' in b: return cut(se, env, pc, r, i)
                return _vi(se, env, pc, r, i)
            P[r'<\[.*\] as Index(?:Mut)?<.*>>::index(?:_mut)?'] = index
            P[r'<std::ops::Range<u32> as IntoIterator>::into_iter'] = lambda se, env, pc, r: lib.one(env, {'range': (r[0], r[1])})
            def range_next(se, env, pc, it):
                v = se.deref(env, it); a, b = v['range']
                st = env['$state']
                return [(ULT(a, b), Enum('Some', (a,)), st, [(it, {'range': (a + 1, b)})]), (Not(ULT(a, b)), Enum('None'), st)]
            P[r'<std::ops::Range<u32> as Iterator>::next'] = range_next
            P[r'<RainDBError as From<.*>>::from'] = lambda se, env, pc, e: lib.one(env, Enum('IO', (e,), 'RainDBError'))
            P[r'<Result<.*> as FromResidual<Result<Infallible, .*>>>::from_residual'] = lambda se, env, pc, r: lib.one(env, r)
            ex = Exec(mir, S, loop_bound=NMAX + 4, opaque_calls_ok=False)
            ops = [mir.mk_struct('BatchElement', operation=bv(1 if kinds[i] else 0), user_key={'len': klen[i], 'kind': 'key%d' % i, 'off': bv(0)},
                                 value=Enum('Some', ({'len': vlen[i], 'kind': 'value%d' % i, 'off': bv(0)},)) if kinds[i] else Enum('None'), size=bv(0)) for i in range(n)]
            batch = mir.mk_struct('Batch', starting_seq_number=Enum('Some', (s0,)), operations=list(ops))
            def encoded(buf, env, pc, ex=ex, n=n, kinds=kinds, s0=s0):
                if not (isinstance(buf, dict) and 'tokens' in buf): raise Inconclusive('encoder result %r' % (buf,))
                e = dict(env); e['$reader'] = tb(buf['tokens'])
                def decoded(ret, env2, pc2):
                    posts = [('an encoded batch does not decode', BoolVal(isinstance(ret, Enum) and ret.tag == 'Ok'))]
                    if isinstance(ret, Enum) and ret.tag == 'Ok':
                        b = ret.fields[0]; sq = b[bf.index('starting_seq_number')]; got = b[bf.index('operations')]
                        posts.append(('the starting sequence of a batch does not survive encode + decode', sq.fields[0] == s0 if isinstance(sq, Enum) and sq.tag == 'Some' else BoolVal(False)))
                        posts.append(('a decoded batch does not hold as many operations as were encoded', BoolVal(len(got) == n)))
                        for i, g in enumerate(got[:n]):
                            k = g[ef.index('user_key')]; v = g[ef.index('value')]
                            same_key = BoolVal(isinstance(k, dict) and k.get('kind') == 'key%d' % i)
                            same_val = BoolVal((isinstance(v, Enum) and v.tag == 'Some' and isinstance(v.fields[0], dict) and v.fields[0].get('kind') == 'value%d' % i) if kinds[i] else (isinstance(v, Enum) and v.tag == 'None'))
                            posts.append(('operation %d of a batch does not survive encode + decode (kind, key, value)' % i, And(g[ef.index('operation')] == bv(1 if kinds[i] else 0), same_key, same_val)))
                    res.cases['%d ops %s -> %s' % (n, ''.join('P' if x else 'D' for x in kinds), getattr(ret, 'tag', '?'))] = 1
                    for label, post, m in ex.check_posts(posts, pc2):
                        res.violations.append({'label': label, 'ops': n, 'model': {str(d): str(m[d]) for d in m.decls()}, 'replay': ['batch_codec']})
                ex.run_fn(dec, [tb(buf['tokens'])], e, pc, decoded)      # a slice is a value: advancing a copy leaves the caller's slice alone
            ex.top(encb, [Ref('$b')], {'$state': {'assume': []}, '$b': batch}, pre, encoded)
            res.absorb(ex)
            for pcx, msg, where in ex.panics:
                ex.solver.push(); ex.solver.add(*pre); ex.solver.add(*[c for c in pcx if not isinstance(c, bool)]); feas = str(ex.solver.check()) == 'sat'; ex.solver.pop()
                if feas and 'overflow' not in msg: res.panic_paths += 1; res.violations.append({'label': 'panic path: ' + msg[:80], 'replay': None, 'confirmed_by': {'reproduced': False, 'detail': 'no native scenario'}})
    res.wall_s = time.time() - t0
    if res.violations: res.status = 'violation'
    return res


def _opv(se, env, a):
    v = se.deref(env, a) if isinstance(a, Ref) else a
    while isinstance(v, Ref): v = se.deref(env, v)
    if isinstance(v, Enum): return bv({'Delete': 0, 'Put': 1}.get(v.tag, 9))
    return v


def o6_3_confirm(v, out):
    """Native: batches with puts / deletes, empty keys and values, long values are encoded and decoded by the real codec."""
    if out.get('_rc') != 0: return (False, 'native run failed: %s' % out.get('_stderr', '')[-300:])
    return (out.get('mismatches', '0') != '0', '%s of %s encoded batches decode to something else (first: %s)' % (out.get('mismatches'), out.get('batches'), out.get('first_mismatch')))


# =============================================================== O10.9 FileMetadata: setters and codec
def o10_9_file_metadata(mir, tier):
    """(a) FileMetadata::set_smallest_key / set_largest_key / set_file_size on a file with any current contents: afterwards the field
    holds exactly the given value and nothing else changed (a compaction calls set_largest_key for every entry it writes: the bound
    of an output must follow to the last entry, also when only the sequence number changed).
    (b) `From<&FileMetadata> for Vec<u8>` followed by FileMetadata::deserialize over the token stream: number, size, smallest and
    largest key come back unchanged for free keys in ANY mutual order (also two versions of one user key, newest first)."""
    from ..ob import World
    res = Result('O10.9 FileMetadata setters and codec', ['FileMetadata::set_smallest_key / set_largest_key / set_file_size', 'From<&FileMetadata> for Vec<u8>', 'FileMetadata::deserialize'],
                 'current bounds present / absent with free keys, new value free; codec: free number, size and bounds (any mutual order); varint / length-prefixed slice / key primitives by contract')
    t0 = time.time()
    ff = mir.struct_fields('FileMetadata')
    # ---- (a) setters
    for which in ('smallest_key', 'largest_key'):
        fn = mir.method('FileMetadata', 'set_' + which)
        for cur_present in (False, True):
            for new_present in (False, True):
                w = World(mir); S = lib.std_summaries(); P = S['$patterns']
                S['$patterns'].update(lib.ref_partial_ord(mir, 'InternalKey'))
                lib.combinator_summaries(P)
                uk = mir.field('InternalKey', 'user_key')
                P[r'InternalKey::get_user_key'] = lambda se, env, pc, k: lib.one(env, _deep(se, env, k)[uk])
                P[r'<\[u8\] as PartialEq>::eq'] = lambda se, env, pc, a, b: lib.one(env, _deep(se, env, a) == _deep(se, env, b))
                P[r'<&\[u8\] as PartialEq>::eq'] = P[r'<\[u8\] as PartialEq>::eq']
                cur, new, other = w.key('current'), w.key('new'), w.key('other')
                f = mir.mk_struct('FileMetadata', allowed_seeks=Enum('None'), file_number=bv(7), file_size=BitVec('size', 64),
                                  smallest_key=Enum('Some', (cur,)) if (cur_present and which == 'smallest_key') else (Enum('Some', (other,)) if which != 'smallest_key' else Enum('None')),
                                  largest_key=Enum('Some', (cur,)) if (cur_present and which == 'largest_key') else (Enum('Some', (other,)) if which != 'largest_key' else Enum('None')))
                ex = Exec(mir, S, loop_bound=4)
                arg = Enum('Some', (new,)) if new_present else Enum('None')
                def k(ret, env, pc, ex=ex, which=which, new_present=new_present, new=new, other=other, w=w):
                    g = ex.deref(env, Ref('$f')); got = g[ff.index(which)]
                    if new_present:
                        ok = BoolVal(False)
                        if isinstance(got, Enum) and got.tag == 'Some':
                            gk = got.fields[0]
                            while isinstance(gk, Ref): gk = ex.deref(env, gk)
                            a, b = w.K(gk), w.K(new); ok = And(a[0] == b[0], a[1] == b[1], a[2] == b[2])
                    else: ok = BoolVal(isinstance(got, Enum) and got.tag == 'None')
                    posts = [('set_%s does not store the given key (a bound that does not follow the last entry written makes the file claim a narrower range than it holds)' % which, ok)]
                    res.cases['set_%s current=%s new=%s' % (which, cur_present, new_present)] = 1
                    for label, post, m in ex.check_posts(posts, pc):
                        res.violations.append({'label': label, 'same_user_key': bool(mval(m, w.K(cur)[0] == w.K(new)[0])) if cur_present and new_present else None, 'replay': ['compaction_bounds_with_snapshot']})
                ex.top(fn, [Ref('$f'), arg], {'$state': {}, '$f': f}, list(w.pre), k)
                res.absorb(ex)
    # ---- (b) codec
    enc = [f for f in mir.fns.values() if f.name == 'from' and 'file_metadata' in f.path and f.trait and f.trait.startswith('From') and f.self_ty and 'Vec' in f.self_ty]
    dec = mir.method('FileMetadata', 'deserialize')
    if len(enc) != 1: raise Inconclusive('FileMetadata encoder not found uniquely (%d)' % len(enc))
    enc = enc[0]
    w = World(mir); S = lib.std_summaries(); P = S['$patterns']
    S['$patterns'].update(lib.ref_partial_ord(mir, 'InternalKey'))
    P_ = token_summaries(S, mir, w)
    del P[r'FileMetadata::deserialize']; del P[r'<Vec<u8> as From<&FileMetadata>>::from']
    P[r'<R as ReadHelpers>::read_length_prefixed_slice'] = P[r'<&\[u8\] as ReadHelpers>::read_length_prefixed_slice']
    uk = mir.field('InternalKey', 'user_key'); sq = mir.field('InternalKey', 'sequence_number')
    P[r'InternalKey::get_user_key'] = lambda se, env, pc, k: lib.one(env, _deep(se, env, k)[uk])
    P[r'InternalKey::get_sequence_number'] = lambda se, env, pc, k: lib.one(env, _deep(se, env, k)[sq])
    sm, lg = w.key('smallest'), w.key('largest'); num, size = BitVec('file_number', 64), BitVec('file_size', 64)
    f0 = mir.mk_struct('FileMetadata', allowed_seeks=Enum('None'), file_number=num, file_size=size, smallest_key=Enum('Some', (sm,)), largest_key=Enum('Some', (lg,)))
    ex = Exec(mir, S, loop_bound=4)
    def encoded(buf, env, pc):
        e = dict(env); e['$reader'] = {'tokens': list(buf['tokens'])}
        def decoded(ret, env2, pc2):
            posts = [('an encoded file description does not decode', BoolVal(isinstance(ret, Enum) and ret.tag == 'Ok'))]
            if isinstance(ret, Enum) and ret.tag == 'Ok':
                g = ret.fields[0]
                def same(got, want):
                    if not (isinstance(got, Enum) and got.tag == 'Some'): return BoolVal(False)
                    gk = got.fields[0]
                    while isinstance(gk, Ref): gk = ex.deref(env2, gk)
                    a, b = w.K(gk), w.K(want); return And(a[0] == b[0], a[1] == b[1], a[2] == b[2])
                posts.append(('file number or size change in encode + decode', And(g[ff.index('file_number')] == num, g[ff.index('file_size')] == size)))
                posts.append(('the smallest key of a file changes in encode + decode', same(g[ff.index('smallest_key')], sm)))
                posts.append(('the largest key of a file changes in encode + decode', same(g[ff.index('largest_key')], lg)))
            res.cases['codec -> %s' % getattr(ret, 'tag', '?')] = 1
            for label, post, m in ex.check_posts(posts, pc2):
                res.violations.append({'label': label, 'same_user_key': bool(mval(m, w.K(sm)[0] == w.K(lg)[0])), 'replay': ['single_key_file_reopen']})
        ex.run_fn(dec, [Ref('$reader')], e, pc, decoded)
    ex.top(enc, [Ref('$f')], {'$state': {}, '$f': f0}, list(w.pre), encoded)
    res.absorb(ex)
    for pcx, msg, where in ex.panics:
        res.panic_paths += 1; res.violations.append({'label': 'panic path: ' + msg[:80], 'replay': None, 'confirmed_by': {'reproduced': False, 'detail': 'no native scenario'}})
    res.wall_s = time.time() - t0
    if res.violations: res.status = 'violation'
    return res


def _deep(se, env, v):
    v = se.deref(env, v) if isinstance(v, Ref) else v
    while isinstance(v, Ref): v = se.deref(env, v)
    return v


def o10_9_confirm(v, out):
    """Native: (compaction_bounds_with_snapshot) put a, k; compact; snapshot; put k again; compact: the table must report k@old as its
    largest key and the snapshot must read the old value.  (single_key_file_reopen) a table holding three versions of one key is
    described identically before close and after reopen."""
    if out.get('_rc') != 0: return (False, 'native run failed: %s' % out.get('_stderr', '')[-300:])
    if v['replay'][0] == 'single_key_file_reopen':
        return (out.get('before') != out.get('after'), 'native: table layout before close %s, after reopen %s' % (out.get('before'), out.get('after')))
    return (out.get('snapshot_read') != 'old' or out.get('bounds_cover_entries') != 'true', 'native: the snapshot taken before the overwrite reads %s; reported bounds cover the stored entries: %s (%s)' % (out.get('snapshot_read'), out.get('bounds_cover_entries'), out.get('layout')))
