"""O7.9 the version edit of a compaction: inputs deleted at their own levels, outputs added at the parent level; trivial moves."""
import time
from z3 import BitVec, BitVecVal, Bool, BoolVal, And, Or, Not, ULE, ULT, UGT, simplify
from ..exec import Exec, Enum, Ref, Opaque, Inconclusive, bv
from ..ob import Result, World, mval
from .. import lib
from .version import base_summaries


def o7_9_compaction_edit(mir, tier):
    """(a) CompactionState::finalize_version_manifest with CompactionManifest::add_input_deletions inlined: compaction level L in
    {0, 3, 5}, n0 inputs at L, n1 inputs at L+1, k outputs with free metadata.  Reference: the edit deletes exactly the inputs, each
    at the level it lives in, and adds exactly the outputs at L+1 with their number, size and key range.
    (b) set_change_manifest_for_trivial_move: the single input is deleted at L and added, unchanged, at L+1.
    (c) is_trivial_move: true iff one input, no parent input, and the grandparent overlap is within the limit."""
    fin = mir.method('CompactionState', 'finalize_version_manifest')
    triv = mir.method('CompactionManifest', 'set_change_manifest_for_trivial_move')
    ist = mir.method('CompactionManifest', 'is_trivial_move')
    res = Result('O7.9 version edit of a compaction', [fin.path, mir.method('CompactionManifest', 'add_input_deletions').path, triv.path, ist.path],
                 'compaction levels 0, 3, 5; 1..2 inputs at the level, 0..2 at the parent level, 0..2 outputs (free metadata); VersionChangeManifest::remove_file / add_file by contract')
    t0 = time.time()
    numf = mir.field('FileMetadata', 'file_number'); mf = mir.struct_fields('FileMetadata')
    def common(w):
        S = base_summaries(mir); P = S['$patterns']
        def rm(se, env, pc, m, lvl, num):
            st = dict(env['$state']); st['removed'] = st['removed'] + [(lvl, num)]; return [(None, (), st)]
        def add(se, env, pc, m, lvl, num, size, rng):
            st = dict(env['$state']); st['added'] = st['added'] + [(lvl, num, size, w.K(rng[0]), w.K(rng[1]))]; return [(None, (), st)]
        P[r'VersionChangeManifest::remove_file'] = rm; P[r'VersionChangeManifest::add_file'] = add
        P[r'FileMetadata::file_number'] = lambda se, env, pc, f: lib.one(env, (se.deref(env, f) if isinstance(f, Ref) else f)[numf])
        P[r'FileMetadata::get_file_size'] = lambda se, env, pc, f: lib.one(env, (se.deref(env, f) if isinstance(f, Ref) else f)[mf.index('file_size')])
        def krange(se, env, pc, f):
            fv = se.deref(env, f) if isinstance(f, Ref) else f
            return lib.one(env, {0: fv[mf.index('smallest_key')].fields[0], 1: fv[mf.index('largest_key')].fields[0], '__ty': 'Range'})
        P[r'FileMetadata::clone_key_range'] = krange
        P[r'CompactionState::compaction_manifest(?:_mut)?'] = lambda se, env, pc, s: lib.one(env, Ref('$cm'))
        P[r'CompactionManifest::get_change_manifest_mut'] = lambda se, env, pc, m: lib.one(env, Ref('$edit'))
        P[r'Arc::clone'] = lib.deref1
        return S
    def mk_cm(level, ins, gps=()):
        return mir.mk_struct('CompactionManifest', level=bv(level), input_files=[list(ins[0]), list(ins[1])], maybe_input_version=Enum('None'), overlapping_grandparents=list(gps),
                             change_manifest={'abstract': True, '__ty': 'VersionChangeManifest'}, max_output_file_size_bytes=BitVec('max_output_size', 64), base_level_pointers=[bv(0)] * 7,
                             grandparent_index=bv(0), current_overlapping_bytes=bv(0), is_overlappping=BoolVal(False))
    shapes = [(0, 2, 1, 2), (3, 1, 2, 1), (5, 1, 0, 0), (0, 1, 1, 1)] if tier == 'quick' else [(L, a, b, k) for L in (0, 3, 5) for a in (1, 2) for b in (0, 1, 2) for k in (0, 1, 2)]
    for L, n0, n1, k in shapes:
        w = World(mir)
        ins = [[w.file('in0_%d' % i, number=10 + i) for i in range(n0)], [w.file('in1_%d' % i, number=20 + i) for i in range(n1)]]
        outs = [w.file('out%d' % i, number=30 + i) for i in range(k)]
        OUT = [w.F(f) for f in outs]
        S = common(w)
        ex = Exec(mir, S, loop_bound=8, opaque_calls_ok=True)
        def done(ret, env, pc, L=L, n0=n0, n1=n1, k=k, OUT=OUT, ex=ex):
            st = env['$state']
            removed = sorted((simplify(l).as_long(), simplify(n).as_long()) for l, n in st['removed'])
            want_rm = sorted([(L, 10 + i) for i in range(n0)] + [(L + 1, 20 + i) for i in range(n1)])
            outs_after = ex.deref(env, Ref('$cs'))[mir.field('CompactionState', 'output_files')]
            posts = [('the edit of a compaction does not delete exactly its input files, each at the level it lives in', BoolVal(removed == want_rm)),
                     ('entering the outputs into the edit loses them from the compaction state (the clean-up can no longer release them from the protected set)', BoolVal(len(outs_after) == k)),
                     ('the edit of a compaction does not add exactly one file per output', BoolVal(len(st['added']) == k))]
            for i, a in enumerate(st['added'][:k]):
                lvl, num, size, sm, lg = a; o = OUT[i]
                posts.append(('an output of the compaction is not added at the parent level with its own number, size and key range',
                              And(lvl == bv(L + 1), num == o['num'], size == o['size'], *[x == y for x, y in zip(sm, o['sm'])], *[x == y for x, y in zip(lg, o['lg'])])))
            res.cases['finalize L%d %d+%d inputs %d outputs' % (L, n0, n1, k)] = 1
            for label, post, m in ex.check_posts(posts, pc):
                res.violations.append({'label': label, 'shape': [L, n0, n1, k], 'removed': removed, 'replay': ['compaction_edit_files']})
        cs = mir.mk_struct('CompactionState', output_files=list(outs), compaction_manifest=Ref('$cm'), smallest_snapshot=bv(0), total_size_bytes=bv(0), table_builder=Enum('None'))
        env = {'$state': {'removed': [], 'added': []}, '$cs': cs, '$cm': mk_cm(L, ins), '$edit': {'abstract': True, '__ty': 'VersionChangeManifest'}}
        # the state holds the manifest by value: point the field at the shared cell
        cs[mir.field('CompactionState', 'compaction_manifest')] = env['$cm']
        ex.top(fin, [Ref('$cs')], env, list(w.pre), done)
        res.absorb(ex)
    # (b) trivial move
    for L in (0, 4, 5):
        w = World(mir)
        f = w.file('moved', number=10); F = w.F(f)
        S = common(w); ex = Exec(mir, S, loop_bound=4, opaque_calls_ok=True)
        def done_b(ret, env, pc, L=L, F=F, ex=ex):
            st = env['$state']
            posts = [('a trivial move does not delete the file at its level and add it at the parent level', BoolVal(len(st['removed']) == 1 and len(st['added']) == 1))]
            if len(st['removed']) == 1 and len(st['added']) == 1:
                (rl, rn), (al, an, asz, asm, alg) = st['removed'][0], st['added'][0]
                posts.append(('a trivial move changes the number, size or key range of the file, or moves it to another level than level + 1',
                              And(rl == bv(L), rn == F['num'], al == bv(L + 1), an == F['num'], asz == F['size'], *[x == y for x, y in zip(asm, F['sm'])], *[x == y for x, y in zip(alg, F['lg'])])))
            res.cases['trivial move L%d' % L] = 1
            for label, post, m in ex.check_posts(posts, pc):
                res.violations.append({'label': label, 'level': L, 'replay': None, 'confirmed_by': {'reproduced': False, 'detail': 'no native scenario for this label'}})
        env = {'$state': {'removed': [], 'added': []}, '$cm': mk_cm(L, [[f], []]), '$edit': {'abstract': True, '__ty': 'VersionChangeManifest'}}
        ex.top(triv, [Ref('$cm')], env, list(w.pre), done_b)
        res.absorb(ex)
    # (c) is_trivial_move
    for n0, n1, ng in ((1, 0, 0), (1, 0, 2), (2, 0, 0), (1, 1, 0), (0, 0, 0)):
        w = World(mir)
        ins = [[w.file('a%d' % i, number=10 + i) for i in range(n0)], [w.file('b%d' % i, number=20 + i) for i in range(n1)]]
        gps = [w.file('g%d' % i, number=40 + i) for i in range(ng)]; G = [w.F(g) for g in gps]
        limit = BitVec('grandparent_overlap_limit', 64)
        S = common(w); P = S['$patterns']
        P[r'(?:compaction::)?utils::max_grandparent_overlap_bytes'] = lambda se, env, pc, x: lib.one(env, limit)
        P[r'max_grandparent_overlap_bytes'] = P[r'(?:compaction::)?utils::max_grandparent_overlap_bytes']
        P[r'CompactionManifest::get_compaction_level_files'] = lambda se, env, pc, m: lib.one(env, se.deref(env, m)[mir.field('CompactionManifest', 'input_files')][0])
        ex = Exec(mir, S, loop_bound=6)
        pre = list(w.pre) + [ULT(g['size'], bv(1 << 40)) for g in G]
        def done_c(ret, env, pc, n0=n0, n1=n1, G=G, ex=ex, limit=limit):
            tot = bv(0)
            for g in G: tot = tot + g['size']
            want = And(BoolVal(n0 == 1 and n1 == 0), ULE(tot, limit))
            posts = [('is_trivial_move differs from: exactly one input file, no parent-level input, grandparent overlap within the limit', ret == want if not isinstance(ret, bool) else BoolVal(False))]
            res.cases['is_trivial_move %d+%d inputs, %d grandparents' % (n0, n1, len(G))] = 1
            for label, post, m in ex.check_posts(posts, pc):
                res.violations.append({'label': label, 'shape': [n0, n1, len(G)], 'replay': None, 'confirmed_by': {'reproduced': False, 'detail': 'no native scenario for this label'}})
        env = {'$state': {'removed': [], 'added': []}, '$cm': mk_cm(2, ins, gps), '$edit': {'abstract': True}}
        try:
            ex.top(ist, [Ref('$cm')], env, pre, done_c)
        except Inconclusive as e:
            res.status = 'inconclusive'; res.reason = str(e)[:200]
        res.absorb(ex)
    res.wall_s = time.time() - t0
    if res.violations: res.status = 'violation'
    return res


def o7_9_confirm(v, out):
    """Native: three overlapping tables at three levels, manual compaction of everything; afterwards exactly one table is in the
    version and on disk and every key reads its newest value."""
    if out.get('_rc') != 0: return (True, 'native compaction panicked or failed: %s' % out.get('_stderr', '')[-300:])
    bad = out.get('tables_after') != '1' or out.get('reads_ok') != 'true' or out.get('files_on_disk') != '1' or out.get('split_outputs_wrong_reads', '0') != '0'
    return (bad, 'tables in the version before / after the compaction: %s / %s, table files on disk: %s, newest values readable: %s; compaction with split outputs (%s tables): %s of 300 keys read wrongly' % (out.get('tables_before'), out.get('tables_after'), out.get('files_on_disk'), out.get('reads_ok'), out.get('split_outputs_tables'), out.get('split_outputs_wrong_reads')))
