"""O6.2 DB::apply_batch_to_memtable and Batch::append_batch: every operation of a (group) batch reaches the memtable, in order, with
consecutive sequence numbers."""
import time
from z3 import BitVec, BitVecVal, Bool, BoolVal, And, Or, Not, ULT
from ..exec import Exec, Enum, Ref, Opaque, Inconclusive, bv
from ..ob import Result, mval
from .. import lib


def _element(mir, i, is_put):
    return mir.mk_struct('BatchElement', operation=bv(1 if is_put else 0), user_key=BitVec('op%d_key' % i, 16), value=Enum('Some', ({'len': BitVec('op%d_vlen' % i, 64), 'kind': 'value%d' % i},)) if is_put else Enum('None'), size=bv(10))


def o6_2_apply_batch(mir, tier):
    """A batch of n = 0..3 operations (each put or delete, free keys) starting at sequence s.  Reference: the memtable receives
    exactly n inserts, the i-th with the i-th operation's key and kind, sequence s + i, its value (empty for a delete).
    append_batch(a, b): a's operations followed by b's, nothing else changed."""
    import itertools
    fn = mir.method('DB', 'apply_batch_to_memtable'); ap = mir.method('Batch', 'append_batch')
    NMAX = 3 if tier == 'quick' else 4
    res = Result('O6.2 DB::apply_batch_to_memtable / Batch::append_batch', [fn.path, ap.path], 'batches of 0..%d operations, every put/delete pattern, free keys and starting sequence' % NMAX)
    t0 = time.time()
    kf = mir.struct_fields('InternalKey'); ef = mir.struct_fields('BatchElement'); bf = mir.struct_fields('Batch')
    for n in range(0, NMAX + 1):
        for kinds in itertools.product((True, False), repeat=n):
            S = lib.std_summaries(); P = S['$patterns']
            s0 = BitVec('starting_sequence', 64)
            def ins(se, env, pc, mt, key, val):
                st = dict(env['$state']); st['inserts'] = st['inserts'] + [(key if isinstance(key, dict) else se.deref(env, key), val)]; return [(None, (), st)]
            P[r'<dyn MemTable as MemTable>::insert'] = ins
            P[r'verif::sched_point'] = lib.unit; P[r'(?:crate::)?verif::sched_point'] = lib.unit
            P[r'core::slice::<impl \[u8\]>::to_vec'] = lib.ident; P[r'(?:std|alloc)::slice::<impl \[u8\]>::to_vec'] = lib.ident
            P[r'<Vec<u8> as Deref>::deref'] = lib.ident
            P[r'Vec::new'] = lambda se, env, pc: lib.one(env, {'len': bv(0), 'kind': 'empty'})
            P[r'std::vec::from_elem'] = lambda se, env, pc, z, nn: lib.one(env, {'len': nn, 'kind': 'zeros'})
            ex = Exec(mir, S, loop_bound=n + 3, opaque_calls_ok=True)
            ops = [_element(mir, i, kinds[i]) for i in range(n)]
            def k(ret, env, pc, n=n, kinds=kinds, ops=ops, ex=ex, s0=s0):
                got = env['$state']['inserts']
                posts = [('the memtable does not receive exactly one insert per operation of the batch', BoolVal(len(got) == n))]
                for i, (key, val) in enumerate(got[:n]):
                    kd = key
                    vlen = (val['len'] if isinstance(val, dict) and 'len' in val else (bv(len(val)) if isinstance(val, list) else None))
                    want_len = ops[i][ef.index('value')].fields[0]['len'] if kinds[i] else bv(0)
                    posts.append(('an operation of the batch reaches the memtable with another key, kind, value or sequence number than (operation i, starting sequence + i)',
                                  And(kd[kf.index('user_key')] == ops[i][ef.index('user_key')], kd[kf.index('sequence_number')] == s0 + bv(i), kd[kf.index('operation')] == bv(1 if kinds[i] else 0),
                                      (vlen == want_len) if vlen is not None else BoolVal(False))))
                res.cases['apply %d ops %s' % (n, ''.join('P' if x else 'D' for x in kinds))] = 1
                for label, post, m in ex.check_posts(posts, pc):
                    res.violations.append({'label': label, 'ops': n, 'replay': ['db_scenario', 'B6b31=01+6b32=02+6b31=03+6b33=04+6b32=05', 'G6b31', 'G6b32', 'G6b33', 'P6b32=09', 'G6b32', 'I', 'F', 'G6b31', 'G6b32']})
            batch = mir.mk_struct('Batch', starting_seq_number=Enum('Some', (s0,)), operations=list(ops))
            ex.top(fn, [{'abstract': True, '__ty': 'MemTable'}, Ref('$b')], {'$state': {'inserts': []}, '$b': batch}, [ULT(s0, bv(1 << 56))], k)
            res.absorb(ex)
            for pcx, msg, where in ex.panics:
                res.panic_paths += 1; res.violations.append({'label': 'panic path: ' + msg[:80], 'replay': None, 'confirmed_by': {'reproduced': False, 'detail': 'no native scenario'}})
    # append_batch
    for na, nb in ((0, 1), (1, 1), (2, 1), (1, 2), (2, 0)):
        S = lib.std_summaries(); P = S['$patterns']
        P[r'Batch::iter'] = lambda se, env, pc, b: lib.one(env, {'it': list(se.deref(env, b)[bf.index('operations')])})
        P[r'std::slice::Iter::<.*>::as_slice'] = lambda se, env, pc, it: lib.one(env, [se.deref(env, x) if isinstance(x, Ref) else x for x in (se.deref(env, it) if isinstance(it, Ref) else it)['it']])
        P[r'(?:core|std)::slice::Iter::as_slice'] = P[r'std::slice::Iter::<.*>::as_slice']
        P[r'Vec::extend_from_slice'] = lambda se, env, pc, v, sl: (se.store(env, v, lib.the_list(se, env, v) + list(lib.the_list(se, env, sl) if isinstance(sl, Ref) else sl)), lib.one(env, ()))[1]
        ex = Exec(mir, S, loop_bound=6)
        A = [_element(mir, i, True) for i in range(na)]; B = [_element(mir, 10 + i, i % 2 == 0) for i in range(nb)]
        def k2(ret, env, pc, A=A, B=B, ex=ex):
            a = ex.deref(env, Ref('$a')); b = ex.deref(env, Ref('$b2'))
            opsA = a[bf.index('operations')]
            same = lambda x, y: And(x[ef.index('user_key')] == y[ef.index('user_key')], x[ef.index('operation')] == y[ef.index('operation')])
            posts = [('appending a batch does not yield the operations of the first batch followed by those of the second', And(BoolVal(len(opsA) == len(A) + len(B)), *[same(opsA[i], (A + B)[i]) for i in range(min(len(opsA), len(A) + len(B)))])),
                     ('appending a batch changes the appended batch', BoolVal(len(b[bf.index('operations')]) == len(B)))]
            res.cases['append %d + %d' % (len(A), len(B))] = 1
            for label, post, m in ex.check_posts(posts, pc):
                res.violations.append({'label': label, 'replay': ['sched_group_commit']})
        env = {'$state': {}, '$a': mir.mk_struct('Batch', starting_seq_number=Enum('None'), operations=list(A)), '$b2': mir.mk_struct('Batch', starting_seq_number=Enum('None'), operations=list(B))}
        ex.top(ap, [Ref('$a'), Ref('$b2')], env, [], k2)
        res.absorb(ex)
    res.wall_s = time.time() - t0
    if res.violations: res.status = 'violation'
    return res


def o6_2_confirm(v, out):
    from .. import dbmodel
    if v['replay'][0] == 'db_scenario': return dbmodel.compare(v['replay'][1:], out)
    from .dbpaths import o5_2_confirm
    return o5_2_confirm(v, out)
