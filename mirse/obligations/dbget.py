"""O1.8 DB::get: which sources a point lookup consults, in which order, with which lookup key, and what it answers."""
import time
from z3 import BitVec, Bool, BoolVal, And, Or, Not
from ..exec import Exec, Enum, Ref, Opaque, Inconclusive, bv
from ..ob import Result, mval
from .. import lib

GUARD = r'<parking_lot::lock_api::MutexGuard<.*> as Deref(?:Mut)?>::deref(?:_mut)?'
OUT3 = ('value', 'deleted', 'absent')
VOUT = ('value', 'none', 'error+charge', 'error')


def o1_8_db_get(mir, tier):
    """DB::get with its closure executed from MIR; the three sources by contract: the active memtable, the immutable memtable (present /
    absent) and the current version each answer `value` / `deleted` / `does not know the key` (the version also: read error with /
    without a seek charge) - every combination.  Snapshot given / not given.  Reference: every consulted source is asked for (the
    caller's key, the snapshot's sequence number - or the last published one); sources are consulted in the order memtable,
    immutable memtable, version and only until the first one that knows the key; the answer is that source's (a tombstone is
    KeyNotFound and is NOT looked through); a read error of the version is returned; the seek charge (if any) is handed to
    update_stats; the version handle obtained under the mutex is released again on every path."""
    fn = mir.method('DB', 'get')
    res = Result('O1.8 DB::get sources, order and answer', [fn.path, fn.path + '::{closure#0}'],
                 'immutable memtable present/absent x snapshot given/not given x every outcome of memtable / immutable memtable (value, deleted, absent) and version (value, none, error with / without seek charge); '
                 'MemTable::get, Version::get, update_stats, should_schedule_compaction, release_version by contract')
    t0 = time.time()
    for has_imm in (False, True):
        for has_snap in (False, True):
            for mo in OUT3:
                for io in (OUT3 if has_imm else ('-',)):
                    for vo in VOUT:
                        S = lib.std_summaries(); P = S['$patterns']
                        P[GUARD] = lib.ptr_deref
                        prev_seq, snap_seq = BitVec('last_published_sequence', 64), BitVec('snapshot_sequence', 64)
                        ukey = {'len': BitVec('klen', 64), 'kind': 'key', 'id': 'caller key'}
                        def add(env, ev):
                            st = dict(env['$state']); st['events'] = st['events'] + [ev]; env['$state'] = st
                        def P_(se, env, v):
                            while isinstance(v, Ref): v = se.deref(env, v)
                            return v
                        P[r'parking_lot::lock_api::Mutex::lock'] = lambda se, env, pc, m: lib.one(env, Ref('$g'))
                        P[r'DB::memtable'] = lambda se, env, pc, db: lib.one(env, {'source': 'memtable'})
                        P[r'<.* as Deref>::deref'] = lib.ptr_deref
                        P[r'VersionSet::get_prev_sequence_number'] = lambda se, env, pc, vs: lib.one(env, prev_seq)
                        P[r'Snapshot::sequence_number'] = lambda se, env, pc, s: lib.one(env, snap_seq)
                        def cur_version(se, env, pc, vs):
                            add(env, ('pin version',)); return [(None, {'source': 'version'}, env['$state'])]
                        P[r'VersionSet::get_current_version'] = cur_version
                        P[r'parking_lot::lock_api::RwLock::read'] = lib.ident
                        P[r'parking_lot::lock_api::RwLock::write'] = lib.ident
                        P[r'<parking_lot::lock_api::RwLock(?:Read|Write)Guard<.*> as Deref(?:Mut)?>::deref(?:_mut)?'] = lambda se, env, pc, g: lib.one(env, {'element': {'source': 'version'}, '__ty': 'Node'})
                        P[r'parking_lot::lock_api::MutexGuard::unlocked_fair'] = lambda se, env, pc, g, clo: lib.call_closure(se, env, pc, clo, [])
                        P[r'(?:std|core)::slice::<impl \[u8\]>::to_vec'] = lambda se, env, pc, s: lib.one(env, P_(se, env, s))
                        P[r'InternalKey::new_for_seeking'] = lambda se, env, pc, k, seq: lib.one(env, {'lookup_key': P_(se, env, k), 'lookup_seq': seq})
                        P[r'sched_point'] = lib.unit
                        def outcome3(o, src):
                            if o == 'value': return Enum('Ok', (Enum('Some', ({'value_of': src},)),))
                            if o == 'deleted': return Enum('Ok', (Enum('None'),))
                            return Enum('Err', (Enum('KeyNotFound', (), 'RainDBError'),))
                        def mt_get(se, env, pc, m, k, mo=mo, io=io):
                            v = P_(se, env, m); src = v.get('source', '?') if isinstance(v, dict) else '?'
                            add(env, ('consult', src, P_(se, env, k)))
                            return [(None, outcome3(mo if src == 'memtable' else io, src), env['$state'])]
                        P[r'<dyn MemTable as MemTable>::get'] = mt_get
                        P[r'<Option<Arc<Box<dyn MemTable>>> as Clone>::clone'] = lambda se, env, pc, v: lib.one(env, P_(se, env, v))
                        P[r'<Vec<u8> as Clone>::clone'] = lambda se, env, pc, v: lib.one(env, P_(se, env, v))
                        charge = {'charge': 'of this read', '__ty': 'SeekChargeMetadata'}
                        def v_get(se, env, pc, v, ro, k, vo=vo):
                            add(env, ('consult', 'version', P_(se, env, k)))
                            if vo == 'value': r = Enum('Ok', (mir.mk_struct('GetResponse', value=Enum('Some', ({'value_of': 'version'},)), charge_metadata=charge),))
                            elif vo == 'none': r = Enum('Ok', (mir.mk_struct('GetResponse', value=Enum('None'), charge_metadata=charge),))
                            else: r = Enum('Err', (Enum('TableRead', (({'table_error': 1}, Enum('Some', (charge,)) if vo == 'error+charge' else Enum('None')),), 'ReadError'),))
                            return [(None, r, env['$state'])]
                        P[r'Version::get'] = v_get
                        P[r'<tables::errors::ReadError as Into<RainDBError>>::into'] = lambda se, env, pc, e: lib.one(env, Enum('TableRead', (e,), 'RainDBError'))
                        def upd(se, env, pc, v, c):
                            add(env, ('update_stats', P_(se, env, c))); return [(None, Bool('file_ready_for_compaction'), env['$state'])]
                        P[r'Version::update_stats'] = upd
                        P[r'DB::generate_portable_state'] = lambda se, env, pc, db: lib.one(env, {'abstract': True, '__ty': 'PortableDatabaseState'})
                        P[r'DB::should_schedule_compaction'] = lambda se, env, pc, *a: lib.one(env, Bool('should_schedule'))
                        def sched(se, env, pc, *a):
                            add(env, ('schedule compaction',)); return [(None, (), env['$state'])]
                        P[r'CompactionWorker::schedule_task'] = sched
                        def rel(se, env, pc, vs, v):
                            add(env, ('release version', P_(se, env, v))); return [(None, (), env['$state'])]
                        P[r'VersionSet::release_version'] = rel
                        P[r'SeekChargeMetadata::seek_file(?:_level)?'] = lambda se, env, pc, *a: lib.one(env, Opaque('seek file'))
                        P[r'<Level as PartialOrd<LevelFilter>>::le'] = lib.false_
                        P[r'max_level'] = lambda se, env, pc, *a: lib.one(env, Opaque('level'))
                        ex = Exec(mir, S, loop_bound=4, opaque_calls_ok=True)
                        def k(ret, env, pc, has_imm=has_imm, has_snap=has_snap, mo=mo, io=io, vo=vo, ex=ex):
                            evs = env['$state']['events']
                            # reference
                            order = [('memtable', mo)] + ([('immutable memtable', io)] if has_imm else []) + [('version', vo)]
                            want_consulted = []; answer = None
                            for src, o in order:
                                want_consulted.append(src)
                                if src != 'version' and o in ('value', 'deleted'): answer = (src, o); break
                                if src == 'version': answer = (src, o)
                            got_consulted = [e[1] for e in evs if e[0] == 'consult']
                            case = {'immutable_memtable': has_imm, 'snapshot': has_snap, 'memtable': mo, 'immutable': io, 'version': vo}
                            posts = [('DB::get does not consult memtable, immutable memtable (if any) and version in this order, stopping at the first source that knows the key (a tombstone stops the search)', BoolVal(got_consulted == want_consulted))]
                            seq = snap_seq if has_snap else prev_seq
                            for e in evs:
                                if e[0] == 'consult':
                                    lk = e[2]
                                    okk = isinstance(lk, dict) and isinstance(lk.get('lookup_key'), dict) and lk['lookup_key'].get('id') == 'caller key'
                                    posts.append(('DB::get asks the %s for another key than the caller\'s' % e[1], BoolVal(bool(okk))))
                                    s_ = lk.get('lookup_seq') if isinstance(lk, dict) else None
                                    posts.append(('DB::get does not look up at the snapshot sequence (or, without a snapshot, the last published sequence)', (s_ == seq) if hasattr(s_, 'sort') else BoolVal(False)))
                            src, o = answer
                            if o == 'value': okr = isinstance(ret, Enum) and ret.tag == 'Ok' and isinstance(ret.fields[0], dict) and ret.fields[0].get('value_of') == src
                            elif o in ('deleted', 'none'): okr = isinstance(ret, Enum) and ret.tag == 'Err' and isinstance(ret.fields[0], Enum) and ret.fields[0].tag == 'KeyNotFound'
                            else: okr = isinstance(ret, Enum) and ret.tag == 'Err' and isinstance(ret.fields[0], Enum) and ret.fields[0].tag != 'KeyNotFound'
                            posts.append(('DB::get does not answer with the newest source that knows the key (value -> that value, tombstone / unknown everywhere -> KeyNotFound, table read error -> that error)', BoolVal(bool(okr))))
                            rels = [e for e in evs if e[0] == 'release version']; pins = [e for e in evs if e[0] == 'pin version']
                            posts.append(('the version pinned by DB::get is not released exactly once (it could never be unlinked: its tables stay on disk)',
                                          BoolVal(len(pins) == 1 and len(rels) == 1 and isinstance(rels[0][1], dict) and rels[0][1].get('source') == 'version')))
                            charged = [e for e in evs if e[0] == 'update_stats']
                            want_charge = src == 'version' and vo != 'error'
                            posts.append(('the seek charge of a read is not handed to update_stats exactly when the version reported one (seek-triggered compactions never start / start for nothing)',
                                          BoolVal(len(charged) == (1 if want_charge else 0) and all(isinstance(c[1], dict) and c[1].get('charge') == 'of this read' for c in charged))))
                            res.cases['imm=%s snap=%s mem=%s imm=%s version=%s' % (has_imm, has_snap, mo, io, vo)] = 1
                            for label, post, m in ex.check_posts(posts, pc):
                                res.violations.append({'label': label, 'case': case, 'consulted': got_consulted, 'replay': ['get_sources']})
                        g = mir.mk_struct('GuardedDbFields', maybe_immutable_memtable=Enum('Some', ({'source': 'immutable memtable'},)) if has_imm else Enum('None'),
                                          version_set={'abstract': True, '__ty': 'VersionSet'}, read_sampling_seed=BitVec('seed', 64))
                        ro = mir.mk_struct('ReadOptions', fill_cache=BoolVal(True), snapshot=Enum('Some', ({'abstract': True, '__ty': 'Snapshot'},)) if has_snap else Enum('None'))
                        env = {'$state': {'events': []}, '$db': {'abstract': True, '__ty': 'DB'}, '$g': g, '$key': ukey}
                        ex.top(fn, [Ref('$db'), ro, Ref('$key')], env, [], k)
                        ex.bound_hits = []
                        res.absorb(ex)
    res.wall_s = time.time() - t0
    if res.violations: res.status = 'violation'
    return res


def o1_8_confirm(v, out):
    """Native: 27 keys, one per combination of (table, immutable memtable, memtable) x (nothing, value, tombstone), written in three
    stages (flush after the first; the memtable of the second is rotated but its flush is held back; the third stays in the active
    memtable); a snapshot after each stage.  Every key is read without a snapshot and at each of the three snapshots; the expected
    answer is that of the newest stage at or before the snapshot that wrote the key."""
    if out.get('_rc') != 0: return (False, 'native run failed: %s' % out.get('_stderr', '')[-300:])
    return (out.get('mismatches', '0') != '0', 'native: %s of %s reads differ from the newest-source reference (first: %s); immutable memtable present during the reads: %s' % (
        out.get('mismatches'), out.get('reads'), out.get('first_mismatch'), out.get('imm_present')))
