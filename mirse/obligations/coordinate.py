"""O9.4 CompactionWorker::coordinate_compaction: manual compaction requests and the life of the background thread."""
import time
from z3 import BitVec, Bool, BoolVal, And, Or, Not
from ..exec import Exec, Enum, Ref, Opaque, Inconclusive, bv
from ..ob import Result, mval
from .. import lib

GUARD = r'<parking_lot::lock_api::MutexGuard<.*> as Deref(?:Mut)?>::deref(?:_mut)?'


def o9_4_coordinate(mir, tier):
    """No immutable memtable.  A manual request is present at entry or not; compact_range / pick_compaction return a compaction or
    none (free); trivial move or not (free); log_and_apply / compact_tables succeed or fail (free).  Environment: while
    compact_tables runs (its merge loop works without the mutex) another thread may install a manual request if none is pending.
    Reference: the task never panics (a panic kills the only background thread); a request installed while the task ran is still
    pending afterwards; the request the task executed is taken, marked done iff nothing was left to compact, else its begin is
    moved to the end of what was compacted; a failed compaction is recorded as background error."""
    fn = mir.method('CompactionWorker', 'coordinate_compaction')
    res = Result('O9.4 CompactionWorker::coordinate_compaction', [fn.path], 'manual request present / absent at entry; compaction picked or not, trivial move or not, apply / compact_tables ok or failing, request installed during compact_tables or not (all free)')
    t0 = time.time()
    gf = mir.struct_fields('GuardedDbFields'); mf = mir.struct_fields('ManualCompactionConfiguration')
    for manual in (False, True):
        S = lib.std_summaries(); P = S['$patterns']
        P[GUARD] = lib.ptr_deref
        have, trivial, apply_ok, tables_ok, installed = Bool('compaction_found'), Bool('trivial_move'), Bool('apply_ok'), Bool('compact_tables_ok'), Bool('request_installed_during_compaction')
        def upd(env, **kw):
            s = dict(env['$state']); s.update(kw); env['$state'] = s; return s
        def ev(env, e): return upd(env, events=env['$state']['events'] + [e])
        manifest = {'abstract': True, '__ty': 'CompactionManifest'}
        def pick(name):
            def f(se, env, pc, *a):
                st = ev(env, name); return [(have, Enum('Some', (dict(manifest),)), st), (Not(have), Enum('None'), st)]
            return f
        P[r'VersionSet::compact_range'] = pick('compact_range')
        P[r'VersionSet::pick_compaction'] = pick('pick_compaction')
        P[r'parking_lot::lock_api::Mutex::lock'] = lambda se, env, pc, m: lib.one(env, m if isinstance(m, Ref) else Ref('$mc'))
        P[r'<Arc<parking_lot::lock_api::Mutex<.*>> as Deref>::deref'] = lib.ptr_deref
        P[r'ManualCompactionConfiguration::clone_key_range'] = lambda se, env, pc, m: lib.one(env, {0: Enum('None'), 1: Enum('None'), '__ty': 'Range'})
        file_ = mir.mk_struct('FileMetadata', allowed_seeks=Enum('None'), file_number=bv(5), file_size=bv(10), smallest_key=Enum('Some', ({'key': 'smallest'},)), largest_key=Enum('Some', ({'key': 'largest of the inputs'},)))
        P[r'CompactionManifest::get_compaction_level_files'] = lambda se, env, pc, m: lib.one(env, [file_])
        P[r'FileMetadata::largest_key'] = lambda se, env, pc, f: lib.one(env, {'key': 'largest of the inputs'})
        P[r'<InternalKey as Clone>::clone'] = lambda se, env, pc, k: lib.one(env, se.deref(env, k) if isinstance(k, Ref) else k)
        P[r'CompactionWorker::log_manual_compaction_summary'] = lib.unit
        P[r'CompactionManifest::is_trivial_move'] = lambda se, env, pc, m: lib.one(env, trivial)
        P[r'CompactionManifest::set_change_manifest_for_trivial_move'] = lib.unit
        P[r'CompactionManifest::get_change_manifest_mut'] = lambda se, env, pc, m: lib.one(env, Ref('$cm'))
        P[r'CompactionManifest::level'] = lambda se, env, pc, m: lib.one(env, bv(1))
        def laa(se, env, pc, g, m):
            st = ev(env, 'log_and_apply'); return [(apply_ok, Enum('Ok', ((),)), st), (Not(apply_ok), Enum('Err', (Enum('ManifestWrite', (Opaque('e'),), 'WriteError'),)), st)]
        P[r'VersionSet::log_and_apply'] = laa
        def compact_tables(se, env, pc, dbs, g, m):
            outs = []
            for inst in ((False, True) if not manual else (False,)):
                e = dict(env); st = dict(e['$state']); st['events'] = st['events'] + ['compact_tables']; st['installed'] = inst
                writes = []
                if inst:
                    gv = dict(se.deref(e, Ref('$g'))); gv[gf.index('maybe_manual_compaction')] = Enum('Some', (Ref('$mc2'),)); writes = [(Ref('$g'), gv)]
                c_inst = installed if inst else Not(installed)
                outs.append((And(c_inst, tables_ok), Enum('Ok', ({'abstract': True, '__ty': 'CompactionState'},)), st, writes))
                outs.append((And(c_inst, Not(tables_ok)), Enum('Err', (Enum('IO', (Opaque('e'),), 'RainDBError'),)), st, writes))
            return outs
        P[r'CompactionWorker::compact_tables'] = compact_tables
        P[r'CompactionWorker::cleanup_compaction'] = lib.unit
        P[r'CompactionState::compaction_manifest_mut'] = lambda se, env, pc, s: lib.one(env, Ref('$cm'))
        P[r'CompactionManifest::release_inputs'] = lib.unit
        P[r'DB::remove_obsolete_files'] = lambda se, env, pc, *a: [(None, (), ev(env, 'remove_obsolete_files'))]
        P[r'DB::set_bad_database_state'] = lambda se, env, pc, *a: [(None, (), ev(env, 'set_bad_state'))]
        P[r'(?:Atomic|AtomicBool)::load'] = lambda se, env, pc, *a: lib.one(env, Bool('shutting_down'))
        P[r'VersionSet::level_summary'] = lambda se, env, pc, vs: lib.one(env, {'str': 'summary'})
        P[r'FileMetadata::file_number'] = lambda se, env, pc, f: lib.one(env, bv(5)); P[r'FileMetadata::get_file_size'] = lambda se, env, pc, f: lib.one(env, bv(10))
        P[r'Arc::clone'] = lib.deref1
        P[r'<.* as Into<RainDBError>>::into'] = lib.ident
        ex = Exec(mir, S, loop_bound=4, opaque_calls_ok=True, max_paths=3000)
        def k(ret, env, pc, manual=manual, ex=ex):
            s = env['$state']; evs = s['events']; g = ex.deref(env, Ref('$g'))
            pending = g[gf.index('maybe_manual_compaction')]
            posts = []
            if manual:
                mc = ex.deref(env, Ref('$mc'))
                posts.append(('the manual request the task executed is still installed afterwards (the requester waits for ever)', BoolVal(isinstance(pending, Enum) and pending.tag == 'None')))
                posts.append(('a manual request is not marked done exactly when nothing was left to compact', mc[mf.index('done')] == Not(have)))
                b = mc[mf.index('begin')]
                posts.append(('a partly executed manual request does not continue after the largest key that was compacted', Or(Not(have), BoolVal(isinstance(b, Enum) and b.tag == 'Some' and isinstance(b.fields[0], dict) and b.fields[0].get('key') == 'largest of the inputs'))))
                posts.append(('a manual compaction is taken from pick_compaction instead of the requested range', BoolVal('compact_range' in evs and 'pick_compaction' not in evs)))
            else:
                if s.get('installed'):
                    posts.append(('a manual request installed while an automatic compaction ran is consumed without being executed (its requester waits for ever)', BoolVal(isinstance(pending, Enum) and pending.tag == 'Some')))
                    mc2 = ex.deref(env, Ref('$mc2'))
                    posts.append(('a manual request installed while an automatic compaction ran is modified although it was not executed', And(Not(mc2[mf.index('done')]) if not isinstance(mc2[mf.index('done')], bool) else BoolVal(not mc2[mf.index('done')]), BoolVal(isinstance(mc2[mf.index('begin')], Enum) and mc2[mf.index('begin')].tag == 'None'))))
            if 'compact_tables' in evs:
                posts.append(('a failed table compaction is not recorded as background error (or a successful one is)', tables_ok == BoolVal('set_bad_state' not in evs)))
                posts.append(('obsolete files are removed after a failed compaction / not removed after a successful one', tables_ok == BoolVal('remove_obsolete_files' in evs)))
            if 'log_and_apply' in evs:
                posts.append(('a failed trivial move is not recorded as background error', apply_ok == BoolVal('set_bad_state' not in evs)))
            res.cases['manual=%s installed=%s %s' % (manual, s.get('installed'), ','.join(evs))] = 1
            for label, post, m in ex.check_posts(posts, pc):
                rep = 'installed while an automatic compaction ran' in label
                res.violations.append({'label': label, 'events': evs, 'replay': ['manual_request_during_compaction'] if rep else None,
                                       'confirmed_by': None if rep else {'reproduced': False, 'detail': 'no native scenario for this label'}})
        mk_mc = lambda: mir.mk_struct('ManualCompactionConfiguration', level=bv(1), done=BoolVal(False), begin=Enum('None'), end=Enum('None'))
        g = mir.mk_struct('GuardedDbFields', maybe_immutable_memtable=Enum('None'), maybe_manual_compaction=Enum('Some', (Ref('$mc'),)) if manual else Enum('None'),
                          version_set={'abstract': True, '__ty': 'VersionSet'})
        env = {'$state': {'events': [], 'installed': False}, '$g': g, '$guard': Ref('$g'), '$mc': mk_mc(), '$mc2': mk_mc(), '$cm': {'abstract': True, '__ty': 'CompactionManifest'},
               '$dbs': mir.mk_struct('PortableDatabaseState', options={'abstract': True, '__ty': 'DbOptions'}, is_shutting_down='flag', file_name_handler='fnh', table_cache='tc')}
        ex.top(fn, [Ref('$dbs'), Ref('$guard')], env, [], k)
        ex.bound_hits = []
        res.absorb(ex)
        for pcx, msg, where in ex.panics:
            m = None
            ex.solver.push(); ex.solver.add(*[c for c in pcx if not isinstance(c, bool)])
            feasible = str(ex.solver.check()) == 'sat'
            inst = feasible and not manual and mval(ex.solver.model(), installed)
            ex.solver.pop()
            if not feasible: continue
            res.panic_paths += 1
            res.violations.append({'label': 'the background compaction task panics (the only background thread dies; flushes, compactions and waiting writers hang): ' + msg[:60], 'manual_at_entry': manual,
                                   'replay': ['manual_request_during_compaction'] if inst else None, 'confirmed_by': None if inst else {'reproduced': False, 'detail': 'no native scenario for this panic path'}})
    res.wall_s = time.time() - t0
    if res.violations: res.status = 'violation'
    return res


def o9_4_confirm(v, out):
    """Native: a size-triggered level-0 compaction is held while it writes its output; another thread requests a manual compaction
    of level 0; the requester must return and a later flush must complete (15 s watchdogs)."""
    if out.get('_rc') != 0 and not out.get('_timeout'): return (False, 'native run failed: %s' % out.get('_stderr', '')[-300:])
    bad = out.get('requester') == 'stuck' or out.get('later_flush') == 'stuck' or bool(out.get('_timeout'))
    return (bad, 'requester=%s later_flush=%s' % (out.get('requester'), out.get('later_flush')))
