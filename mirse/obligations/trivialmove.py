"""O7.12 CompactionManifest::is_trivial_move: a file is only moved down unchanged when nothing in the parent level takes part (C07, C10)."""
import time
from z3 import BitVec, BoolVal, And, Or, Not, ULT, ULE
from ..exec import Exec, Inconclusive, Ref, Enum
from ..ob import Result
from .. import lib
from .version import World, base_summaries, bv, mval


def o7_12_trivial_move(mir, tier):
    """Compaction inputs with 0..2 files at the compaction level, 0..2 at the parent level and 0..2 overlapping grandparents (free
    sizes, free output-size option).  Reference: a trivial move (the input file is re-linked one level down without being
    merged) is only chosen for exactly one compaction-level file and NO parent-level input - the parent inputs are all files
    the input overlaps, so anything else would put overlapping files into a level >= 1 or leave a file out of the merge - and
    only when the overlapping grandparent bytes are within 10 x max_file_size (a cost limit, checked as stated in the code)."""
    fn = mir.method('CompactionManifest', 'is_trivial_move')
    res = Result('O7.12 CompactionManifest::is_trivial_move', [fn.path, 'sum_file_sizes, max_grandparent_overlap_bytes (inlined)'],
                 '0..2 compaction-level files, 0..2 parent-level files, 0..2 grandparents with free sizes (< 2^40); max_file_size free (< 2^40)')
    t0 = time.time()
    for n0 in range(3):
        for n1 in range(3):
            for ng in range(3):
                w = World(mir)
                f0 = [w.file('in%d' % i, number=10 + i) for i in range(n0)]; f1 = [w.file('parent%d' % i, number=20 + i) for i in range(n1)]; gp = [w.file('grand%d' % i, number=30 + i) for i in range(ng)]
                G = [w.F(f) for f in gp]
                maxout = BitVec('max_file_size', 64)
                pre = list(w.pre) + [ULT(g['size'], bv(1 << 40)) for g in G] + [ULT(maxout, bv(1 << 40))]
                S = base_summaries(mir)
                ex = Exec(mir, S, loop_bound=6)
                cm = mir.mk_struct('CompactionManifest', level=bv(1), max_output_file_size_bytes=maxout, maybe_input_version=Enum('None'), input_files=[list(f0), list(f1)], overlapping_grandparents=list(gp),
                                   change_manifest={'abstract': True, '__ty': 'VersionChangeManifest'}, base_level_pointers=[bv(0)] * 7, grandparent_index=bv(0), current_overlapping_bytes=bv(0), is_overlappping=BoolVal(False))
                total = bv(0)
                for g in G: total = total + g['size']
                def k(ret, env, pc, ex=ex, n0=n0, n1=n1, ng=ng, total=total, maxout=maxout):
                    posts = [('a trivial move is chosen although the compaction has not exactly one input file or has parent-level inputs (a file would be moved into a level where it overlaps, or inputs would be left unmerged)',
                              Or(Not(ret), BoolVal(n0 == 1 and n1 == 0))),
                             ('a single file without parent-level inputs and with grandparent overlap within 10 x max_file_size is not moved / one above the limit is', 
                              ret == And(BoolVal(n0 == 1 and n1 == 0), ULE(total, bv(10) * maxout)))]
                    res.cases['%d+%d inputs, %d grandparents' % (n0, n1, ng)] = 1
                    for label, post, m in ex.check_posts(posts, pc):
                        res.violations.append({'label': label, 'inputs': [n0, n1, ng], 'replay': ['trivial_move', str(n0), str(n1)]})
                ex.top(fn, [Ref('$cm')], {'$state': {}, '$cm': cm}, pre, k)
                res.absorb(ex)
    res.wall_s = time.time() - t0
    if res.violations: res.status = 'violation'
    return res


def o7_12_confirm(v, out):
    """Native: a compaction manifest with the given numbers of input files is asked whether it is a trivial move."""
    if out.get('_rc') != 0: return (False, 'native run failed: %s' % out.get('_stderr', '')[-300:])
    n0, n1 = int(v['replay'][1]), int(v['replay'][2])
    got = out.get('trivial') == 'true'
    return (got != (n0 == 1 and n1 == 0), 'native: %d + %d input files (no grandparents): trivial move = %s' % (n0, n1, got))
