"""O7.12 CompactionManifest::is_trivial_move: a file is only moved down unchanged when nothing in the parent level takes part (C07, C10)."""
import time
from z3 import BitVec, Bool, BoolVal, And, Or, Not, ULT, ULE, UGT
from ..exec import Exec, Inconclusive, Ref, Enum
from ..ob import Result
from .. import lib
from .version import World, base_summaries, bv, mval


def o7_12_trivial_move(mir, tier):
    """Compaction inputs with 0..2 files at the compaction level, 0..2 at the parent level and 0..2 overlapping grandparents (free
    sizes, free output-size option).  Reference: a trivial move (the input file is re-linked one level down without being
    merged) is only chosen for exactly one compaction-level file and NO parent-level input - the parent inputs are all files
    the input overlaps, so anything else would put overlapping files into a level >= 1 or leave a file out of the merge - and
    only when the overlapping grandparent bytes are within 10 x max_file_size (a cost limit, checked as stated in the code)."""
    fn = mir.method('CompactionManifest', 'is_trivial_move')
    res = Result('O7.12 CompactionManifest::is_trivial_move', [fn.path, 'sum_file_sizes, max_grandparent_overlap_bytes (inlined)'],
                 '0..2 compaction-level files, 0..2 parent-level files, 0..2 grandparents with free sizes (< 2^40); max_file_size free (< 2^40)')
    t0 = time.time()
    for n0 in range(3):
        for n1 in range(3):
            for ng in range(3):
                w = World(mir)
                f0 = [w.file('in%d' % i, number=10 + i) for i in range(n0)]; f1 = [w.file('parent%d' % i, number=20 + i) for i in range(n1)]; gp = [w.file('grand%d' % i, number=30 + i) for i in range(ng)]
                G = [w.F(f) for f in gp]
                maxout = BitVec('max_file_size', 64)
                pre = list(w.pre) + [ULT(g['size'], bv(1 << 40)) for g in G] + [ULT(maxout, bv(1 << 40))]
                S = base_summaries(mir)
                ex = Exec(mir, S, loop_bound=6)
                cm = mir.mk_struct('CompactionManifest', level=bv(1), max_output_file_size_bytes=maxout, maybe_input_version=Enum('None'), input_files=[list(f0), list(f1)], overlapping_grandparents=list(gp),
                                   change_manifest={'abstract': True, '__ty': 'VersionChangeManifest'}, base_level_pointers=[bv(0)] * 7, grandparent_index=bv(0), current_overlapping_bytes=bv(0), is_overlappping=BoolVal(False))
                total = bv(0)
                for g in G: total = total + g['size']
                def k(ret, env, pc, ex=ex, n0=n0, n1=n1, ng=ng, total=total, maxout=maxout):
                    posts = [('a trivial move is chosen although the compaction has not exactly one input file or has parent-level inputs (a file would be moved into a level where it overlaps, or inputs would be left unmerged)',
                              Or(Not(ret), BoolVal(n0 == 1 and n1 == 0))),
                             ('a single file without parent-level inputs and with grandparent overlap within 10 x max_file_size is not moved / one above the limit is', 
                              ret == And(BoolVal(n0 == 1 and n1 == 0), ULE(total, bv(10) * maxout)))]
                    res.cases['%d+%d inputs, %d grandparents' % (n0, n1, ng)] = 1
                    for label, post, m in ex.check_posts(posts, pc):
                        res.violations.append({'label': label, 'inputs': [n0, n1, ng], 'replay': ['trivial_move', str(n0), str(n1)]})
                ex.top(fn, [Ref('$cm')], {'$state': {}, '$cm': cm}, pre, k)
                res.absorb(ex)
    res.wall_s = time.time() - t0
    if res.violations: res.status = 'violation'
    return res


def o7_12_confirm(v, out):
    """Native: a compaction manifest with the given numbers of input files is asked whether it is a trivial move."""
    if out.get('_rc') != 0: return (False, 'native run failed: %s' % out.get('_stderr', '')[-300:])
    n0, n1 = int(v['replay'][1]), int(v['replay'][2])
    got = out.get('trivial') == 'true'
    return (got != (n0 == 1 and n1 == 0), 'native: %d + %d input files (no grandparents): trivial move = %s' % (n0, n1, got))


def o9_9_should_stop_before_key(mir, tier):
    """CompactionManifest::should_stop_before_key over 1..3 overlapping grandparent files (sorted, disjoint, free sizes < 2^40), the scan
    pointer anywhere in 0..=k, `is_overlappping` and the accumulated bytes free, a free key.  Reference: the call returns (the scan
    loop runs at most k times - it runs on the compaction thread; a loop that does not advance leaves every waiter stuck); afterwards
    the pointer stands on the first file at or after its old position whose largest key is >= the key (k if none); the bytes of the
    files skipped are accumulated iff an output was already in progress; the answer is "stop" iff the accumulated bytes exceed
    10 x max_file_size, and then the accumulator restarts at 0."""
    from ..ob import klt, kle
    from .version import sorted_disjoint
    fn = mir.method('CompactionManifest', 'should_stop_before_key')
    res = Result('O9.9 CompactionManifest::should_stop_before_key', [fn.path], '1..3 grandparent files, scan pointer 0..=k, overlap flag and accumulated bytes free, free key; max_file_size free (< 2^40)')
    t0 = time.time()
    cmf = mir.struct_fields('CompactionManifest')
    for k in (1, 2, 3):
        for start in range(0, k + 1):
            w = World(mir)
            gp = [w.file('grand%d' % i, number=30 + i) for i in range(k)]
            G = [w.F(f) for f in gp]
            key = w.key('key'); K = w.K(key)
            maxout, acc0 = BitVec('max_file_size', 64), BitVec('bytes_so_far', 64)
            ovl = Bool('output_in_progress')
            pre = list(w.pre) + sorted_disjoint(G) + [kle(g['sm'], g['lg']) for g in G] + [ULT(g['size'], bv(1 << 40)) for g in G] + [ULT(maxout, bv(1 << 40)), ULT(acc0, bv(1 << 44))]
            # the pointer never runs ahead of the keys: every file before it ends before the key (keys arrive in ascending order)
            pre += [klt(G[i]['lg'], K) for i in range(start)]
            S = base_summaries(mir)
            ex = Exec(mir, S, loop_bound=k + 2)
            cm = mir.mk_struct('CompactionManifest', level=bv(1), max_output_file_size_bytes=maxout, maybe_input_version=Enum('None'), input_files=[[], []], overlapping_grandparents=list(gp),
                               change_manifest={'abstract': True, '__ty': 'VersionChangeManifest'}, base_level_pointers=[bv(0)] * 7, grandparent_index=bv(start), current_overlapping_bytes=acc0, is_overlappping=ovl)
            def kf(ret, env, pc, ex=ex, k=k, start=start, G=G, K=K, acc0=acc0, ovl=ovl, maxout=maxout):
                c = ex.deref(env, Ref('$cm')); idx = c[cmf.index('grandparent_index')]; acc = c[cmf.index('current_overlapping_bytes')]; flag = c[cmf.index('is_overlappping')]
                # reference
                from z3 import If
                want_idx = bv(k); skipped = bv(0)
                for i in reversed(range(start, k)):
                    ends_before = klt(G[i]['lg'], K)
                    # first i >= start with not ends_before
                    want_idx = If(And(*[klt(G[j]['lg'], K) for j in range(start, i)], Not(ends_before)), bv(i), want_idx)
                run = BoolVal(True)
                for i in range(start, k):
                    run = And(run, klt(G[i]['lg'], K))
                    skipped = skipped + If(run, G[i]['size'], bv(0))
                total = acc0 + If(ovl, skipped, bv(0))
                stop = UGT(total, bv(10) * maxout)
                posts = [('after should_stop_before_key the scan pointer is not on the first grandparent file that ends at or after the key', idx == want_idx),
                         ('the overlap flag is not set after the first call for an output', flag if not isinstance(flag, bool) else BoolVal(flag)),
                         ('the answer is not "stop" exactly when the grandparent bytes passed since the output began exceed 10 x max_file_size', ret == stop),
                         ('the accumulated grandparent bytes are wrong after the call (not restarted after a stop / skipped files not counted)', acc == If(stop, bv(0), total))]
                res.cases['%d grandparents, pointer %d' % (k, start)] = 1
                for label, post, m in ex.check_posts(posts, pc):
                    res.violations.append({'label': label, 'grandparents': k, 'pointer': start, 'replay': ['grandparent_gap'], 'expect_hang': True})
            ex.top(fn, [Ref('$cm'), Ref('$key')], {'$state': {}, '$cm': cm, '$key': key}, pre, kf)
            if ex.bound_hits:
                LAB = 'the grandparent scan of should_stop_before_key does not advance: the compaction thread spins for ever (compact_range, flushes and close wait on it)'
                res.violations.append({'label': LAB, 'grandparents': k, 'pointer': start, 'where': str(ex.bound_hits[0])[:160], 'replay': ['grandparent_gap'], 'expect_hang': True})
                ex.record_formula(LAB, [], BoolVal(True)); ex.bound_hits = []
            res.absorb(ex)
            for pcx, msg, where in ex.panics:
                ex.solver.push(); ex.solver.add(*pre); ex.solver.add(*[c for c in pcx if not isinstance(c, bool)]); feas = str(ex.solver.check()) == 'sat'; ex.solver.pop()
                if feas: res.panic_paths += 1; res.violations.append({'label': 'panic path: ' + msg[:80], 'replay': None, 'confirmed_by': {'reproduced': False, 'detail': 'no native scenario'}})
    res.wall_s = time.time() - t0
    if res.violations: res.status = 'violation'
    return res


def o9_9_confirm(v, out):
    """Native: tables [a..b] and [y..z] at level 2, [d..y] at level 1, [a..e] at level 0; the whole key space is compacted (the first
    key checked against the grandparents lies beyond the first of them); compact_range must return (20 s watchdog) with all
    values intact."""
    if out.get('_timeout'): return (True, 'native: compact_range did not return within the watchdog time')
    if out.get('_rc') != 0: return (False, 'native run failed: %s' % out.get('_stderr', '')[-300:])
    return (out.get('compact_range') != 'returned' or out.get('values_ok') != 'true', 'native: files per level before %s; compact_range %s; values intact: %s' % (out.get('files_per_level'), out.get('compact_range'), out.get('values_ok')))
