"""O8.4 DB::set_current_file: CURRENT is switched by write-temp-then-rename and every failed step is reported."""
import time
from z3 import BitVec, Bool, BoolVal, And, Or, Not
from ..exec import Exec, Enum, Ref, Opaque, Inconclusive, bv
from ..ob import Result, mval
from .. import lib


def o8_4_set_current_file(mir, tier):
    fn = mir.method('DB', 'set_current_file')
    res = Result('O8.4 DB::set_current_file', [fn.path],
                 'create / append / rename / remove each succeed or fail (free, independent); manifest number free; paths by contract (FileNameHandler)')
    t0 = time.time()
    S = lib.std_summaries(); P = S['$patterns']
    c_ok, a_ok, r_ok, d_ok = Bool('create_ok'), Bool('append_ok'), Bool('rename_ok'), Bool('remove_ok')
    num = BitVec('manifest_number', 64)
    def ev(env, e):
        st = dict(env['$state']); st['events'] = st['events'] + [e]; return st
    def P_(v, se, env): return se.deref(env, v) if isinstance(v, Ref) else v
    P[r'FileNameHandler::get_manifest_file_path'] = lambda se, env, pc, h, n: lib.one(env, {'path': 'manifest', 'num': n})
    P[r'FileNameHandler::get_temp_file_path'] = lambda se, env, pc, h, n: lib.one(env, {'path': 'temp', 'num': n})
    P[r'FileNameHandler::get_current_file_path'] = lambda se, env, pc, h: lib.one(env, {'path': 'CURRENT'})
    P[r'<PathBuf as Deref>::deref'] = lib.ident
    P[r'Path::file_name'] = lambda se, env, pc, p: lib.one(env, Enum('Some', ({'name_of': P_(p, se, env)},)))
    P[r'OsStr::to_string_lossy'] = lambda se, env, pc, s: lib.one(env, {'text_of': P_(s, se, env)})
    P[r'<Cow<.*> as Deref>::deref'] = lib.ident
    P[r'(?:core::)?str::<impl str>::as_bytes'] = lambda se, env, pc, s: lib.one(env, {'bytes_of': P_(s, se, env)})
    P[r'(?:std|core|alloc)::slice::<impl \[.*\]>::concat'] = lambda se, env, pc, parts: lib.one(env, {'concat': [P_(x, se, env) for x in (P_(parts, se, env) if isinstance(P_(parts, se, env), list) else [parts])]})
    def create(se, env, pc, fs, p, app):
        st = ev(env, ('create', P_(p, se, env), app))
        return [(c_ok, Enum('Ok', ({'abstract': True, '__ty': 'file'},)), st), (Not(c_ok), Enum('Err', ({'err': 'create'},)), st)]
    P[r'<dyn FileSystem as FileSystem>::create_file'] = create
    def append(se, env, pc, f, data):
        st = ev(env, ('append', P_(data, se, env)))
        return [(a_ok, Enum('Ok', (BitVec('written', 64),)), st), (Not(a_ok), Enum('Err', ({'err': 'append'},)), st)]
    P[r'<(?:Box<)?dyn RandomAccessFile>? as RandomAccessFile>::append'] = append
    def rename(se, env, pc, fs, a, b):
        st = ev(env, ('rename', P_(a, se, env), P_(b, se, env)))
        return [(r_ok, Enum('Ok', ((),)), st), (Not(r_ok), Enum('Err', ({'err': 'rename'},)), st)]
    P[r'<dyn FileSystem as FileSystem>::rename'] = rename
    def remove(se, env, pc, fs, p):
        st = ev(env, ('remove', P_(p, se, env)))
        return [(d_ok, Enum('Ok', ((),)), st), (Not(d_ok), Enum('Err', ({'err': 'remove'},)), st)]
    P[r'<dyn FileSystem as FileSystem>::remove_file'] = remove
    P[r'Result::err'] = lambda se, env, pc, r: lib.one(env, Enum('Some', (r.fields[0],)) if r.tag == 'Err' else Enum('None'))
    P[r'<Result<.*> as FromResidual<Result<Infallible, .*>>>::from_residual'] = lambda se, env, pc, r: lib.one(env, r)
    ex = Exec(mir, S, loop_bound=3, opaque_calls_ok=True)
    def k(ret, env, pc):
        evs = env['$state']['events']; kinds = [e[0] for e in evs]
        ok = isinstance(ret, Enum) and ret.tag == 'Ok'
        posts = [('set_current_file returns Ok although creating / writing the temp file or renaming it onto CURRENT failed', Or(BoolVal(not ok), And(c_ok, a_ok, r_ok))),
                 ('set_current_file returns Err although every step succeeded', Or(BoolVal(ok), Not(And(c_ok, a_ok, r_ok))))]
        creates = [e for e in evs if e[0] == 'create']; renames = [e for e in evs if e[0] == 'rename']
        posts.append(('CURRENT is written in place instead of via a temp file', BoolVal(all(isinstance(e[1], dict) and e[1].get('path') == 'temp' for e in creates))))
        def is_false(x):
            if isinstance(x, bool): return not x
            try:
                from z3 import is_false as zf, simplify
                return zf(simplify(x))
            except Exception: return False
        posts.append(('the temp file is opened for appending instead of being created empty (a leftover temp file of a crashed switch would end up in CURRENT in front of the new name)',
                      BoolVal(all(is_false(e[2]) for e in creates))))
        posts.append(('the rename is not temp file -> CURRENT', BoolVal(all(isinstance(e[1], dict) and e[1].get('path') == 'temp' and isinstance(e[2], dict) and e[2].get('path') == 'CURRENT' for e in renames))))
        if ok:
            posts.append(('Ok without the sequence create temp, write name, rename', BoolVal(kinds == ['create', 'append', 'rename'])))
            data = evs[1][1] if len(evs) > 1 else None
            named = None
            try: named = data['concat'][0]['bytes_of']['text_of']['name_of']
            except Exception: pass
            posts.append(('the name written to CURRENT is not the manifest with the given number', named['num'] == num if isinstance(named, dict) and named.get('path') == 'manifest' else BoolVal(False)))
        if 'rename' in kinds: posts.append(('CURRENT is switched before the temp file was written completely', And(c_ok, a_ok) if kinds.index('rename') == 2 and kinds[:2] == ['create', 'append'] else BoolVal(False)))
        res.cases[','.join(kinds) + (' Ok' if ok else ' Err')] = 1
        for label, post in posts:
            ex.record_formula(label, pc, Not(post))
            m = ex.model(Not(post))
            if m is not None:
                fail = 'rename' if not mval(m, r_ok) else ('append' if not mval(m, a_ok) else 'create')
                rep = 'returns Ok although' in label
                if 'opened for appending' in label:
                    res.violations.append({'label': label, 'events': [str(e)[:80] for e in evs], 'replay': ['stale_temp_before_switch']}); continue
                res.violations.append({'label': label, 'events': [str(e)[:80] for e in evs], 'model': {str(x): mval(m, x) for x in (c_ok, a_ok, r_ok, d_ok)},
                                       'replay': ['log_and_apply_fault', 'created', {'rename': 'CURRENT', 'append': 'dbtemp', 'create': 'dbtemp'}[fail], 'once' if mval(m, d_ok) else 'sticky'] if rep else None,
                                       'confirmed_by': None if rep else {'reproduced': False, 'detail': 'no native scenario for this label'}})
    env = {'$state': {'events': []}}
    ex.top(fn, [{'abstract': True, '__ty': 'fs'}, Ref('$fnh'), num], dict(env, **{'$fnh': {'abstract': True, '__ty': 'FileNameHandler'}}), [], k)
    res.absorb(ex)
    for pc, msg, where in ex.panics:
        res.panic_paths += 1; res.violations.append({'label': 'panic path: ' + msg[:80], 'replay': None, 'confirmed_by': {'reproduced': False, 'detail': 'no native scenario'}})
    res.wall_s = time.time() - t0
    if res.violations: res.status = 'violation'
    return res


def o8_4_confirm(v, out):
    """Native: a version set has to start a new manifest (and switch CURRENT) on a file system that fails the chosen operation;
    log_and_apply must not return Ok."""
    if out.get('_rc') != 0: return (False, 'native run failed: %s' % out.get('_stderr', '')[-300:])
    if v['replay'][0] == 'stale_temp_before_switch':
        bad = out.get('current_lines') != '1' or out.get('third_open') != 'ok' or out.get('value') != 'v'
        return (bad, 'leftover temp files planted before a reopen that switches the manifest: CURRENT then holds %s line(s) (%s), the following open: %s, acknowledged key: %s'
                % (out.get('current_lines'), out.get('current'), out.get('third_open'), out.get('value')))
    return (out.get('result') == 'Ok' and out.get('append_failed') == 'true', 'native log_and_apply result %s with a failing %s' % (out.get('result'), v['replay'][2:]))
